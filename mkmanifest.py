#!/venv/bin/python
"""Regenerates MANIFEST.json from the table below (run after adding a check)."""
import json, os
HERE = os.path.dirname(os.path.abspath(__file__))
CHECKS = {}
def chk(pid, technique, text, note, ref):
    CHECKS[pid] = dict(technique=technique, text=text, note=note, ref=ref)

chk("C03", "exhaustive enumeration of stream partitions (0-3 cuts, all offsets) through the real read loop under a virtual event loop",
    "Every 1-cut and 2-cut split (plus boundary 3-cuts, 1-byte reads, marker-free garbage) of a corpus of frame streams is executed on the real socket_read_task; deliveries, counters and journal must equal the constructed frame list.",
    "Corpus frames come from the independent reference encoder; each read() returns exactly one fed chunk; bounded stream length.", "4/C03")

ALL = [f"C{i:02d}" for i in range(1, 21)]
m = {
 "version": 1,
 "setup_cmd": "/venv/bin/python -m compileall -q mc props >/dev/null && /venv/bin/python -m mc.selfcheck",
 "hooks": {"guard": "ASYNCFIX_VERIF", "enable": "none needed: every seam (time.time, asyncio.open_connection/start_server, sqlite3.connect, application hooks) is patched from outside the package",
           "baseline_off_cmd": "cd /repo && /venv/bin/python -m pytest -ra -q -p no:cacheprovider --timeout=900 --continue-on-collection-errors",
           "source_commits": [], "add_only": True},
 "engines": [
  {"name": "vloop-world", "path": "mc/", "serves_properties": sorted(CHECKS), "kind_free_text": "hand-rolled explicit-state / stateless explorer over the real asyncfix objects: virtual asyncio loop, fake transport, sqlite step proxy, reference oracles"}],
 "checks": [], "not_applicable": [],
 "notes": "See DESIGN.md. ./check <ID> [--tier quick|thorough] [--replay FILE]; exit 0 held, 1 violation, 2 harness error."}
for pid in ALL:
    if pid in CHECKS:
        c = CHECKS[pid]
        m["checks"].append({
            "property_id": pid, "quick_cmd": f"./check {pid} --tier quick", "thorough_cmd": f"./check {pid} --tier thorough",
            "evidence_file": f"evidence/{pid}.json", "replay_cmd_template": f"./check {pid} --replay {{path}}",
            "engine": "vloop-world", "technique": c["technique"],
            "level_claimed": {"category": "model_checking", "text": c["text"], "design_ref": c["ref"]},
            "level_note": c["note"]})
    else:
        m["not_applicable"].append({"property_id": pid, "reason": "check under construction in this session (design in DESIGN.md section 4); not claimed until it exists"})
json.dump(m, open(os.path.join(HERE, "MANIFEST.json"), "w"), indent=1)
print("checks:", len(m["checks"]), "not_applicable:", len(m["not_applicable"]))
