#!/venv/bin/python
"""Regenerates MANIFEST.json from the table below (run after adding a check)."""
import json, os
HERE = os.path.dirname(os.path.abspath(__file__))
CHECKS = {}
def chk(pid, technique, text, note, ref):
    CHECKS[pid] = dict(technique=technique, text=text, note=note, ref=ref)

EXH = "bounded exhaustive exploration of the real code"
chk("C01", "exhaustive enumeration of well-formed messages (every group of the table, nestings, value atoms, numbering modes) through real encode/decode against an independent structural walk",
    "Every message of a bounded generator over the library's own repeating-group table (all 29 groups, optional-member subsets, nesting to depth 4, sibling groups, value atoms that look like framing, all numbering modes) is round-tripped through the real Codec; an independent walk compares type, ordered fields, group structure, consumed length, raw bytes, CompIDs, sequence number and counter movement.",
    "Values limited to the atom pool and strings of length <=2 (3 thorough) over a framing alphabet; group width bounded; judged on the utf-8 wire the connection really uses.", "4/C01")
chk("C02", "exhaustive enumeration of encoder inputs and of re-encodes of one message object after every sequence of <=2 in-place edits + explicit-state BFS over session histories with an independent framer attached to the transport",
    "Every frame of the C01 generator plus non-ASCII values is parsed by an independent byte-level FIX framer (field order, 3-digit CheckSum, BodyLength, CheckSum) at Codec.encode and at the transport of a real endpoint; additionally every byte string written during BFS over single-endpoint and two-endpoint session histories (logon, heartbeats, resend replays, gap fills, logout, link loss) is parsed.",
    "The reference framer is written from the FIX 4.4 framing rules and shares no code with the library; histories bounded in depth.", "4/C02")
chk("C03", "exhaustive enumeration of stream partitions (0-3 cuts, all offsets) through the real read loop under a virtual event loop",
    "Every 1-cut and 2-cut split (plus boundary 3-cuts, 1-byte reads, marker-free garbage) of a corpus of frame streams is executed on the real socket_read_task; deliveries, counters and journal must equal the constructed frame list.",
    "Corpus frames come from the independent reference encoder; each read() returns exactly one fed chunk; bounded stream length.", "4/C03")
chk("C04", "explicit-state BFS over inbound histories on the real endpoint (history replay + canonical state hashing) with a per-transition receive monitor",
    "All inbound histories up to the depth bound from a misbehaving peer with correct CompIDs (application PossDup N/Y, Heartbeat, TestRequest, ResendRequest, GapFill, Reset, absolute numbers below/at/above expectation), both roles, after a clean Logon and after a Logon that revealed a gap; every transition is judged: delivery only at the expected number, counter movement, exactly one ResendRequest per gap.",
    "One frame per read, processed to quiescence; menu numbers bounded (1..7,12); what a too-low frame does beyond not being delivered is left to C11.", "4/C04")
chk("C05", "explicit-state BFS over send/receive histories of one real endpoint with a send monitor",
    "All histories up to the depth bound of connect, send attempts of every message class in every reachable state, inbound frames that cause sends, EOF; both roles, several start counters; after every event: new messages numbered consecutively from the stored counter, journal row == bytes, stored and live next-out == last+1, refused sends leave nothing.",
    "In-memory journal (durability is C08/C09).", "4/C05")
chk("C06", "exhaustive product enumeration: journal shapes built by real sends x all (BeginSeqNo, EndSeqNo) pairs x receiver state x second request, judged against the recorded ground-truth send history",
    "Every journal shape over slot kinds (application, declined by the replay filter, session message, journal hole, failed send, group message, TestRequest) times every request pair in {-1..last+2}^2, in ACTIVE and while awaiting a resend, plus ordered pairs of requests; the reply must be a contiguous chain of exact retransmissions and gap fills over exactly the range and leave counters, rows outside the range and state untouched.",
    "Ground truth = frames seen leaving the endpoint; journals of 3-4 slots.", "4/C06")
chk("C07", "explicit-state BFS with state hashing over two real endpoints and a fake link (sends, single-frame deliveries, link breaks of three kinds, reconnects)",
    "All interleavings up to bounds on sends, breaks and depth of application sends on either side, delivery of the next in-flight frame, link break (everything in flight lost; EOF / reset / other OSError), reconnect+Logon between a real AsyncFIXClient and a real AsyncFIXDummyServer with persistent journals; per-transition no duplicate/out-of-order delivery; at every quiescent state after a completed Logon: both ACTIVE, every accepted send delivered once in order, counters agree.",
    "No heartbeat traffic; reconnect only after both ends saw the break; the quantifier's long random walks are outside this technique.", "4/C07")
chk("C08", "exhaustive enumeration of journal operation sequences x every SQL-step crash point (file snapshots, validated by real process kills) against a reference model",
    "Every operation sequence up to the length bound on a file-backed journal; at every SQL statement/commit boundary the database file and rollback journal are captured exactly as a dying process leaves them (and, for short sequences, a forked child is really killed with os._exit there), reopened with a fresh Journaler and compared with the model state after j-1 or j completed operations; plus normal close.",
    "SQLite's atomic commit is trusted; process crash, not power loss.", "4/C08")
chk("C09", "explicit-state BFS over session histories with file-backed journals, restart and kill events",
    "Part A: all single-endpoint histories up to depth (gaps, multi-number gap fills, resets, resend requests, sends) - after every event the counters a brand-new connection/Journaler on the same file would load equal the live ones. Part B: two real endpoints with graceful restart at any point and kill in the middle of a send (frame delivered or lost) followed by a new incarnation, reconnect and Logon: C07's delivery conditions, no MsgSeqNum reused for a different message, no ResendRequest when nothing was lost.",
    "Kill points inside inbound journal operations are covered at journal level by C08.", "4/C09")
chk("C10", "exhaustive enumeration of token strings and of every single-byte edit of a frame corpus through the real decoder and a live read loop",
    "All strings of <=4 (5) grammar tokens, every single-byte substitution/deletion/insertion at every position of corpus frames and a table of crafted malformed frames go through Codec.decode(silent) (never raises, 0<=consumed<=len, drop loop terminates, message only if CheckSum and BodyLength are consistent) and, followed by valid traffic, through the real socket_read_task (later frames delivered, buffer bounded).",
    "Independent consistency check from mc/refs; two BodyLength signatures are recorded known findings (pinned by an existing test).", "4/C10")
chk("C11", "exhaustive product enumeration of role x reached connection state x frame class x integrity defect x send class with depth-2 continuation",
    "12 (role, state) roots reached by real histories times every inbound frame class times every integrity defect, every send class, EOF and time; then every ordered pair of stimuli. Clause-by-clause oracle: nothing delivered or acted upon before the Logon exchange, refused sends consume nothing, integrity defects never delivered/never advance the counter/leave disconnected with a Logout reason, silence and exactly one disconnect report afterwards.",
    "Logon-in-hooks intermediate state not stimulated.", "4/C11")
chk("C12", "exhaustive enumeration of peer timing scripts in virtual time against the real timer and reader tasks",
    "HeartBtInt in {1..6,30} x tick phase on a quarter-second grid x peer scripts (silent, answering with delay, wrong/missing TestReqID, periodic traffic around the interval, bursts, inbound TestRequests) x both orders of coinciding arrival/tick, plus ALL arrival schedules on a half-second grid over 4 intervals for HeartBtInt 1 and 2; dead peers detected within the stated bounds, responsive and fast peers never disconnected, single outstanding TestRequest, TestRequest echo, wrong id => Logout.",
    "'about' = 2 s slack on the TestRequest threshold, 3 s on the disconnect threshold.", "4/C12")
chk("C13", "explicit-state BFS over journal operation sequences with the reference model state as key, full observation after every transition, every transition repeated with all observers called before it (observers-are-pure differential)",
    "All operation sequences to depth 4 (5-6) over three sessions (incl. mirrored CompIDs), both directions, sparse/descending/huge numbers, two payloads, set_seq_num grids; after every transition every range query on a bound grid (inverted, string-typed), single lookups, get_all_msgs filters and both loading paths are compared with a dict-based model.",
    "In-memory journal; fresh session handles (tests pin the stale-handle semantics).", "4/C13")
chk("C14", "stateless deviation-bounded schedule exploration (CHESS style) of 2-3 tasks on the real event loop objects",
    "All schedules with <=3 (4) deviations - start of a task, pause/resume of transport writing (drain parks, FIFO wake-up), release of a parked hook, suspension inside should_replay / on_state_change / on_message / on_logon, at any point between two loop callbacks - over 8 harnesses (send||send, send||resend service, send||TestRequest in/out, send||Logon, send||gap, three senders); each execution runs to completion and is judged on wire order, number reuse, journal rows, exceptions and final stored counter.",
    "asyncio's ready queue and FIFO drain wake-up are CPython's, reused not modelled.", "4/C14")
chk("C15", "exhaustive enumeration of valid instances and single-fault mutants for every message type of both dictionaries, plus component-order permutations",
    "For each of the 93+40 message types an independent XML walker builds minimal/maximal/optional-member/enumerator/typed-value instances and every single fault at every position and nesting depth; validate() must accept the former and reject the latter with FIXMessageError only; verdicts must be identical under permuted <components> declaration orders (all permutations for small dictionaries).",
    "Canonical member values per datatype; lexical corner cases belong to C19.", "4/C15")
chk("C16", "exhaustive enumeration of the full finite domain against an independently transcribed three-valued reference table, plus two whole-table double sweeps in one process (history-dependence differential)",
    "15 statuses x message kinds (incl. unsupported) x 17 ExecTypes + omitted marker x 15 reported statuses x error modes x enum/plain spellings, plus can_cancel/can_replace/is_finished on every status, against reference cells T (must transit) / S (must stay) / X (unconstrained) derived from the property clauses and the FIX 4.4 matrices.",
    "Cancel-reject kind read as in DESIGN.md (lifecycle clauses apply to execution reports).", "4/C16")
chk("C17", "explicit-state BFS over interleavings of the real order object and an independent exchange model with two FIFO channels",
    "All interleavings (depth 12-26, <=2-4 requests) of client new/cancel/replace actions and exchange actions (pending-new, ack, reject, fills racing with requests, pending acks, cancelled, replaced, cancel-reject, unsolicited cancel, expire, suspend/resume) for 6 ClOrdID roots x 2 quantity configurations; at every state request builders are probed, at quiescent states the order must equal the exchange's view.",
    "The exchange model follows the FIX 4.4 order state change matrices (written down in DESIGN.md); replace accepted while suspended is left out (unconstrained).", "4/C17")
chk("C18", "explicit-state BFS over container operation sequences with the reference model as key, every observer applied in every state",
    "All sequences to depth 4 (5) of set/replace/delete/add_group/set_group over tag spellings, value types and nested containers; every observer (get, contains, is_group, group accessors, query, items, pickle, equality with containers and dicts with/without framing tags) is compared with an insertion-ordered dict model in every state.",
    "Only the laws the property states are demanded.", "4/C18")
chk("C19", "exhaustive enumeration of short strings, single-edit neighbours of layout exemplars and enumerator near-misses against three-valued lexical-space predicates",
    "For every datatype of both dictionaries all strings up to length 4 (5) over a type-specific alphabet, every single edit of fixed-layout exemplars, calendar boundary products, every enumerator and its near-misses, and a probe sweep over all fields go through the real validate_value; members must be accepted, non-members rejected with FIXMessageError, unspecified cells unconstrained.",
    "Reference predicates written with explicit ASCII classes, no int()/float()/strptime.", "4/C19")
chk("C20", "explicit-state BFS over helper/order states with the full argument grid in every state + exhaustive differential replay of clean session scripts against a real acceptor",
    "Every order state reachable by fabricate-and-process chains times the full argument grid of fix_exec_report_msg / fix_cxlrep_reject_msg and all session factories: whatever the helper returns must validate against FIX44.xml (library schema and an independent reader), keep quantity and id laws and be processed by the order object; every clean session script up to length 5 (6) is run against FIXTester(connection) and against a real AsyncFIXDummyServer and compared step by step.",
    "Helper refusals (its own assertions) are out of scope, as the property says.", "4/C20")

ALL = [f"C{i:02d}" for i in range(1, 21)]
m = {
 "version": 1,
 "setup_cmd": "/venv/bin/python -m compileall -q mc props >/dev/null && /venv/bin/python -m mc.selfcheck",
 "hooks": {"guard": "ASYNCFIX_VERIF", "enable": "none needed: every seam (time.time, asyncio.open_connection/start_server, sqlite3.connect, application hooks) is patched from outside the package",
           "baseline_off_cmd": "cd /repo && /venv/bin/python -m pytest -ra -q -p no:cacheprovider --timeout=900 --continue-on-collection-errors",
           "source_commits": [], "add_only": True},
 "engines": [
  {"name": "vloop-world", "path": "mc/", "serves_properties": sorted(CHECKS), "kind_free_text": "hand-rolled explicit-state / stateless explorer over the real asyncfix objects: virtual asyncio loop, fake transport, sqlite step proxy, reference oracles"}],
 "checks": [], "not_applicable": [],
 "notes": "See DESIGN.md (section 9: as built, dispositions, seeded changes). ./check <ID> [--tier quick|thorough] [--replay FILE]; exit 0 held, 1 violation, 2 harness error. known_findings.json: open entries (printed as KNOWN-FINDING, each suppresses exactly its signature) and fixed entries with the /repo commit (suppress nothing). ./selftest runs the checks against the seeded property-breaking changes under seeded/ (scratch copies only)."}
for pid in ALL:
    if pid in CHECKS:
        c = CHECKS[pid]
        m["checks"].append({
            "property_id": pid, "quick_cmd": f"./check {pid} --tier quick", "thorough_cmd": f"./check {pid} --tier thorough",
            "evidence_file": f"evidence/{pid}.json", "replay_cmd_template": f"./check {pid} --replay {{path}}",
            "engine": "vloop-world", "technique": c["technique"],
            "level_claimed": {"category": "model_checking", "text": c["text"], "design_ref": c["ref"]},
            "level_note": c["note"]})
    else:
        m["not_applicable"].append({"property_id": pid, "reason": "no check built"})
json.dump(m, open(os.path.join(HERE, "MANIFEST.json"), "w"), indent=1)
print("checks:", len(m["checks"]), "not_applicable:", len(m["not_applicable"]))
