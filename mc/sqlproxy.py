"""SQL step hook for a Journaler: every statement SQLite starts to execute is one numbered step.

Installed by replacing the name ``sqlite3`` inside ``asyncfix.journaler`` with a
stand-in whose ``connect`` returns a REAL sqlite3 connection that carries a
trace callback (no source hook, no proxy objects: attribute assignments such as
``isolation_level`` reach the real connection).  The callback fires when a
statement starts - including the implicit ``BEGIN`` / ``COMMIT`` Python's sqlite3
issues and every statement inside an ``executescript`` - so a step hook that stops
the process (crash point) or copies the database files (snapshot) sees exactly
what a process dying between two statements leaves behind.
"""
import sqlite3 as _real


class Steps:
    def __init__(self):
        self.n = 0  # steps completed so far
        self.log = []  # (kind, sql-prefix)
        self.before = None  # callable(step_index_about_to_run, kind, sql)

    def hit(self, kind, sql=""):
        if self.before is not None:
            self.before(self.n, kind, sql)
        self.n += 1
        self.log.append((kind, sql[:40]))


class ProxyModule:
    """Stands in for the sqlite3 module inside asyncfix.journaler."""

    def __init__(self, steps):
        self.steps = steps

    def connect(self, *a, **kw):
        conn = _real.connect(*a, **kw)
        steps = self.steps
        conn.set_trace_callback(lambda sql: steps.hit("sql", sql))
        return conn

    def __getattr__(self, k):
        return getattr(_real, k)


def install(steps):
    import asyncfix.journaler as jm

    from mc.runner import HarnessError

    if not hasattr(jm, "sqlite3"):
        raise HarnessError("adapter: asyncfix.journaler no longer binds the name sqlite3")
    jm.sqlite3 = ProxyModule(steps)


def uninstall():
    import asyncfix.journaler as jm

    jm.sqlite3 = _real
