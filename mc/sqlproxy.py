"""sqlite3 proxy that numbers every SQL step (execute / commit) of a Journaler.

Installed by replacing the name ``sqlite3`` inside ``asyncfix.journaler`` (no
source hook needed).  A step hook may stop the process (crash point) or take a
snapshot of the database files.
"""
import sqlite3 as _real


class Steps:
    def __init__(self):
        self.n = 0  # steps completed so far
        self.log = []  # (kind, sql-prefix)
        self.before = None  # callable(step_index_about_to_run, kind, sql)

    def hit(self, kind, sql=""):
        if self.before is not None:
            self.before(self.n, kind, sql)
        self.n += 1
        self.log.append((kind, sql[:40]))


class ProxyCursor:
    def __init__(self, cur, steps):
        self._c = cur
        self._s = steps

    def execute(self, sql, *a):
        self._s.hit("execute", sql)
        return self._c.execute(sql, *a)

    def __iter__(self):
        return iter(self._c)

    def __next__(self):
        return next(self._c)

    def __getattr__(self, k):
        return getattr(self._c, k)


class ProxyConn:
    def __init__(self, conn, steps):
        object.__setattr__(self, "_conn", conn)
        object.__setattr__(self, "_s", steps)

    def __setattr__(self, k, v):
        # isolation_level, row_factory, ... belong to the real connection
        setattr(self._conn, k, v)

    def execute(self, sql, *a):
        self._s.hit("execute", sql)
        return self._conn.execute(sql, *a)

    def executescript(self, sql):
        self._s.hit("execute", sql)
        return self._conn.executescript(sql)

    def rollback(self):
        self._s.hit("rollback")
        return self._conn.rollback()

    def cursor(self):
        return ProxyCursor(self._conn.cursor(), self._s)

    def commit(self):
        self._s.hit("commit")
        return self._conn.commit()

    def close(self):
        return self._conn.close()

    def __getattr__(self, k):
        return getattr(self._conn, k)


class ProxyModule:
    """Stands in for the sqlite3 module inside asyncfix.journaler."""

    def __init__(self, steps):
        self.steps = steps

    def connect(self, *a, **kw):
        return ProxyConn(_real.connect(*a, **kw), self.steps)

    def __getattr__(self, k):
        return getattr(_real, k)


def install(steps):
    import asyncfix.journaler as jm

    from mc.runner import HarnessError

    if not hasattr(jm, "sqlite3"):
        raise HarnessError("adapter: asyncfix.journaler no longer binds the name sqlite3")
    jm.sqlite3 = ProxyModule(steps)


def uninstall():
    import asyncfix.journaler as jm

    jm.sqlite3 = _real
