"""Explorer B: stateless, deviation-bounded schedule exploration (CHESS style).

An execution is a sequence of choices.  At every choice point option 0 is the
default ("run the next ready callback" / "do not suspend at this hook"); every
other option is a deviation (inject an environment event now / suspend here).
All executions with at most `bound` deviations are enumerated; each runs to
completion on fresh real objects.
"""
from mc.runner import HarnessError


class Diverged(Exception):
    pass


class Sched:
    def __init__(self, prefix):
        self.prefix = list(prefix)
        self.choices = []
        self.nopts = []
        self.labels = []

    def choose(self, options):
        i = len(self.choices)
        c = self.prefix[i] if i < len(self.prefix) else 0
        if c >= len(options):
            raise Diverged(f"choice {c} at point {i} but only {len(options)} options: {options}")
        self.choices.append(c)
        self.nopts.append(len(options))
        self.labels.append(options[c])
        return c

    def deviations(self, upto=None):
        cs = self.choices if upto is None else self.choices[:upto]
        return sum(1 for c in cs if c)


def explore(run_one, check, bound, prefix=(), stats=None, max_exec=None):
    """run_one(Sched) -> observation ; check(observation, Sched) -> None.
    Enumerates every execution extending `prefix` with at most `bound` deviations in total."""
    if stats is None:
        stats = {"executions": 0, "points": 0, "capped": False}
    stack = [list(prefix)]
    while stack:
        p = stack.pop()
        if max_exec and stats["executions"] >= max_exec:
            stats["capped"] = True
            break
        s = Sched(p)
        obs = run_one(s)
        if s.choices[: len(p)] != p:
            raise HarnessError("schedule replay diverged from its prefix")
        stats["executions"] += 1
        stats["points"] += len(s.choices)
        check(obs, s)
        devs = s.deviations(len(p))
        if devs >= bound:
            continue
        for i in range(len(s.choices) - 1, len(p) - 1, -1):
            for alt in range(1, s.nopts[i]):
                stack.append(s.choices[:i] + [alt])
    return stats
