"""R1: independent, byte-based FIX 4.4 framer / parser / encoder.

Written from the framing rules only, shares no code with asyncfix.codec:
  8=<BeginString> SOH 9=<BodyLength> SOH 35=<MsgType> SOH ... 10=<ddd> SOH
  BodyLength = number of bytes after the SOH of the BodyLength field up to and
               including the SOH that precedes "10="
  CheckSum   = sum of every byte before "10=" modulo 256, three digits.
"""
SOH = b"\x01"


def checksum(data: bytes) -> int:
    return sum(data) % 256


def build(fields, begin=b"FIX.4.4", body_length=None, cksum=None):
    """fields: list of (tag, value) bytes/str pairs AFTER BodyLength (35 first).
    Returns the frame as bytes."""
    body = b""
    for t, v in fields:
        if not isinstance(t, bytes):
            t = str(t).encode("latin-1")
        if not isinstance(v, bytes):
            v = str(v).encode("latin-1")
        body += t + b"=" + v + SOH
    bl = len(body) if body_length is None else body_length
    if not isinstance(bl, bytes):
        bl = str(bl).encode()
    head = b"8=" + begin + SOH + b"9=" + bl + SOH
    pre = head + body
    ck = checksum(pre) if cksum is None else cksum
    if not isinstance(ck, bytes):
        ck = b"%03d" % ck
    return pre + b"10=" + ck + SOH


def frame(msg_type, seq, sender, target, body=(), extra_header=(), sending_time="20240101-00:00:00.000", **kw):
    """Frame as a scripted peer would send it. sender/target None => omitted."""
    f = [(35, msg_type)]
    if sender is not None:
        f.append((49, sender))
    if target is not None:
        f.append((56, target))
    if seq is not None:
        f.append((34, seq))
    if sending_time is not None:
        f.append((52, sending_time))
    f.extend(extra_header)
    f.extend(body)
    return build(f, **kw)


class FrameError(Exception):
    pass


# standard header / trailer fields: never inside a repeating group, so at most once per frame
HEADER_ONCE = frozenset(("8", "9", "35", "49", "56", "34", "52", "43", "97", "122", "10"))


def parse(data: bytes):
    """Strict parse of exactly one frame. Returns list of (tag:str, value:bytes).
    Raises FrameError with a reason code as first arg."""
    if not data.startswith(b"8="):
        raise FrameError("no_beginstring_first")
    if not data.endswith(SOH):
        raise FrameError("no_trailing_soh")
    parts = data[:-1].split(SOH)
    if len(parts) < 4:
        raise FrameError("too_few_fields")
    fields = []
    for p in parts:
        if b"=" not in p:
            raise FrameError("field_without_equals")
        t, v = p.split(b"=", 1)
        if not t.isdigit():
            raise FrameError("non_numeric_tag")
        if v == b"":
            raise FrameError("empty_value")
        fields.append((t.decode(), v))
    if fields[0][0] != "8":
        raise FrameError("no_beginstring_first")
    if fields[1][0] != "9":
        raise FrameError("bodylength_not_second")
    if fields[2][0] != "35":
        raise FrameError("msgtype_not_third")
    if fields[-1][0] != "10":
        raise FrameError("checksum_not_last")
    ck = fields[-1][1]
    if len(ck) != 3 or not ck.isdigit():
        raise FrameError("checksum_not_three_digits")
    if not fields[1][1].isdigit():
        raise FrameError("bodylength_not_numeric")
    head_len = len(parts[0]) + 1 + len(parts[1]) + 1
    trailer_len = len(parts[-1]) + 1
    body_len = len(data) - head_len - trailer_len
    if int(fields[1][1]) != body_len:
        raise FrameError("bodylength_mismatch")
    if int(ck) != checksum(data[: len(data) - trailer_len]):
        raise FrameError("checksum_mismatch")
    for t, _ in fields[1:-1]:
        if t == "10":
            raise FrameError("checksum_tag_inside_body")
    once = set()
    for t, _ in fields:
        if t in HEADER_ONCE:
            if t in once:
                raise FrameError("duplicate_header_tag")
            once.add(t)
    return fields


def try_parse(data: bytes):
    try:
        return parse(data), None
    except FrameError as e:
        return None, e.args[0]


def fdict(fields):
    """First occurrence per tag -> str value (latin-1)."""
    d = {}
    for t, v in fields:
        d.setdefault(t, v.decode("latin-1"))
    return d


def split_stream(data: bytes):
    """Split a byte stream of back-to-back valid frames using BodyLength only.
    Returns list of frames; raises FrameError if the stream is not a clean
    concatenation."""
    out = []
    i = 0
    n = len(data)
    while i < n:
        if not data.startswith(b"8=", i):
            raise FrameError("stream_garbage")
        j = data.find(SOH, i)
        k = data.find(SOH, j + 1)
        if j < 0 or k < 0 or not data.startswith(b"9=", j + 1):
            raise FrameError("stream_header")
        bl = data[j + 3 : k]
        if not bl.isdigit():
            raise FrameError("stream_bodylength")
        end = k + 1 + int(bl) + 7
        if end > n:
            raise FrameError("stream_truncated")
        fr = data[i:end]
        parse(fr)
        out.append(fr)
        i = end
    return out


IGNORED_FOR_BODY = {"8", "9", "10", "34", "52", "49", "56", "43", "122"}


def body_fields(fields):
    """Fields that constitute the 'body' for retransmission comparison."""
    return [(t, v) for t, v in fields if t not in IGNORED_FOR_BODY]
