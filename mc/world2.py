"""Two real endpoints (AsyncFIXClient 'A' and AsyncFIXDummyServer 'B') over a fake link.

The link keeps frames in flight per direction; the explorer decides when the
next frame is delivered, when the link breaks (and how each end sees it) and
when the ends reconnect.  Journals (and optionally the endpoint objects) persist
across connections.
"""
import collections
import os

from mc import refs
from mc.runner import HarnessError
from mc.vloop import CLOCK, VLoop, LiveLock, task_result
from mc.world import (FakeReader, FakeWriter, install_net, classes, session_of, reader_of, num_in, num_out,
                      stored_counters, journal_rows, conn_key, TmpDir)

RUN_LIMIT = 3000
EOF_MARK = b"<EOF>"


class Side:
    def __init__(self, name):
        self.name = name
        self.c = None
        self.j = None
        self.reader = None
        self.writer = None
        self.jpath = None
        self.incarnation = 0


class World2:
    def __init__(self, A="CLI", B="SRV", hb=100000, files=False):
        from asyncfix import Journaler
        from asyncfix.protocol import FIXProtocol44

        Client, Server, Bare = classes()
        CLOCK.now = CLOCK.BASE
        self.loop = VLoop()
        self.loop.enter()
        self.net = install_net()
        self.hb = hb
        self.names = {"A": A, "B": B}
        self.tmp = TmpDir() if files else None
        self.a, self.b = Side("A"), Side("B")
        self.flight = {"AB": collections.deque(), "BA": collections.deque()}
        self.wire = {"AB": [], "BA": []}  # every frame ever written, in order
        self.livelock = False
        self.server_task = None
        self.up = False  # a transport connection currently exists (not broken)
        for s in (self.a, self.b):
            self._make_endpoint(s)

    # ------------------------------------------------------------------
    def side(self, x):
        return self.a if x == "A" else self.b

    def other(self, x):
        return self.b if x == "A" else self.a

    def _make_endpoint(self, s):
        from asyncfix import Journaler
        from asyncfix.protocol import FIXProtocol44

        Client, Server, Bare = classes()
        if self.tmp is not None:
            if s.jpath is None:
                s.jpath = os.path.join(self.tmp.path, f"{s.name}.db")
            s.j = Journaler(s.jpath)
        elif s.j is None:
            s.j = Journaler()
        A, B = self.names["A"], self.names["B"]
        if s.name == "A":
            s.c = Client(FIXProtocol44(), A, B, s.j, "h", 1, heartbeat_period=self.hb)
        else:
            s.c = Server(FIXProtocol44(), B, A, s.j, "h", 1, heartbeat_period=self.hb)
        s.incarnation += 1
        s.reader = s.writer = None

    def _spin(self):
        for s in (self.a, self.b):
            if s.reader is not None and s.reader.livelocked:
                self.livelock = True

    def run(self):
        try:
            self.loop.run_ready(RUN_LIMIT)
        except LiveLock:
            self.livelock = True
        self._spin()

    def advance(self, dt):
        try:
            self.loop.advance(dt, RUN_LIMIT)
        except LiveLock:
            self.livelock = True
        self._spin()

    # ------------------------------------------------------------------
    def connected(self, x):
        return self.side(x).c.connection_state.value > 3

    def can_connect(self):
        both_down = all(s.c.connection_state.value <= 3 and reader_of(s.c) is None for s in (self.a, self.b))
        if self.up and both_down:
            return True  # both ends closed the connection themselves (Logout)
        return (not self.up) and all(s.c.connection_state.value <= 3 and reader_of(s.c) is None
                                     for s in (self.a, self.b))

    def connect(self):
        """New transport connection; the client's on_connect sends Logon."""
        a, b = self.a, self.b
        a.reader, a.writer = FakeReader(), FakeWriter("A")
        b.reader, b.writer = FakeReader(), FakeWriter("B")
        a.writer.own_reader, b.writer.own_reader = a.reader, b.reader
        # an end that closes its transport is seen as EOF by the other end, after the frames already in flight
        a.writer.on_lost = lambda q=self.flight["AB"]: (self.up and q.append(EOF_MARK))
        b.writer.on_lost = lambda q=self.flight["BA"]: (self.up and q.append(EOF_MARK))
        self.flight["AB"].clear()
        self.flight["BA"].clear()
        wa, wb = a.writer, b.writer
        wa.sink = lambda d, q=self.flight["AB"], wr=self.wire["AB"]: (q.append(d), wr.append(d))
        wb.sink = lambda d, q=self.flight["BA"], wr=self.wire["BA"]: (q.append(d), wr.append(d))
        # server accepts first (as a listening server would), then the client connects
        if self.server_task is None or b.incarnation != getattr(self, "_srv_inc", None):
            self.server_task = self.loop.create_task(b.c.connect())
            self._srv_inc = b.incarnation
            self.run()
        srv = self.net.servers.get(1)
        if srv is None:
            raise HarnessError("server did not call start_server")
        self.net.pending_client = (a.reader, a.writer)
        self.loop.create_task(a.c.connect())
        self.run()
        self.loop.create_task(srv.cb(b.reader, b.writer))
        self.run()
        self.up = True
        self.advance(1.0)  # read loops poll with sleep(1) while they have no socket

    def deliver(self, direction):
        q = self.flight[direction]
        if not q:
            return None
        fr = q.popleft()
        dst = self.b if direction == "AB" else self.a
        if fr is EOF_MARK:
            if dst.reader is not None and not dst.reader.eof:
                dst.reader.feed_eof()
                self.run()
            return b""
        if dst.reader is not None:
            dst.reader.feed(fr)
            self.run()
        return fr

    def brk(self, kind="eof"):
        """Break the link: everything in flight is lost; each end sees `kind`."""
        self.flight["AB"].clear()
        self.flight["BA"].clear()
        self.up = False
        for s in (self.a, self.b):
            if s.writer is not None:
                s.writer.sink = None
            r = s.reader
            if r is None:
                continue
            lost = None
            if kind == "eof":
                r.feed_eof()
            elif kind == "reset":
                lost = ConnectionResetError("reset by peer")
            elif kind == "oserr":
                lost = OSError(113, "No route to host")
            elif kind == "timeout":
                lost = TimeoutError("timed out")
            if lost is not None:
                r.set_exception(lost)
            if s.writer is not None:
                # connection_lost(exc): reads, drain() and wait_closed() of this connection all report the error
                s.writer.fail(ConnectionResetError, lost=lost)
        self.run()

    def send(self, x, msg):
        t = self.loop.create_task(self.side(x).c.send_msg(msg))
        self.run()
        return task_result(t)

    def close(self):
        self.loop.shutdown()
        if self.tmp is not None:
            self.tmp.cleanup()


def norm_frame(raw):
    if raw is EOF_MARK:
        return ("EOF",)
    f, err = refs.try_parse(raw)
    if f is None:
        return ("?", raw[:20])
    d = refs.fdict(f)
    return tuple((t, v) for t, v in sorted(d.items(), key=lambda kv: int(kv[0])) if t not in ("9", "10", "52", "122"))
