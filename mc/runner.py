"""Check runner: CLI, context, known findings, evidence, parallel map.

Usage (cwd=/verif):  ./check <ID> [--tier quick|thorough] [--replay FILE]
Exit codes: 0 held (maybe with KNOWN-FINDING lines), 1 violation, 2 harness error.
"""
import argparse
import hashlib
import importlib
import json
import multiprocessing
import os
import sys
import time as _time
import traceback

VERIF = os.path.dirname(os.path.dirname(os.path.abspath(__file__)))
# where evidence/ and replays/ are written (selftest redirects it so that runs against seeded
# changes never overwrite the evidence of the real tree)
OUT = os.environ.get("VERIF_OUT") or VERIF
PERF = _time.perf_counter

LEVEL = "model_checking"


class HarnessError(Exception):
    """The harness itself cannot do its job (exit 2, never a VIOLATION)."""


def setup_repo_path():
    repo = os.environ.get("VERIF_REPO", "/repo")
    if not os.path.isdir(os.path.join(repo, "asyncfix")):
        raise HarnessError(f"no asyncfix package under {repo}")
    if sys.path[0] != repo:
        sys.path.insert(0, repo)
    return repo


def import_asyncfix():
    """Install the virtual clock, silence logging, import asyncfix from VERIF_REPO."""
    import logging
    import warnings

    from mc import vloop

    repo = setup_repo_path()
    vloop.install_clock()
    logging.disable(logging.CRITICAL)
    warnings.simplefilter("ignore")
    import asyncfix  # noqa

    # freeze SendingTime / TransactTime to the virtual clock (best effort: only
    # where the module still binds the name ``datetime`` to the class)
    import datetime as _dt

    class VDateTime(_dt.datetime):
        @classmethod
        def utcnow(cls):
            return _dt.datetime(1970, 1, 1) + _dt.timedelta(seconds=vloop.CLOCK.now)

        @classmethod
        def now(cls, tz=None):
            return cls.utcnow()

    for modname in ("asyncfix.codec", "asyncfix.protocol.order_single"):
        mod = sys.modules.get(modname)
        if mod is not None and getattr(mod, "datetime", None) is _dt.datetime:
            mod.datetime = VDateTime

    got = os.path.dirname(os.path.dirname(os.path.abspath(asyncfix.__file__)))
    if os.path.realpath(got) != os.path.realpath(repo):
        raise HarnessError(f"asyncfix imported from {got}, expected {repo}")
    return asyncfix


def jdefault(o):
    if isinstance(o, bytes):
        return {"__bytes__": o.decode("latin-1")}
    if isinstance(o, (set, frozenset)):
        return sorted(o, key=repr)
    if isinstance(o, tuple):
        return list(o)
    return repr(o)


def jdump(o):
    return json.dumps(o, default=jdefault, sort_keys=True)


def unbytes(o):
    """Inverse of jdefault for bytes markers (recursive)."""
    if isinstance(o, dict):
        if set(o.keys()) == {"__bytes__"}:
            return o["__bytes__"].encode("latin-1")
        return {k: unbytes(v) for k, v in o.items()}
    if isinstance(o, list):
        return [unbytes(v) for v in o]
    return o


def digest(o):
    return hashlib.sha1(jdump(o).encode()).hexdigest()[:12]


class Ctx:
    """What a property module sees."""

    def __init__(self, pid, tier, seed, repo):
        self.pid = pid
        self.tier = tier
        self.seed = seed
        self.repo = repo
        self.quick = tier == "quick"
        self.violations = {}  # signature -> dict (first = minimal, count)
        self.counters = {}
        self.samples = []
        self.outcomes = set()
        self.nontrivial = set()
        self.bounds = {}
        self.caps_hit = []
        self.assumptions = []
        self.rule = ""
        self.exhaustive = True
        self.notes = []
        self.t0 = PERF()
        self.workers = int(os.environ.get("VERIF_WORKERS", "0")) or min(
            16, os.cpu_count() or 1
        )

    # ---- reporting ---------------------------------------------------------
    def violation(self, signature, clause, detail, replay):
        v = self.violations.get(signature)
        if v is None:
            self.violations[signature] = {
                "signature": signature,
                "clause": clause,
                "detail": detail,
                "replay": replay,
                "count": 1,
            }
        else:
            v["count"] += 1

    def merge_violations(self, vs):
        """vs: list of dicts {signature, clause, detail, replay, count?} from workers."""
        for x in vs:
            v = self.violations.get(x["signature"])
            if v is None:
                x = dict(x)
                x.setdefault("count", 1)
                self.violations[x["signature"]] = x
            else:
                v["count"] += x.get("count", 1)

    def count(self, **kw):
        for k, n in kw.items():
            self.counters[k] = self.counters.get(k, 0) + n

    def sample(self, obj, cap=6):
        if len(self.samples) < cap:
            self.samples.append(obj)

    def cap(self, what):
        self.caps_hit.append(what)
        self.exhaustive = False

    def elapsed(self):
        return PERF() - self.t0

    # ---- parallel map --------------------------------------------------------
    def pmap(self, fn, items, chunk=None):
        """Ordered parallel map over a fork pool (fn must be a module-level
        function; state set up before the call is inherited by the workers)."""
        items = list(items)
        if self.workers <= 1 or len(items) < 2:
            return [fn(x) for x in items]
        if chunk is None:
            chunk = max(1, min(256, len(items) // (self.workers * 8) or 1))
        import gc

        if getattr(self, "_pool", None) is not None:
            gc.collect()
            return self._pool.map(fn, items, chunksize=chunk)
        # sqlite objects must be finalised in the thread that created them: collect now and keep the
        # cyclic collector off while the pool's helper threads exist in this process
        gc.collect()
        gc.disable()
        try:
            mp = multiprocessing.get_context("fork")
            with mp.Pool(self.workers, initializer=gc.enable) as pool:
                return pool.map(fn, items, chunksize=chunk)
        finally:
            gc.enable()


def _pool_begin(self):
    """Keep one fork pool for several pmap calls (module globals must not change in between)."""
    import gc

    if self.workers > 1 and getattr(self, "_pool", None) is None:
        gc.collect()
        gc.disable()
        self._pool = multiprocessing.get_context("fork").Pool(self.workers, initializer=gc.enable)


def _pool_end(self):
    p = getattr(self, "_pool", None)
    if p is not None:
        p.terminate()
        p.join()
        self._pool = None
        import gc

        gc.enable()


Ctx.pool_begin = _pool_begin
Ctx.pool_end = _pool_end


def load_findings():
    p = os.path.join(VERIF, "known_findings.json")
    if not os.path.exists(p):
        return {"open": [], "fixed": []}
    with open(p) as f:
        return json.load(f)


def write_evidence(ctx, n_known, n_new):
    c = dict(ctx.counters)
    states = int(c.pop("states", 0))
    transitions = int(c.pop("transitions", 0))
    traces = int(c.pop("traces", c.get("evaluations", 0)))
    evaluations = int(c.pop("evaluations", transitions))
    cov = {
        "states": states,
        "transitions": transitions,
        "traces_validated_against_impl": traces,
        "evaluations": evaluations,
        "distinct_nontrivial": len(ctx.nontrivial) or int(c.pop("nontrivial", 0)),
        "rule": ctx.rule,
        "samples": ctx.samples or ["<none recorded>"],
        "exhaustive": bool(ctx.exhaustive),
        "bounds": ctx.bounds,
        "caps_hit": ctx.caps_hit,
        "distinct_outcomes": len(ctx.outcomes),
        "known_findings_seen": n_known,
        "new_violations": n_new,
        "explanation": "; ".join(ctx.notes),
    }
    for k, v in c.items():
        cov.setdefault(k, v)
    ev = {
        "property_id": ctx.pid,
        "tier": ctx.tier,
        "seed": ctx.seed,
        "level": LEVEL,
        "coverage": cov,
        "assumptions": ctx.assumptions,
        "wall_s": round(ctx.elapsed(), 3),
        "violations": n_new,
    }
    if states < 1 or transitions < 1:
        raise HarnessError(f"vacuous run: states={states} transitions={transitions}")
    os.makedirs(os.path.join(OUT, "evidence"), exist_ok=True)
    p = os.path.join(OUT, "evidence", f"{ctx.pid}.json")
    tmp = p + ".tmp"
    with open(tmp, "w") as f:
        json.dump(ev, f, indent=1, default=jdefault, sort_keys=True)
    os.replace(tmp, p)
    return p


def finish(ctx):
    """Classify violations against the findings file, write evidence, exit code."""
    findings = load_findings()
    open_sigs = {
        e["signature"]: e for e in findings.get("open", []) if e["property"] == ctx.pid
    }
    known, new = [], []
    for sig, v in sorted(ctx.violations.items()):
        (known if sig in open_sigs else new).append(v)
    for v in known:
        e = open_sigs[v["signature"]]
        print(
            f"KNOWN-FINDING: property={ctx.pid} {v['signature']} {e.get('what', e.get('description', ''))}"
            f" (seen {v['count']}x)"
        )
    os.makedirs(os.path.join(OUT, "replays"), exist_ok=True)
    for v in new:
        body = {
            "property": ctx.pid,
            "signature": v["signature"],
            "clause": v["clause"],
            "detail": v["detail"],
            "replay": v["replay"],
            "count": v["count"],
        }
        path = os.path.join(
            OUT, "replays", f"{ctx.pid}-{digest([v['signature'], v['replay']])}.json"
        )
        with open(path, "w") as f:
            json.dump(body, f, indent=1, default=jdefault, sort_keys=True)
        print(f"  signature: {v['signature']}\n  clause: {v['clause']}\n  detail: {jdump(v['detail'])[:600]}")
        print(f"VIOLATION property={ctx.pid} replay={path}")
    write_evidence(ctx, len(known), len(new))
    s = ctx.counters
    print(
        f"[{ctx.pid}] tier={ctx.tier} seed={ctx.seed} states={s.get('states', 0)}"
        f" transitions={s.get('transitions', 0)} evaluations={s.get('evaluations', s.get('transitions', 0))}"
        f" outcomes={len(ctx.outcomes)} exhaustive={ctx.exhaustive} known={len(known)}"
        f" new={len(new)} wall={ctx.elapsed():.1f}s"
    )
    return 1 if new else 0


def main(argv=None):
    ap = argparse.ArgumentParser()
    ap.add_argument("pid")
    ap.add_argument("--tier", default=os.environ.get("VERIF_TIER") or "quick")
    ap.add_argument("--replay")
    a = ap.parse_args(argv)
    if a.tier not in ("quick", "thorough"):
        a.tier = "quick"
    try:
        seed = int(os.environ.get("VERIF_SEED", "0") or 0)
    except ValueError:
        seed = 0
    os.chdir(VERIF)
    if VERIF not in sys.path:
        sys.path.insert(1, VERIF)
    try:
        repo = setup_repo_path()
        import_asyncfix()
        mod = importlib.import_module(f"props.{a.pid.lower()}")
        ctx = Ctx(a.pid.upper(), a.tier, seed, repo)
        if a.replay:
            with open(a.replay) as f:
                rep = unbytes(json.load(f))
            res = mod.replay(ctx, rep["replay"] if "replay" in rep else rep)
            # res: list of violation dicts reproduced
            if res:
                for v in res:
                    print(f"REPRODUCED property={ctx.pid} signature={v['signature']}\n  clause: {v['clause']}\n  detail: {jdump(v['detail'])[:2000]}")
                return 1
            print(f"NOT-REPRODUCED property={ctx.pid}")
            return 0
        mod.run(ctx)
        return finish(ctx)
    except HarnessError as e:
        print(f"HARNESS-ERROR {a.pid}: {e}", file=sys.stderr)
        return 2
    except Exception:
        traceback.print_exc()
        print(f"HARNESS-ERROR {a.pid}: unexpected exception in the harness", file=sys.stderr)
        return 2


if __name__ == "__main__":
    sys.exit(main())
