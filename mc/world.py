"""Virtual world: fake transport, instrumented endpoints, journals.

All private attributes of asyncfix objects that the harness touches are
accessed through the functions in the ADAPTER section; a missing attribute is a
HarnessError (exit 2), never a VIOLATION.
"""
import asyncio
import collections
import os
import shutil
import tempfile

from mc import refs
from mc.runner import HarnessError
from mc.vloop import CLOCK, VLoop, LiveLock, task_result  # noqa

# --------------------------------------------------------------------------
# transport
# --------------------------------------------------------------------------


class HardLiveLock(BaseException):
    """Raised inside a task that keeps calling read() on a dead stream without ever yielding to the loop
    (BaseException: the library's broad `except Exception` handlers must not swallow it)."""


class FakeReader:
    """StreamReader look-alike: chunks as fed, b'' at EOF, sticky exception."""

    SPIN_LIMIT = 300

    def __init__(self):
        self.spin = 0  # consecutive read() calls that returned / raised at once on a dead stream
        self.livelocked = False
        self.chunks = collections.deque()
        self.eof = False
        self.exc = None
        self.waiter = None
        self.reads = 0

    def _wake(self):
        w = self.waiter
        if w is not None and not w.done():
            w.set_result(None)
        self.waiter = None

    def feed(self, data: bytes):
        assert data
        self.chunks.append(bytes(data))
        self._wake()

    def feed_eof(self):
        self.eof = True
        self._wake()

    def set_exception(self, exc):
        self.exc = exc
        self._wake()

    def idle(self):
        """True when a read() is parked waiting for data."""
        return self.waiter is not None and not self.waiter.done()

    async def read(self, n=-1):
        self.reads += 1
        while True:
            if self.exc is not None or (self.eof and not self.chunks):
                # a dead stream answers at once, every time: a caller that retries in a loop never yields
                self.spin += 1
                if self.spin > self.SPIN_LIMIT:
                    self.livelocked = True
                    raise HardLiveLock("read() retried on a dead stream without yielding to the event loop")
            if self.exc is not None:
                raise self.exc
            if self.chunks:
                self.spin = 0
                c = self.chunks.popleft()
                if n is not None and 0 <= n < len(c):
                    self.chunks.appendleft(c[n:])
                    c = c[:n]
                return c
            if self.eof:
                return b""
            self.spin = 0
            self.waiter = asyncio.get_running_loop().create_future()
            try:
                await self.waiter
            finally:
                self.waiter = None


class FakeWriter:
    """StreamWriter look-alike. Frames written are appended to ``out``."""

    def __init__(self, name="w"):
        self.name = name
        self.out = []  # every bytes object handed to write(), in order
        self.attempts = []  # everything handed to write(), also after the transport failed / closed
        self.sink = None  # callable(bytes) for delivery bookkeeping
        self.closed = False
        self.broken = None  # exception class raised by drain() when set
        self.paused = False
        self.waiters = collections.deque()
        self.writes_after_close = 0
        self.drains = 0
        self.own_reader = None  # FakeReader of the same endpoint: sees EOF when the transport is closed
        self.on_lost = None  # callable(): tell the link that this end closed (peer will see EOF)
        self._close_waiter = None
        self.lost_exc = None  # exception the transport was lost with: wait_closed() re-raises it (as asyncio does)

    def write(self, data):
        if not isinstance(data, (bytes, bytearray, memoryview)):
            raise TypeError(f"data argument must be a bytes-like object, not {type(data).__name__!r}")
        self.attempts.append(bytes(data))
        if self.closed or self.broken:
            self.writes_after_close += 1
            return
        data = bytes(data)
        self.out.append(data)
        if self.sink:
            self.sink(data)

    async def drain(self):
        self.drains += 1
        if self.broken:
            raise self.broken("Connection lost")
        if self.closed:
            await asyncio.sleep(0)
            raise ConnectionResetError("Connection lost")
        if self.paused:
            f = asyncio.get_running_loop().create_future()
            self.waiters.append(f)
            await f
            if self.broken:
                raise self.broken("Connection lost")

    def pause(self):
        self.paused = True

    def resume(self):
        self.paused = False
        while self.waiters:
            f = self.waiters.popleft()
            if not f.done():
                f.set_result(None)

    def fail(self, exc_cls=ConnectionResetError, lost=None):
        """drain() raises from now on.  lost=<exception instance>: the transport was torn down with that error
        (connection_lost(exc)): StreamWriter.wait_closed() raises it too - asyncio.StreamReaderProtocol puts the
        exception into the close waiter."""
        self.broken = exc_cls
        if lost is not None:
            self.lost_exc = lost
        while self.waiters:
            f = self.waiters.popleft()
            if not f.done():
                f.set_result(None)

    def close(self):
        """Like a real transport: connection_lost() runs in a later loop iteration; it completes
        wait_closed() and feeds EOF to the StreamReader of the same connection."""
        if self.closed:
            return
        self.closed = True
        try:
            loop = asyncio.get_running_loop()
        except RuntimeError:
            self._connection_lost()
            return
        if self._close_waiter is None:
            self._close_waiter = loop.create_future()
        loop.call_soon(self._connection_lost)

    def _connection_lost(self):
        # order as in asyncio.StreamReaderProtocol.connection_lost: reader first, then the close waiter
        if self.own_reader is not None and not self.own_reader.eof and self.own_reader.exc is None:
            self.own_reader.feed_eof()
        if self._close_waiter is not None and not self._close_waiter.done():
            self._close_waiter.set_result(None)
        if self.on_lost is not None:
            cb, self.on_lost = self.on_lost, None
            cb()

    def is_closing(self):
        return self.closed

    async def wait_closed(self):
        if not self.closed:
            raise RuntimeError("wait_closed() before close()")
        if self.lost_exc is not None:
            await asyncio.sleep(0)
            raise self.lost_exc
        if self._close_waiter is None:
            self._close_waiter = asyncio.get_running_loop().create_future()
            if self.closed:
                asyncio.get_running_loop().call_soon(self._connection_lost)
        await self._close_waiter

    def get_extra_info(self, name, default=None):
        if name == "peername":
            return ("127.0.0.1", 1)
        return default


class FakeServer:
    def __init__(self, cb):
        self.cb = cb
        self._forever = None

    async def __aenter__(self):
        return self

    async def __aexit__(self, *a):
        return False

    async def serve_forever(self):
        self._forever = asyncio.get_running_loop().create_future()
        await self._forever

    def close(self):
        if self._forever and not self._forever.done():
            self._forever.cancel()


class Net:
    """What asyncio.open_connection / start_server see."""

    def __init__(self):
        self.servers = {}  # port -> FakeServer
        self.pending_client = None  # (reader, writer) handed to next open_connection
        self.refuse = False

    async def open_connection(self, host=None, port=None, **kw):
        if self.refuse or self.pending_client is None:
            raise ConnectionRefusedError("refused")
        rw = self.pending_client
        self.pending_client = None
        return rw

    async def start_server(self, cb, host=None, port=None, **kw):
        s = FakeServer(cb)
        self.servers[int(port)] = s
        return s


NET = None


def install_net():
    global NET
    NET = Net()
    asyncio.open_connection = NET.open_connection
    asyncio.start_server = NET.start_server
    return NET


# --------------------------------------------------------------------------
# endpoints
# --------------------------------------------------------------------------

def _mk_endpoint_classes():
    from asyncfix import AsyncFIXClient, AsyncFIXConnection, AsyncFIXDummyServer, FIXMessage, FMsg, FTag

    class Hooks:
        """Recording hooks shared by every instrumented endpoint."""

        def _hk_init(self):
            self.ev = []  # ordered observations
            self.delivered = []  # (msg_type, seqnum, {tag: value})
            self.states = []
            self.n_disconnect = 0
            self.n_logon = 0
            self.n_logout = 0
            self.replay_filter = None  # callable(msg) -> bool
            self.logon_on_connect = True
            self.hb_in_logon = None
            self.gates = None  # scheduler gates for C14
            self.raise_filter = None  # callable(msg) -> bool: on_message raises after recording the delivery
            self.send_on_state = None  # state name: the application sends an order from on_state_change(that state)
            self.raise_on_state = None  # set of state names: on_state_change(that state) raises (failing application callback)
            self.send_on_disconnect = False  # the application tries to send an order from on_disconnect
            self.in_at_disconnect = None
            self.drop_on_state = None  # set of state names: the application drops the connection (no Logout) from on_state_change
            self.disconnect_on_state = None  # set of state names: the application ends the session from on_state_change
            self.disconnect_on_logon = False  # the application ends the session from inside on_logon
            self.raise_on_disconnect = False  # on_disconnect raises after recording the report (failing application callback)
            self.disconnect_filter = None  # callable(msg) -> bool: on_message ends the session (Logout + close) itself

        async def _gate(self, name):
            g = self.gates
            if g is not None:
                await g(self, name)

        async def on_message(self, msg):
            self.delivered.append(
                (str(msg.msg_type), msg.get(FTag.MsgSeqNum, None), dict_of(msg))
            )
            self.ev.append(("msg", str(msg.msg_type), msg.get(FTag.MsgSeqNum, None)))
            await self._gate("on_message")
            if self.raise_filter is not None and self.raise_filter(msg):
                raise RuntimeError("application callback failed")
            if self.disconnect_filter is not None and self.disconnect_filter(msg):
                from asyncfix.connection import ConnectionState
                await self.disconnect(ConnectionState.DISCONNECTED_WCONN_TODAY, logout_message="end of day")

        async def on_connect(self):
            self.ev.append(("connect",))
            if self.logon_on_connect and self.connection_role.name == "INITIATOR":
                m = FIXMessage(
                    FMsg.LOGON,
                    {FTag.EncryptMethod: "0", FTag.HeartBtInt: self.hb_in_logon or self.heartbeat_period},
                )
                await self.send_msg(m)

        async def on_disconnect(self):
            self.n_disconnect += 1
            self.ev.append(("disconnect",))
            try:
                self.in_at_disconnect = num_in(self)  # inbound counter at the moment the disconnect is reported
            except Exception:  # noqa
                self.in_at_disconnect = None
            if self.send_on_disconnect:
                try:
                    await self.send_msg(FIXMessage("D", {11: "fromdisc", 55: "X"}))
                    self.ev.append(("disc_send", "accepted"))
                except Exception as e:  # noqa
                    self.ev.append(("disc_send", type(e).__name__))
            if self.raise_on_disconnect:
                raise RuntimeError("application disconnect callback failed")

        async def on_logon(self, is_healthy):
            self.n_logon += 1
            self.ev.append(("logon", bool(is_healthy)))
            await self._gate("on_logon")
            if self.disconnect_on_logon:
                from asyncfix.connection import ConnectionState
                await self.disconnect(ConnectionState.DISCONNECTED_WCONN_TODAY, logout_message="not today")

        async def on_logout(self, msg):
            self.n_logout += 1
            self.ev.append(("logout", msg.get(FTag.Text, None)))

        async def on_state_change(self, st):
            self.states.append(st.name)
            await self._gate("on_state_change")
            if self.send_on_state == st.name:
                try:
                    await self.send_msg(FIXMessage("D", {11: "fromhook", 55: "X"}))
                    self.ev.append(("hook_send", "accepted"))
                except Exception as e:  # noqa
                    self.ev.append(("hook_send", type(e).__name__))
            if self.drop_on_state and st.name in self.drop_on_state:
                from asyncfix.connection import ConnectionState
                await self.disconnect(ConnectionState.DISCONNECTED_BROKEN_CONN)
            if self.disconnect_on_state and st.name in self.disconnect_on_state:
                from asyncfix.connection import ConnectionState
                await self.disconnect(ConnectionState.DISCONNECTED_WCONN_TODAY, logout_message="not now")
            if self.raise_on_state and st.name in self.raise_on_state:
                raise RuntimeError("application state callback failed")

        async def should_replay(self, m):
            await self._gate("should_replay")
            if self.replay_filter is not None:
                return self.replay_filter(m)
            return True

    class Client(Hooks, AsyncFIXClient):
        def __init__(self, *a, **kw):
            self._hk_init()
            AsyncFIXClient.__init__(self, *a, **kw)

    class Server(Hooks, AsyncFIXDummyServer):
        def __init__(self, *a, **kw):
            self._hk_init()
            AsyncFIXDummyServer.__init__(self, *a, **kw)

    class Bare(Hooks, AsyncFIXConnection):
        def __init__(self, *a, **kw):
            self._hk_init()
            AsyncFIXConnection.__init__(self, *a, **kw)

    return Client, Server, Bare


_CLASSES = None


def classes():
    global _CLASSES
    if _CLASSES is None:
        _CLASSES = _mk_endpoint_classes()
    return _CLASSES


def dict_of(msg):
    """Plain-dict view of a FIXContainer (groups as lists of dicts)."""
    out = {}
    for t, v in msg.tags.items():
        if hasattr(v, "groups"):
            out[t] = [dict_of(g) for g in v.groups]
        else:
            out[t] = v if isinstance(v, str) else repr(v)
    return out


# --------------------------------------------------------------------------
# ADAPTER: private attribute access
# --------------------------------------------------------------------------

def _need(o, name):
    try:
        return getattr(o, name)
    except AttributeError:
        raise HarnessError(f"adapter: {type(o).__name__} has no attribute {name}")


def _find_attr(o, preferred, pred, what):
    """Private attributes are looked up by name first, then by the TYPE of what they hold, so that a
    rename inside the library does not break the harness."""
    v = getattr(o, preferred, None)
    if v is not None and pred(v):
        return v
    hits = [x for x in vars(o).values() if pred(x)]
    if len(hits) == 1:
        return hits[0]
    if v is None and not hits:
        return None
    raise HarnessError(f"adapter: cannot identify {what} of {type(o).__name__}")


def session_of(c):
    from asyncfix.session import FIXSession

    s = _find_attr(c, "_session", lambda x: isinstance(x, FIXSession), "the session")
    if s is None:
        raise HarnessError("adapter: connection has no FIXSession attribute")
    return s


def journal_of(c):
    from asyncfix.journaler import Journaler

    return _find_attr(c, "_journaler", lambda x: isinstance(x, Journaler), "the journaler")


def reader_of(c):
    return _find_attr(c, "_socket_reader", lambda x: isinstance(x, FakeReader), "the stream reader")


def writer_of(c):
    return _find_attr(c, "_socket_writer", lambda x: isinstance(x, FakeWriter), "the stream writer")


def num_in(c):
    return _need(session_of(c), "next_num_in")


def num_out(c):
    return _need(session_of(c), "next_num_out")


def msg_buffer(c):
    b = getattr(c, "_msg_buffer", None)
    if isinstance(b, (bytes, bytearray)):
        return b
    hits = [x for x in vars(c).values() if isinstance(x, (bytes, bytearray))]
    if len(hits) == 1:
        return hits[0]
    raise HarnessError("adapter: cannot identify the receive buffer of the connection")


def set_state(c, st):
    _need(c, "_connection_state")
    c._connection_state = st


def stored_counters(j, target, sender):
    """(next_in, next_out) as a fresh load by CompIDs reports them, or None if
    the session does not exist. Read-only."""
    cur = j.conn.cursor()
    try:
        cur.execute(
            "SELECT inboundSeqNo, outboundSeqNo FROM session WHERE targetCompId=? AND senderCompId=?",
            (target, sender),
        )
        r = cur.fetchone()
    finally:
        cur.close()
    if r is None:
        return None
    return (r[0] + 1, r[1] + 1)


def committed_counters(path, target, sender):
    """(next_in, next_out) as a NEW process would load them: read through a brand-new sqlite
    connection on the journal file, i.e. committed data only. None if the session row does not exist."""
    import sqlite3

    con = sqlite3.connect(path, timeout=0)
    try:
        r = con.execute(
            "SELECT inboundSeqNo, outboundSeqNo FROM session WHERE targetCompId=? AND senderCompId=?",
            (target, sender),
        ).fetchone()
    finally:
        con.close()
    return None if r is None else (r[0] + 1, r[1] + 1)


def journal_rows(j, session_key=None):
    """sorted list of (session, direction, seqno, bytes)."""
    rows = j.get_all_msgs()
    out = []
    for seq, msg, direction, skey in rows:
        if session_key is not None and skey != session_key:
            continue
        out.append((skey, direction, seq, msg))
    out.sort(key=lambda r: (r[0], r[1], r[2]))
    return out


def prim_attrs(o, skip=()):
    """All primitive instance attributes (auto-discovered) for state keys."""
    out = []
    for k in sorted(vars(o)):
        if k in skip:
            continue
        v = vars(o)[k]
        if isinstance(v, (int, float, str, bytes, bool, type(None))):
            out.append((k, v))
        elif hasattr(v, "name") and hasattr(v, "value") and not callable(v):
            out.append((k, v.name))
    return out


HOOK_ATTRS = {
    "ev", "delivered", "states", "n_disconnect", "n_logon", "n_logout",
    "replay_filter", "logon_on_connect", "gates", "hb_in_logon", "log", "raise_filter", "send_on_state",
}


def conn_key(c, clock_rel=True):
    """Canonical, hash-seed independent key of a connection's own state."""
    items = []
    for k, v in prim_attrs(c, skip=HOOK_ATTRS):
        if isinstance(v, float) and v > 1e9:
            v = round(v - CLOCK.now, 3)
        if k == "_test_req_id" and isinstance(v, int) and v > 1e9:
            v = v - int(CLOCK.now)
        items.append((k, v))
    s = session_of(c)
    items.append(("S", tuple(prim_attrs(s))))
    items.append(("has_r", reader_of(c) is not None))
    items.append(("has_w", writer_of(c) is not None))
    return tuple(items)


# --------------------------------------------------------------------------
# single-endpoint world with a scripted peer
# --------------------------------------------------------------------------

class TmpDir:
    def __init__(self):
        base = os.environ.get("VERIF_TMP") or ("/dev/shm" if os.path.isdir("/dev/shm") and os.access("/dev/shm", os.W_OK) else None)
        self.path = tempfile.mkdtemp(prefix="vf_", dir=base)

    def cleanup(self):
        shutil.rmtree(self.path, ignore_errors=True)


class World1:
    """One real endpoint + scripted peer on the other side of a fake link.

    role: 'initiator' (AsyncFIXClient) or 'acceptor' (AsyncFIXDummyServer).
    The endpoint's CompIDs: sender=S, target=T; the peer sends 49=T 56=S.
    """

    def __init__(self, role="acceptor", S="SRV", T="CLI", hb=100000, journal=None,
                 next_in=None, next_out=None, logon_on_connect=True):
        from asyncfix import Journaler
        from asyncfix.protocol import FIXProtocol44

        Client, Server, Bare = classes()
        CLOCK.now = CLOCK.BASE
        self.loop = VLoop()
        self.loop.enter()
        self.net = install_net()
        self.role = role
        self.S, self.T = S, T
        self.j = journal if journal is not None else Journaler()
        cls = Client if role == "initiator" else Server
        self.c = cls(FIXProtocol44(), S, T, self.j, "h", 1, heartbeat_period=hb)
        self.c.logon_on_connect = logon_on_connect
        if next_in is not None or next_out is not None:
            self.j.set_seq_num(session_of(self.c), next_num_out=next_out, next_num_in=next_in)
            self.j.conn.commit()
        self.reader = None
        self.writer = None
        self.peer_seq = 1  # next number the scripted peer uses by default
        self.seen = 0  # frames of writer.out already consumed by take()
        self.connect_task = None
        self.livelock = False

    # -- connection management ---------------------------------------------
    def connect(self, settle=True):
        self.reader, self.writer = FakeReader(), FakeWriter()
        self.writer.own_reader = self.reader
        self.seen = 0
        if self.role == "initiator":
            self.net.pending_client = (self.reader, self.writer)
            self.connect_task = self.loop.create_task(self.c.connect())
            self.run()
        else:
            if self.connect_task is None:
                self.connect_task = self.loop.create_task(self.c.connect())
                self.run()
            srv = self.net.servers.get(1)
            if srv is None:
                raise HarnessError("server did not call start_server")
            self.loop.create_task(srv.cb(self.reader, self.writer))
            self.run()
        if settle:
            # read loop polls with sleep(1) while it has no socket
            self.advance(1.0)

    def run(self):
        try:
            self.loop.run_ready()
        except LiveLock:
            self.livelock = True
        if self.reader is not None and self.reader.livelocked:
            self.livelock = True

    def advance(self, dt):
        try:
            self.loop.advance(dt)
        except LiveLock:
            self.livelock = True
        if self.reader is not None and self.reader.livelocked:
            self.livelock = True

    # -- peer actions ---------------------------------------------------------
    def feed(self, data: bytes):
        self.reader.feed(data)
        self.run()

    def peer(self, msg_type, seq=None, body=(), **kw):
        """Send one frame as the peer; seq None => next peer number."""
        if seq is None:
            seq = self.peer_seq
            self.peer_seq += 1
        fr = refs.frame(msg_type, seq, kw.pop("sender", self.T), kw.pop("target", self.S), body, **kw)
        self.feed(fr)
        return fr

    def take(self):
        """Frames written by the endpoint since the last take()."""
        out = self.writer.out[self.seen:]
        self.seen = len(self.writer.out)
        return out

    def logon(self, hb=None, seq=None):
        """Complete a clean logon exchange from a fresh connect()."""
        body = [(98, 0), (108, hb if hb is not None else self.c.heartbeat_period)]
        self.peer("A", seq, body)

    def send(self, msg):
        """Call send_msg as the application; returns task_result tuple."""
        t = self.loop.create_task(self.c.send_msg(msg))
        self.run()
        return task_result(t)

    def call(self, coro):
        t = self.loop.create_task(coro)
        self.run()
        return task_result(t)

    def close(self):
        self.loop.shutdown()
