"""Harness self-test run by setup_cmd: determinism of the virtual world."""
import sys


def main():
    from mc import runner
    runner.import_asyncfix()
    from mc import refs
    from mc.world import World1, conn_key

    keys = []
    for _ in range(2):
        w = World1("acceptor")
        w.connect()
        w.logon()
        w.peer("D", None, [(11, "x")])
        w.peer("D", 5, [(11, "y")])
        keys.append((conn_key(w.c), tuple(w.writer.out)))
        w.close()
    # frames carry SendingTime from the virtual clock => byte-identical
    if keys[0] != keys[1]:
        print("selfcheck: replay of the same history diverged", file=sys.stderr)
        return 2
    f = refs.frame("0", 1, "A", "B")
    refs.parse(f)
    print("selfcheck ok")
    return 0


if __name__ == "__main__":
    sys.exit(main())
