"""Explorer A: level-synchronous BFS over event histories with state hashing.

A state is the event history that reaches it (live asyncio objects cannot be
copied); children are produced by rebuilding the world on fresh real objects
and replaying history + one event.  A property supplies a *Sim* class:

    sim = Sim.build(hist)          # fresh world, every event of hist applied (monitors included)
    sim.enabled() -> [event, ...]  # small finite menu, simplest first; events are JSON-able tuples
    sim.apply(ev)  -> None | violation dict   # applies ONE event, runs the oracle for that transition
    sim.key()      -> hashable canonical key (implementation state + monitor state)
    sim.close()
    sim.nontrivial() -> bool       # optional

A history is cut at its first violation (unless the violation dict carries "continue": True - side-branch verdicts).
"""
import hashlib

from mc.runner import HarnessError, jdump

_SIM = None


def _digest(k):
    return hashlib.blake2b(repr(k).encode(), digest_size=12).digest()


def _expand(item):
    hist, want = item
    Sim = _SIM
    s = Sim.build(hist)
    try:
        k0 = _digest(s.key())
        if want is not None and k0 != want:
            return ("DIVERGED", hist)
        evs = s.enabled()
    finally:
        s.close()
    out = []
    for ev in evs:
        s = Sim.build(hist)
        try:
            v = s.apply(ev)
            if v is not None:
                v = dict(v)
                v.setdefault("replay", {"hist": list(hist) + [ev]})
                if v.pop("continue", False):
                    # the oracle judged a hypothetical side branch (e.g. a kill snapshot) and the live run is intact:
                    # report it AND keep exploring behind this event (an open finding must not hide what follows)
                    nt = s.nontrivial() if hasattr(s, "nontrivial") else True
                    out.append((ev, _digest(s.key()), v, nt))
                else:
                    out.append((ev, None, v, False))
            else:
                nt = s.nontrivial() if hasattr(s, "nontrivial") else True
                out.append((ev, _digest(s.key()), None, nt))
        finally:
            s.close()
    return out


def explore(ctx, Sim, roots, max_depth, max_states=None, label=""):
    """BFS from each root history (tuple of events). Returns dict with stats."""
    global _SIM
    _SIM = Sim
    seen = {}
    frontier = []
    for r in roots:
        r = tuple(r)
        s = Sim.build(r)
        try:
            k = _digest(s.key())
        finally:
            s.close()
        if k not in seen:
            seen[k] = r
            frontier.append((r, k))
    transitions = 0
    traces = len(roots)
    depth_done = 0
    nontriv = 0
    capped = False
    import gc

    gc.collect()
    ctx.pool_begin()
    try:
        return _levels(ctx, Sim, seen, frontier, max_depth, max_states, label, transitions, traces)
    finally:
        ctx.pool_end()


def _levels(ctx, Sim, seen, frontier, max_depth, max_states, label, transitions, traces):
    depth_done = 0
    nontriv = 0
    capped = False
    for depth in range(1, max_depth + 1):
        if not frontier:
            break
        import os, time
        _t = time.perf_counter()
        res = ctx.pmap(_expand, frontier)
        if os.environ.get("VERIF_DEBUG"):
            print(f"[bfs {label}] depth={depth} frontier={len(frontier)} seen={len(seen)} {time.perf_counter() - _t:.1f}s", flush=True)
        nxt = []
        for (hist, _k), children in zip(frontier, res):
            if isinstance(children, tuple) and children and children[0] == "DIVERGED":
                raise HarnessError(f"{label}: replay of a recorded history diverged: {jdump(list(hist))[:300]}")
            traces += 1 + len(children)
            for ev, k, v, nt in children:
                transitions += 1
                if v is not None:
                    ctx.merge_violations([v])
                    if k is None:
                        continue
                if nt:
                    nontriv += 1
                if k not in seen:
                    if max_states and len(seen) >= max_states:
                        capped = True
                        continue
                    h2 = hist + (ev,)
                    seen[k] = h2
                    nxt.append((h2, k))
        depth_done = depth
        frontier = nxt
        if capped:
            ctx.cap(f"{label}: max_states={max_states} reached at depth {depth}")
            break
    exhausted = not frontier
    ctx.count(states=len(seen), transitions=transitions, traces=traces, nontrivial=nontriv)
    hs = list(seen.values())
    for h in hs[:: max(1, len(hs) // 3)][:3]:
        ctx.sample({"history": list(h)})
    return {"states": len(seen), "transitions": transitions, "depth_completed": depth_done,
            "frontier_left": len(frontier), "closed": exhausted}
