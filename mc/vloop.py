"""Virtual event loop and virtual clock.

The explorer owns the ready queue and the timers of a real
``asyncio.BaseEventLoop`` (stock Task / Future / sleep semantics, FIFO ready
queue), but there is no selector and no real time: ``time.time`` is replaced
process-wide by the virtual clock before ``asyncfix`` is imported.
"""
import asyncio
import heapq
import signal
import threading
import time as _time
from asyncio import events

_REAL_TIME = _time.time


class Clock:
    """Process-wide virtual clock (seconds)."""

    BASE = 1_700_000_000.0

    def __init__(self):
        self.now = self.BASE

    def __call__(self):
        return self.now


CLOCK = Clock()


def install_clock():
    """Replace time.time process-wide (idempotent)."""
    if _time.time is not CLOCK:
        _time.time = CLOCK


class LiveLock(Exception):
    """run_ready exceeded its step limit."""


class HardSpin(BaseException):
    """Raised by the CPU-time watchdog inside a callback that never returns to the loop (a coroutine spinning
    without suspending): not an Exception, so the library's handlers do not swallow it."""


SPIN_CPU_SECONDS = 20.0  # CPU time (ITIMER_VIRTUAL: independent of machine load) one run_ready() may burn


class VLoop(asyncio.BaseEventLoop):
    """Event loop driven by hand."""

    def __init__(self):
        super().__init__()
        self.errors = []  # contexts passed to the exception handler
        self.set_exception_handler(self._on_error)
        self.steps = 0
        self.spun = False

    def _on_vtalarm(self, signum, frame):
        self.spun = True
        raise HardSpin("a callback burnt %.0f s of CPU without returning to the event loop" % SPIN_CPU_SECONDS)

    # -- BaseEventLoop plumbing -------------------------------------------
    def time(self):
        return CLOCK.now

    def _process_events(self, event_list):  # pragma: no cover
        pass

    def _write_to_self(self):
        pass

    def _on_error(self, loop, context):
        msg = context.get("message", "")
        if "was destroyed but it is pending" in msg:
            return
        self.errors.append(
            (msg, repr(context.get("exception")) if context.get("exception") else None)
        )

    # -- manual driving -----------------------------------------------------
    def enter(self):
        events._set_running_loop(self)
        asyncio._set_running_loop(self)

    def leave(self):
        events._set_running_loop(None)

    def ready_count(self):
        return sum(1 for h in self._ready if not h._cancelled)

    def step(self):
        """Run exactly one ready callback. Returns False if none was ready."""
        while self._ready:
            h = self._ready.popleft()
            if h._cancelled:
                continue
            self.steps += 1
            arm = threading.current_thread() is threading.main_thread()
            if arm:
                old = signal.signal(signal.SIGVTALRM, self._on_vtalarm)
                signal.setitimer(signal.ITIMER_VIRTUAL, SPIN_CPU_SECONDS)
            try:
                h._run()
            except HardSpin:
                self.spun = True
            finally:
                if arm:
                    signal.setitimer(signal.ITIMER_VIRTUAL, 0)
                    signal.signal(signal.SIGVTALRM, old)
            if self.spun:
                raise LiveLock("a callback never returned to the event loop (spinning coroutine)")
            return True
        return False

    def run_ready(self, limit=20000):
        """Run callbacks until the ready queue is empty (timers are NOT fired)."""
        n = 0
        arm = bool(self._ready) and threading.current_thread() is threading.main_thread()
        if arm:
            old = signal.signal(signal.SIGVTALRM, self._on_vtalarm)
            signal.setitimer(signal.ITIMER_VIRTUAL, SPIN_CPU_SECONDS)
        try:
            while self._ready:
                h = self._ready.popleft()
                if h._cancelled:
                    continue
                h._run()
                n += 1
                if n > limit:
                    raise LiveLock(f"more than {limit} callbacks without quiescence")
                if self.spun:
                    break
        except HardSpin:
            self.spun = True
        finally:
            if arm:
                signal.setitimer(signal.ITIMER_VIRTUAL, 0)
                signal.signal(signal.SIGVTALRM, old)
        self.steps += n
        if self.spun:
            raise LiveLock("a callback never returned to the event loop (spinning coroutine)")
        return n

    def next_timer(self):
        """Virtual time of the earliest live timer or None."""
        while self._scheduled and self._scheduled[0]._cancelled:
            h = heapq.heappop(self._scheduled)
            h._scheduled = False
        if self._scheduled:
            return self._scheduled[0]._when
        return None

    def fire_due(self):
        """Move every timer that is due at the current clock to the ready queue."""
        n = 0
        while self._scheduled:
            h = self._scheduled[0]
            if h._cancelled:
                heapq.heappop(self._scheduled)
                h._scheduled = False
                continue
            if h._when > CLOCK.now + 1e-9:
                break
            heapq.heappop(self._scheduled)
            h._scheduled = False
            self._ready.append(h)
            n += 1
        return n

    def advance(self, dt, limit=20000):
        """Advance virtual time by dt, firing timers in time order, running to
        quiescence after each distinct timer instant."""
        target = CLOCK.now + dt
        self.run_ready(limit)
        while True:
            t = self.next_timer()
            if t is None or t > target + 1e-9:
                break
            if t > CLOCK.now:
                CLOCK.now = t
            self.fire_due()
            self.run_ready(limit)
        CLOCK.now = target
        self.run_ready(limit)

    def advance_to(self, target, inclusive=True, limit=20000):
        """Advance the clock to the absolute virtual time `target`, firing timers
        in time order (those due exactly at `target` only when inclusive)."""
        self.run_ready(limit)
        while True:
            t = self.next_timer()
            if t is None or t > target + 1e-9 or (not inclusive and t >= target - 1e-9):
                break
            if t > CLOCK.now:
                CLOCK.now = t
            self.fire_due()
            self.run_ready(limit)
        if target > CLOCK.now:
            CLOCK.now = target
        self.run_ready(limit)

    def run_coro(self, coro, limit=20000):
        """Run a coroutine as a task until it finishes or the loop goes quiescent.
        Returns the task."""
        t = self.create_task(coro)
        self.run_ready(limit)
        return t

    def shutdown(self):
        """Cancel everything and close the loop."""
        try:
            for _ in range(5):
                tasks = [t for t in asyncio.all_tasks(self) if not t.done()]
                if not tasks:
                    break
                for t in tasks:
                    t.cancel()
                try:
                    self.run_ready(5000)
                except LiveLock:
                    break
            for t in asyncio.all_tasks(self):
                if t.done() and not t.cancelled():
                    t.exception()  # mark retrieved
        except Exception:
            pass
        self._ready.clear()
        self._scheduled.clear()
        self.leave()
        try:
            self.close()
        except Exception:
            pass


def task_result(t):
    """('ok', value) | ('exc', exception) | ('pending', None) | ('cancelled', None)."""
    if not t.done():
        return ("pending", None)
    if t.cancelled():
        return ("cancelled", None)
    e = t.exception()
    if e is not None:
        return ("exc", e)
    return ("ok", t.result())
