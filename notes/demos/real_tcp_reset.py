import asyncio, socket, struct, logging, sys
sys.path.insert(0, "/repo")
from asyncfix import AsyncFIXDummyServer, Journaler
from asyncfix.protocol import FIXProtocol44
logging.disable(logging.CRITICAL)
class Srv(AsyncFIXDummyServer):
    nd = 0
    async def on_disconnect(self): self.nd += 1
    async def on_connect(self): pass
async def main():
    j = Journaler()
    s = Srv(FIXProtocol44(), "SRV", "CLI", j, "127.0.0.1", 45871, heartbeat_period=30)
    t = asyncio.create_task(s.connect())
    await asyncio.sleep(0.3)
    rt = s._aio_task_socket_read
    c = socket.socket(); c.connect(("127.0.0.1", 45871))
    await asyncio.sleep(0.3)
    print("state after connect", s.connection_state.name)
    c.setsockopt(socket.SOL_SOCKET, socket.SO_LINGER, struct.pack("ii", 1, 0))
    c.close()  # RST
    await asyncio.sleep(1.5)
    print("state after reset", s.connection_state.name, "on_disconnect calls", s.nd, "read task done", rt.done(), rt.exception() if rt.done() else None)
    t.cancel()
asyncio.run(main())
