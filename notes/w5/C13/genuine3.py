"""GENUINE 3 - loading an existing session (or a refused duplicate) leaves a write
transaction open; a second Journaler on the same store file can then not store.

Run (unmodified tree):  cd WT && PYTHONPATH=WT /venv/bin/python _mutant/genuine3.py
(~5 s, sqlite busy timeout).  Exit 1 + message when the violation is seen.
"""
import os
import sys
import tempfile

from asyncfix.journaler import Journaler
from asyncfix.message import MessageDirection as D


def m(n):
    return b"8=FIX.4.4\x019=10\x0135=0\x0149=S\x0156=T\x0134=%d\x0110=000\x01" % n


fn = tempfile.mktemp(suffix=".store")
j1 = Journaler(fn)
j2 = Journaler(fn)
a = j1.create_or_load("A", "B")
b = j2.create_or_load("B", "A")  # mirror-image session, other Journaler object
j1.persist_msg(m(1), a, D.OUTBOUND)
j2.persist_msg(m(1), b, D.INBOUND)  # fine so far

a = j1.create_or_load("A", "B")  # plain re-load of an existing session
bad = []
if j1.conn.in_transaction:
    bad.append("create_or_load of an existing session left a write transaction open")
try:
    j2.persist_msg(m(2), b, D.INBOUND)
except Exception as e:
    bad.append(f"storing 2 in session (B,A) through the second Journaler raised {e!r}")
try:
    if j2.create_or_load("B", "A").next_num_in != 3:
        bad.append("next inbound of (B,A) is not 3 after storing 2")
except Exception as e:
    bad.append(f"even loading session (B,A) through the second Journaler raised {e!r}")
del j1, j2
os.unlink(fn)
for x in bad:
    print("VIOLATION", x)
sys.exit(1 if bad else 0)
