"""GENUINE 1 - sequence numbers / range bounds at and above 2**63 (the property says "arbitrary ... large").

Run (unmodified tree):  cd WT && PYTHONPATH=WT /venv/bin/python _mutant/genuine1.py
Exit code 1 and a message per violated clause; exit 0 if the journal behaves like the model.
"""
import sys

from asyncfix.errors import DuplicateSeqNoError
from asyncfix.journaler import Journaler
from asyncfix.message import MessageDirection as D

BIG = 2**63  # first number sqlite cannot hold


def m(n):
    return b"8=FIX.4.4\x019=10\x0135=0\x0149=S\x0156=T\x0134=%d\x0110=000\x01" % n


bad = []

# (a) storing a large number: must be stored and make n+1 the next number
j = Journaler()
s = j.create_or_load("T", "S")
try:
    j.persist_msg(m(BIG), s, D.OUTBOUND)
    if j.create_or_load("T", "S").next_num_out != BIG + 1:
        bad.append("(a) stored 2**63 but next outbound is not 2**63+1")
except Exception as e:
    bad.append(f"(a) persist_msg(34=2**63) raised {e!r} - not stored, not a duplicate")

# (b) a range query whose (open-ended style) upper bound is large must return
#     the stored messages in range
j = Journaler()
s = j.create_or_load("T", "S")
for n in (1, 2, 3):
    j.persist_msg(m(n), s, D.OUTBOUND)
try:
    got = j.recover_messages(s, D.OUTBOUND, 2, BIG)
    if got != [m(2), m(3)]:
        bad.append(f"(b) wrong result {got}")
except Exception as e:
    bad.append(f"(b) recover_messages(2, 2**63) raised {e!r} instead of returning 2,3")

# (c) the largest storable number poisons set_seq_num: after storing 2**63-1
#     inbound, both load paths report next inbound 2**63 (fine), but
#     set_seq_num(loaded, next_num_out=3) raises, truncates nothing, and leaves
#     its counter UPDATE pending so that the next commit makes the counters
#     disagree with the store.
j = Journaler()
s = j.create_or_load("T", "S")
for n in (1, 2, 3, 4):
    j.persist_msg(m(n), s, D.OUTBOUND)
j.persist_msg(m(BIG - 1), s, D.INBOUND)
s = j.create_or_load("T", "S")
lst = j.sessions()[("T", "S")]
assert (s.next_num_in, s.next_num_out) == (lst.next_num_in, lst.next_num_out) == (BIG, 5)
try:
    j.set_seq_num(s, next_num_out=3)
except Exception as e:
    bad.append(f"(c1) set_seq_num(next_num_out=3) on a freshly loaded session raised {e!r}")
left = j.recover_messages(s, D.OUTBOUND, 0, 100)
if left != [m(1), m(2)]:
    bad.append(f"(c2) outbound messages >= 3 not removed: {len(left)} messages remain")
other = j.create_or_load("X", "Y")  # any later commit publishes the half-applied renumbering
j.persist_msg(m(1), other, D.INBOUND)
nxt = j.create_or_load("T", "S").next_num_out
try:
    j.persist_msg(m(nxt), j.create_or_load("T", "S"), D.OUTBOUND)
except DuplicateSeqNoError as e:
    bad.append(f"(c3) next outbound reported as {nxt}, yet storing {nxt} fails: {e}")

for b in bad:
    print("VIOLATION", b)
sys.exit(1 if bad else 0)
