"""GENUINE 2 (fault history) - a store that FAILS at commit is nevertheless stored.

Run (unmodified tree):  cd WT && PYTHONPATH=WT /venv/bin/python _mutant/genuine2.py
(takes ~5 s: sqlite busy timeout).  Exit 1 + message when the violation is seen.

A file journal, and any second connection to the same file that holds a read
transaction at the moment persist_msg() commits (a monitoring tool, a backup,
another Journaler instance of the same process).
"""
import os
import sqlite3
import sys
import tempfile

from asyncfix.errors import DuplicateSeqNoError
from asyncfix.journaler import Journaler
from asyncfix.message import MessageDirection as D


def m(n):
    return b"8=FIX.4.4\x019=10\x0135=0\x0149=S\x0156=T\x0134=%d\x0110=000\x01" % n


fn = tempfile.mktemp(suffix=".store")
j = Journaler(fn)
s = j.create_or_load("T", "S")
j.persist_msg(m(1), s, D.OUTBOUND)

reader = sqlite3.connect(fn)
reader.execute("BEGIN")
reader.execute("SELECT count(*) FROM message").fetchall()  # SHARED lock held

failed = None
try:
    j.persist_msg(m(2), s, D.OUTBOUND)
except Exception as e:  # sqlite3.OperationalError: database is locked (at COMMIT)
    failed = e
reader.rollback()
reader.close()

bad = []
if failed is None:
    print("fault did not trigger; nothing to show")
    sys.exit(0)
print("persist_msg(34=2) raised", repr(failed))
# the caller was told the store failed; a map-like store must not contain it
if j.recover_msg(s, D.OUTBOUND, 2) is not None:
    bad.append("message 2 is returned by recover_msg although persist_msg raised")
if j.create_or_load("T", "S").next_num_out != 2:
    bad.append(f"next outbound is {j.create_or_load('T', 'S').next_num_out}, expected 2")
try:
    j.persist_msg(m(2), s, D.OUTBOUND)  # the natural retry
except DuplicateSeqNoError as e:
    bad.append(f"retry of the failed store is refused as a duplicate: {e}")
# ... and it becomes durable with the next unrelated commit
j.persist_msg(m(1), s, D.INBOUND)
del j
j2 = Journaler(fn)
if j2.recover_msg(j2.create_or_load("T", "S"), D.OUTBOUND, 2) is not None:
    bad.append("after reopen the 'failed' message 2 is in the journal")
del j2
os.unlink(fn)
for b in bad:
    print("VIOLATION", b)
sys.exit(1 if bad else 0)
