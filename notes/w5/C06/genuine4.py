"""genuine4: a disconnect that completes while the last frame of a resend reply is being
drained is undone by the end of _process_resend: the connection reports ACTIVE although
the socket is closed and on_disconnect() was delivered.

Run (unmodified worktree):  cd WT && PYTHONPATH=WT /venv/bin/python _mutant/genuine4.py
exit 1 = property violated.
"""
import asyncio, logging, sys
from unittest.mock import MagicMock, AsyncMock
from asyncfix import FIXMessage, FMsg, FTag
from asyncfix.connection import AsyncFIXConnection, ConnectionState, ConnectionRole
from asyncfix.journaler import Journaler
from asyncfix.message import MessageDirection
from asyncfix.protocol import FIXProtocol44
from asyncfix.codec import Codec
from asyncfix.session import FIXSession

_log = logging.getLogger("c06probe")
_log.addHandler(logging.NullHandler())
_log.propagate = False


class Conn(AsyncFIXConnection):
    async def on_message(self, msg):
        pass

    async def on_connect(self):
        pass


def make(cls=Conn):
    """Connection in ACTIVE state, in-memory journal, frames written are captured."""
    c = cls(FIXProtocol44(), "US", "PEER", journaler=Journaler(), host="h", port=1,
            logger=_log)
    c.frames = []
    w = MagicMock()
    w.write.side_effect = lambda b: c.frames.append(b)
    w.drain = AsyncMock()
    w.wait_closed = AsyncMock()
    c._socket_writer = w
    c._socket_reader = MagicMock()
    c._connection_state = ConnectionState.ACTIVE
    c._connection_role = ConnectionRole.INITIATOR
    c._connection_was_active = True
    c.peer_codec = Codec(FIXProtocol44())
    c.peer_sess = FIXSession(99, "US", "PEER")  # counterparty: sender=PEER target=US
    c.peer_sess.next_num_out = 1
    c.peer_sess.next_num_in = 1
    return c


async def feed(c, msg):
    """Counterparty sends msg: encoded by an independent codec, decoded and processed
    exactly as socket_read_task does."""
    raw = c.peer_codec.encode(msg, c.peer_sess).encode()
    m, _, r = c._codec.decode(raw)
    assert m is not None
    await c._process_message(m, r)


def show(c):
    """Frames written, e.g. ['GF 1->2', 'D@2*'] (* = PossDupFlag=Y)."""
    out = []
    for f in c.frames:
        m, _, _ = c._codec.decode(f, silent=False)
        if m.msg_type == FMsg.SEQUENCERESET:
            out.append(f"GF {m[34]}->{m[36]}")
        else:
            out.append(f"{m[35]}@{m[34]}{'*' if m.get(43, 'N') == 'Y' else ''}")
    return out


def rr(b, e):
    return FIXMessage(FMsg.RESENDREQUEST, {FTag.BeginSeqNo: b, FTag.EndSeqNo: e})


def order(i):
    return FIXMessage(FMsg.NEWORDERSINGLE, {11: f"ord{i}", 55: "SYM", 54: 1, 38: 10})


async def logon_and_orders(c, n=3):
    """Outbound journal: 1=Logon, 2..n+1 = NewOrderSingle."""
    await c.send_msg(FIXMessage(FMsg.LOGON, {98: 0, 108: 30}))
    for i in range(n):
        await c.send_msg(order(i))
    c.frames.clear()


async def main():
    c = make()
    await logon_and_orders(c, 3)          # reply will be GF 1->2, D@2, D@3, D@4
    calls = {"n": 0}

    async def slow_drain():
        calls["n"] += 1
        if calls["n"] == 4:               # the LAST frame of the reply: peer reads slowly
            await asyncio.sleep(0.05)

    c._socket_writer.drain = slow_drain
    states = []

    async def watchdog():
        # what heartbeat_timer_task does on a dead peer / what an application may do
        await asyncio.sleep(0.01)
        await c.disconnect(ConnectionState.DISCONNECTED_BROKEN_CONN)
        states.append(c.connection_state)

    t = asyncio.create_task(watchdog())
    await feed(c, rr(1, 0))
    await t
    print("reply:", show(c))
    print("state right after disconnect():", states[0].name)
    print("state after the resend finished:", c.connection_state.name,
          " socket_writer:", c._socket_writer)
    if c.connection_state == ConnectionState.ACTIVE and c._socket_writer is None:
        print("PROPERTY C06 VIOLATED: connection_state is ACTIVE on a closed connection;"
              " the state was DISCONNECTED_BROKEN_CONN before the end of the reply")
        try:
            await c.send_msg(order(99))
        except Exception as e:
            print("  send_msg in this 'ACTIVE' state:", repr(e), "- next_num_out now",
                  c._session.next_num_out, "(number consumed and journaled)")
        sys.exit(1)
    print("ok")


asyncio.run(main())
