"""genuine5 (interleaving): a message sent by the application while the reply is being
produced is written INTO the chain: the frames answering the request are not a contiguous
chain, and the fresh message is dropped by a peer that waits for the resend.

Run (unmodified worktree):  cd WT && PYTHONPATH=WT /venv/bin/python _mutant/genuine5.py
exit 1 = property violated.
"""
import asyncio, logging, sys
from unittest.mock import MagicMock, AsyncMock
from asyncfix import FIXMessage, FMsg, FTag
from asyncfix.connection import AsyncFIXConnection, ConnectionState, ConnectionRole
from asyncfix.journaler import Journaler
from asyncfix.message import MessageDirection
from asyncfix.protocol import FIXProtocol44
from asyncfix.codec import Codec
from asyncfix.session import FIXSession

_log = logging.getLogger("c06probe")
_log.addHandler(logging.NullHandler())
_log.propagate = False


class Conn(AsyncFIXConnection):
    async def on_message(self, msg):
        pass

    async def on_connect(self):
        pass


def make(cls=Conn):
    """Connection in ACTIVE state, in-memory journal, frames written are captured."""
    c = cls(FIXProtocol44(), "US", "PEER", journaler=Journaler(), host="h", port=1,
            logger=_log)
    c.frames = []
    w = MagicMock()
    w.write.side_effect = lambda b: c.frames.append(b)
    w.drain = AsyncMock()
    w.wait_closed = AsyncMock()
    c._socket_writer = w
    c._socket_reader = MagicMock()
    c._connection_state = ConnectionState.ACTIVE
    c._connection_role = ConnectionRole.INITIATOR
    c._connection_was_active = True
    c.peer_codec = Codec(FIXProtocol44())
    c.peer_sess = FIXSession(99, "US", "PEER")  # counterparty: sender=PEER target=US
    c.peer_sess.next_num_out = 1
    c.peer_sess.next_num_in = 1
    return c


async def feed(c, msg):
    """Counterparty sends msg: encoded by an independent codec, decoded and processed
    exactly as socket_read_task does."""
    raw = c.peer_codec.encode(msg, c.peer_sess).encode()
    m, _, r = c._codec.decode(raw)
    assert m is not None
    await c._process_message(m, r)


def show(c):
    """Frames written, e.g. ['GF 1->2', 'D@2*'] (* = PossDupFlag=Y)."""
    out = []
    for f in c.frames:
        m, _, _ = c._codec.decode(f, silent=False)
        if m.msg_type == FMsg.SEQUENCERESET:
            out.append(f"GF {m[34]}->{m[36]}")
        else:
            out.append(f"{m[35]}@{m[34]}{'*' if m.get(43, 'N') == 'Y' else ''}")
    return out


def rr(b, e):
    return FIXMessage(FMsg.RESENDREQUEST, {FTag.BeginSeqNo: b, FTag.EndSeqNo: e})


def order(i):
    return FIXMessage(FMsg.NEWORDERSINGLE, {11: f"ord{i}", 55: "SYM", 54: 1, 38: 10})


async def logon_and_orders(c, n=3):
    """Outbound journal: 1=Logon, 2..n+1 = NewOrderSingle."""
    await c.send_msg(FIXMessage(FMsg.LOGON, {98: 0, 108: 30}))
    for i in range(n):
        await c.send_msg(order(i))
    c.frames.clear()


class SlowFilterApp(Conn):
    async def should_replay(self, m):
        await asyncio.sleep(0)      # any real await (db lookup, ...) in the filter
        return True


async def main():
    c = make(SlowFilterApp)
    await logon_and_orders(c, 3)

    async def trader():
        await asyncio.sleep(0)
        await c.send_msg(order(100))        # fresh message, MsgSeqNum 5

    t = asyncio.create_task(trader())
    await feed(c, rr(1, 0))
    await t
    got = show(c)
    print("frames on the wire from request to end of reply:", got)
    nxt, ok = 1, True
    for f in got:
        if f.startswith("GF"):
            a, b = f[3:].split("->")
            ok &= int(a) == nxt
            nxt = int(b)
        else:
            n = int(f.split("@")[1].rstrip("*"))
            ok &= n == nxt
            nxt = n + 1
    if not ok:
        print("PROPERTY C06 VIOLATED: not a contiguous chain - fresh D@5 sits between the"
              " retransmissions of 2 and 3 (a peer in RESENDREQ_AWAITING ignores it as too"
              " high, and it is not covered by the reply that ends at 4)")
        sys.exit(1)
    print("ok")


asyncio.run(main())
