"""genuine1: a legal FIX 4.4 application message with a standard repeating group the
library's group table does not know (MarketDataRequest: NoMDEntryTypes(267) /
NoRelatedSym(146)) can never be retransmitted; the ResendRequest reply stops in front of
it and the connection stays in RESENDREQ_HANDLING.

Run (unmodified worktree):  cd WT && PYTHONPATH=WT /venv/bin/python _mutant/genuine1.py
exit 1 = property violated.
"""
import asyncio, logging, sys
from unittest.mock import MagicMock, AsyncMock
from asyncfix import FIXMessage, FMsg, FTag
from asyncfix.connection import AsyncFIXConnection, ConnectionState, ConnectionRole
from asyncfix.journaler import Journaler
from asyncfix.message import MessageDirection
from asyncfix.protocol import FIXProtocol44
from asyncfix.codec import Codec
from asyncfix.session import FIXSession

_log = logging.getLogger("c06probe")
_log.addHandler(logging.NullHandler())
_log.propagate = False


class Conn(AsyncFIXConnection):
    async def on_message(self, msg):
        pass

    async def on_connect(self):
        pass


def make(cls=Conn):
    """Connection in ACTIVE state, in-memory journal, frames written are captured."""
    c = cls(FIXProtocol44(), "US", "PEER", journaler=Journaler(), host="h", port=1,
            logger=_log)
    c.frames = []
    w = MagicMock()
    w.write.side_effect = lambda b: c.frames.append(b)
    w.drain = AsyncMock()
    w.wait_closed = AsyncMock()
    c._socket_writer = w
    c._socket_reader = MagicMock()
    c._connection_state = ConnectionState.ACTIVE
    c._connection_role = ConnectionRole.INITIATOR
    c._connection_was_active = True
    c.peer_codec = Codec(FIXProtocol44())
    c.peer_sess = FIXSession(99, "US", "PEER")  # counterparty: sender=PEER target=US
    c.peer_sess.next_num_out = 1
    c.peer_sess.next_num_in = 1
    return c


async def feed(c, msg):
    """Counterparty sends msg: encoded by an independent codec, decoded and processed
    exactly as socket_read_task does."""
    raw = c.peer_codec.encode(msg, c.peer_sess).encode()
    m, _, r = c._codec.decode(raw)
    assert m is not None
    await c._process_message(m, r)


def show(c):
    """Frames written, e.g. ['GF 1->2', 'D@2*'] (* = PossDupFlag=Y)."""
    out = []
    for f in c.frames:
        m, _, _ = c._codec.decode(f, silent=False)
        if m.msg_type == FMsg.SEQUENCERESET:
            out.append(f"GF {m[34]}->{m[36]}")
        else:
            out.append(f"{m[35]}@{m[34]}{'*' if m.get(43, 'N') == 'Y' else ''}")
    return out


def rr(b, e):
    return FIXMessage(FMsg.RESENDREQUEST, {FTag.BeginSeqNo: b, FTag.EndSeqNo: e})


def order(i):
    return FIXMessage(FMsg.NEWORDERSINGLE, {11: f"ord{i}", 55: "SYM", 54: 1, 38: 10})


async def logon_and_orders(c, n=3):
    """Outbound journal: 1=Logon, 2..n+1 = NewOrderSingle."""
    await c.send_msg(FIXMessage(FMsg.LOGON, {98: 0, 108: 30}))
    for i in range(n):
        await c.send_msg(order(i))
    c.frames.clear()


async def main():
    c = make()
    await logon_and_orders(c, 2)                      # 1 Logon, 2-3 orders
    md = FIXMessage(FMsg.MARKETDATAREQUEST, {262: "req1", 263: 1, 264: 0})
    md.set_group(267, [{269: 0}, {269: 1}])           # bid + offer
    md.set_group(146, [{55: "AAA"}, {55: "BBB"}])
    await c.send_msg(md)                              # 4
    await c.send_msg(order(9))                        # 5
    sent_md = c.frames[0]
    c.frames.clear()
    next_out = c._session.next_num_out

    await feed(c, rr(1, 0))

    got = show(c)
    print("journaled MarketDataRequest:", sent_md)
    print("reply to ResendRequest(1,0):", got)
    print("state afterwards:", c.connection_state.name, " next_num_out:",
          c._session.next_num_out)
    problems = []
    want = ["GF 1->2", "D@2*", "D@3*", "V@4*", "D@5*"]
    if got != want:
        problems.append(f"reply {got} does not cover 1..5, expected {want}")
    if c.connection_state != ConnectionState.ACTIVE:
        problems.append(f"connection_state {c.connection_state.name} != ACTIVE (before)")
    if c._session.next_num_out != next_out:
        problems.append("next_num_out changed")
    if problems:
        print("PROPERTY C06 VIOLATED:")
        for p in problems:
            print("  -", p)
        sys.exit(1)
    print("ok")


asyncio.run(main())
