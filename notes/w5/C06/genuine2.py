"""genuine2: an INVALID ResendRequest (EndSeqNo or BeginSeqNo missing, or not an integer)
leaves the connection in RESENDREQ_HANDLING instead of the state it had before.

Run (unmodified worktree):  cd WT && PYTHONPATH=WT /venv/bin/python _mutant/genuine2.py
exit 1 = property violated.
"""
import asyncio, logging, sys
from unittest.mock import MagicMock, AsyncMock
from asyncfix import FIXMessage, FMsg, FTag
from asyncfix.connection import AsyncFIXConnection, ConnectionState, ConnectionRole
from asyncfix.journaler import Journaler
from asyncfix.message import MessageDirection
from asyncfix.protocol import FIXProtocol44
from asyncfix.codec import Codec
from asyncfix.session import FIXSession

_log = logging.getLogger("c06probe")
_log.addHandler(logging.NullHandler())
_log.propagate = False


class Conn(AsyncFIXConnection):
    async def on_message(self, msg):
        pass

    async def on_connect(self):
        pass


def make(cls=Conn):
    """Connection in ACTIVE state, in-memory journal, frames written are captured."""
    c = cls(FIXProtocol44(), "US", "PEER", journaler=Journaler(), host="h", port=1,
            logger=_log)
    c.frames = []
    w = MagicMock()
    w.write.side_effect = lambda b: c.frames.append(b)
    w.drain = AsyncMock()
    w.wait_closed = AsyncMock()
    c._socket_writer = w
    c._socket_reader = MagicMock()
    c._connection_state = ConnectionState.ACTIVE
    c._connection_role = ConnectionRole.INITIATOR
    c._connection_was_active = True
    c.peer_codec = Codec(FIXProtocol44())
    c.peer_sess = FIXSession(99, "US", "PEER")  # counterparty: sender=PEER target=US
    c.peer_sess.next_num_out = 1
    c.peer_sess.next_num_in = 1
    return c


async def feed(c, msg):
    """Counterparty sends msg: encoded by an independent codec, decoded and processed
    exactly as socket_read_task does."""
    raw = c.peer_codec.encode(msg, c.peer_sess).encode()
    m, _, r = c._codec.decode(raw)
    assert m is not None
    await c._process_message(m, r)


def show(c):
    """Frames written, e.g. ['GF 1->2', 'D@2*'] (* = PossDupFlag=Y)."""
    out = []
    for f in c.frames:
        m, _, _ = c._codec.decode(f, silent=False)
        if m.msg_type == FMsg.SEQUENCERESET:
            out.append(f"GF {m[34]}->{m[36]}")
        else:
            out.append(f"{m[35]}@{m[34]}{'*' if m.get(43, 'N') == 'Y' else ''}")
    return out


def rr(b, e):
    return FIXMessage(FMsg.RESENDREQUEST, {FTag.BeginSeqNo: b, FTag.EndSeqNo: e})


def order(i):
    return FIXMessage(FMsg.NEWORDERSINGLE, {11: f"ord{i}", 55: "SYM", 54: 1, 38: 10})


async def logon_and_orders(c, n=3):
    """Outbound journal: 1=Logon, 2..n+1 = NewOrderSingle."""
    await c.send_msg(FIXMessage(FMsg.LOGON, {98: 0, 108: 30}))
    for i in range(n):
        await c.send_msg(order(i))
    c.frames.clear()


async def main():
    bad = 0
    for tags in ({7: 1}, {16: 0}, {7: "x", 16: 0}, {7: 1, 16: "1.5"}, {7: "", 16: 0}, {}):
        c = make()
        await logon_and_orders(c, 3)
        before = (c.connection_state, c._session.next_num_out)
        await feed(c, FIXMessage(FMsg.RESENDREQUEST, tags))
        after = (c.connection_state, c._session.next_num_out)
        verdict = "ok" if before == after else "VIOLATED"
        bad += before != after
        print(f"ResendRequest tags={tags!s:22} frames={show(c)} state {before[0].name} ->"
              f" {after[0].name}  {verdict}")
    if bad:
        print("PROPERTY C06 VIOLATED: connection state after an invalid request is not"
              " what it was before (stuck in RESENDREQ_HANDLING)")
        sys.exit(1)
    print("ok")


asyncio.run(main())
