"""C12 genuine violation: Heartbeat echoing a different TestReqID string (leading zero, '+', blanks) is accepted.

Run (from the worktree root WT, unmodified or modified tree):
    cd WT && PYTHONPATH=WT /venv/bin/python _mutant/genuine5.py
exit code 1 + message = property violated, exit code 0 = holds.
Stand-alone: virtual-time event loop + fake transport are included below.
"""
import sys
import asyncio
import logging
import time

from asyncfix import FIXMessage, FMsg, FTag
from asyncfix.codec import Codec
from asyncfix.connection import AsyncFIXConnection, ConnectionRole, ConnectionState
from asyncfix.journaler import Journaler
from asyncfix.protocol import FIXProtocol44
from asyncfix.session import FIXSession

T0 = 1_700_000_000.25


class VLoop(asyncio.SelectorEventLoop):
    """Event loop whose clock jumps to the next timer when nothing is runnable."""

    def __init__(self, t0=T0):
        super().__init__()
        self.vt = t0
        self._clock_resolution = 1e-5  # float spacing at 1.7e9 is ~2e-7

    def time(self):
        return self.vt

    def _run_once(self):
        if not self._ready and self._scheduled:
            live = [h._when for h in self._scheduled if not h._cancelled]
            if live and min(live) > self.vt:
                self.vt = min(live)
        super()._run_once()


class Writer:
    def __init__(self, h):
        self.h = h
        self.closed = False
        self.block_drain = False

    def write(self, data):
        self.h.on_wire(data)

    async def drain(self):
        if self.block_drain:
            await asyncio.Event().wait()

    def close(self):
        if not self.closed:
            self.closed = True
            self.h.reader.feed_eof()

    async def wait_closed(self):
        return None

    def get_extra_info(self, *a, **k):
        return None


class App(AsyncFIXConnection):
    def __init__(self, h, hb):
        super().__init__(
            FIXProtocol44(), "INIT", "ACC", Journaler(), "localhost", 1, hb,
            logger=h.log,
        )
        self.h = h

    async def on_connect(self):
        pass

    async def on_message(self, msg):
        await self.h.on_app_message(msg)

    async def on_disconnect(self):
        self.h.events.append((self.h.now(), "on_disconnect"))

    async def on_state_change(self, st):
        self.h.events.append((self.h.now(), "state", st.name))


class Harness:
    def __init__(self, loop, hb, verbose=False):
        self.loop = loop
        self.log = logging.getLogger("vh")
        self.log.setLevel(logging.CRITICAL)
        self.events = []
        self.sent = []  # (t, FIXMessage) written by the connection
        self.verbose = verbose
        self.codec = Codec(FIXProtocol44())
        self.peer_sess = FIXSession(1, "INIT", "ACC")
        self.peer_sess.next_num_out = 1
        self.conn = App(self, hb)
        self.conn._connection_role = ConnectionRole.INITIATOR
        self.testreq_handler = self.answer_testreq  # replaceable
        self.app_delay = 0.0
        self.new_transport()

    def now(self):
        return round(self.loop.time() - T0, 3)

    def new_transport(self):
        self.reader = asyncio.StreamReader()
        self.writer = Writer(self)
        self.conn._socket_reader = self.reader
        self.conn._socket_writer = self.writer
        self.conn._connection_state = ConnectionState.NETWORK_CONN_ESTABLISHED

    # --- wire, connection -> peer
    def on_wire(self, data):
        msg, _, _ = self.codec.decode(data, silent=False)
        self.sent.append((self.now(), msg))
        if self.verbose:
            print(f"  t={self.now():8.3f}  conn -> peer  {msg!r}")
        if msg.msg_type == FMsg.LOGON:
            self.peer_send(FIXMessage(FMsg.LOGON, {98: 0, 108: 30}))
        elif msg.msg_type == FMsg.TESTREQUEST:
            self.testreq_handler(msg)

    def answer_testreq(self, msg, delay=0.0, test_req_id=None):
        tid = msg[FTag.TestReqID] if test_req_id is None else test_req_id
        self.peer_send(FIXMessage(FMsg.HEARTBEAT, {FTag.TestReqID: tid}), delay)

    # --- wire, peer -> connection
    def peer_raw(self, msg):
        return self.codec.encode(msg, self.peer_sess).encode()

    def peer_send(self, msg, delay=0.0):
        def _do():
            if self.writer.closed:
                return
            raw = self.peer_raw(msg)
            if self.verbose:
                print(f"  t={self.now():8.3f}  peer -> conn  {msg!r}")
            self.reader.feed_data(raw)

        if delay:
            self.loop.call_later(delay, _do)
        else:
            self.loop.call_soon(_do)

    async def on_app_message(self, msg):
        if self.app_delay:
            await asyncio.sleep(self.app_delay)

    async def start(self):
        await AsyncFIXConnection.connect(self.conn)
        await self.conn.send_msg(FIXMessage(FMsg.LOGON, {98: 0, 108: 30}))
        await asyncio.sleep(0.01)
        assert self.conn.connection_state == ConnectionState.ACTIVE, self.conn.connection_state

    def testreqs(self):
        return [(t, m) for t, m in self.sent if m.msg_type == FMsg.TESTREQUEST]

    def disconnected_at(self):
        for e in self.events:
            if e[1] == "on_disconnect":
                return e[0]
        return None


def run(main, t0=T0):
    """Runs coroutine function main(loop) in virtual time, time.time() follows the loop."""
    loop = VLoop(t0)
    asyncio.set_event_loop(loop)
    real = time.time
    time.time = loop.time
    try:
        return loop.run_until_complete(main(loop))
    finally:
        time.time = real
        for t in asyncio.all_tasks(loop):
            t.cancel()
        loop.run_until_complete(asyncio.sleep(0))
        loop.close()


# ----------------------------------------------------------------------
# scenario
# ----------------------------------------------------------------------
HB = 5
bad = []


def scenario(fmt):
    async def main(loop):
        h = Harness(loop, HB)
        h.testreq_handler = lambda m: h.answer_testreq(
            m, test_req_id=fmt % m[FTag.TestReqID]
        )
        await h.start()
        await asyncio.sleep(HB * 3)
        sent = [(t, m) for t, m in h.testreqs()]
        logout = [t for t, m in h.sent if m.msg_type == FMsg.LOGOUT]
        return sent[0][1][FTag.TestReqID], logout, h.conn.connection_state

    return run(main)


for fmt in ["0%s", "+%s", " %s", "%s ", "00000%s"]:
    tid, logout, state = scenario(fmt)
    echoed = fmt % tid
    print(f"TestReqID sent {tid!r}, Heartbeat echoes {echoed!r}: Logout sent at"
          f" {logout}, state {state.name}")
    if not logout:
        bad.append(echoed)
if bad:
    print("VIOLATION: Heartbeat with a TestReqID (FIX String) different from the"
          f" one sent was accepted as the answer, no Logout: {bad}")
    sys.exit(1)
print("ok")
