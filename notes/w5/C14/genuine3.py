"""genuine3 - Logon sender suspended in on_state_change while the link goes down (C14).

Run (from the worktree root WT, unmodified tree):
    cd WT && PYTHONPATH=WT /venv/bin/python _mutant/genuine3.py
exit 1 + "PROPERTY VIOLATED" when a MsgSeqNum is consumed and journaled for a frame
that never reaches the transport and the sender gets AttributeError.
"""
import asyncio
import logging
import sys

from asyncfix import FIXMessage, FMsg, FTag
from asyncfix.codec import Codec
from asyncfix.connection import AsyncFIXConnection, ConnectionState
from asyncfix.journaler import Journaler
from asyncfix.message import MessageDirection
from asyncfix.protocol import FIXProtocol44
from asyncfix.session import FIXSession

logging.disable(logging.CRITICAL)


class Writer:
    """Transport double: records frames, drain() blocks while `gate` is closed."""

    def __init__(self):
        self.frames = []
        self.gate = asyncio.Event()
        self.gate.set()

    def write(self, data):
        self.frames.append(data)

    async def drain(self):
        await self.gate.wait()

    def close(self):
        pass

    async def wait_closed(self):
        pass


class Conn(AsyncFIXConnection):
    hook_gate = None

    async def on_message(self, msg):
        pass

    async def on_connect(self):
        pass

    async def on_state_change(self, state):
        if self.hook_gate is not None and state == ConnectionState.LOGON_INITIAL_SENT:
            await self.hook_gate.wait()


def wire(writer):
    out = []
    for f in writer.frames:
        d = dict(x.split(b"=", 1) for x in f.split(b"\x01") if x)
        out.append((d[b"35"].decode(), int(d[b"34"]), d.get(b"43", b"N").decode()))
    return out


def new_conn(journaler=None):
    c = Conn(FIXProtocol44(), "ME", "PEER", journaler or Journaler(), "localhost", 1)
    c._socket_writer = Writer()
    c._socket_reader = object()
    c._connection_state = ConnectionState.NETWORK_CONN_ESTABLISHED
    return c


LOGON = {FTag.EncryptMethod: 0, FTag.HeartBtInt: 30}


async def logon(conn):
    """Initiator Logon handshake with a simulated counterparty -> ACTIVE."""
    codec = Codec(FIXProtocol44())
    peer = FIXSession(1, "ME", "PEER")  # counterparty: sender PEER -> target ME
    peer.next_num_out = peer.next_num_in = 1
    await conn.send_msg(FIXMessage(FMsg.LOGON, LOGON))
    raw = codec.encode(FIXMessage(FMsg.LOGON, LOGON), peer).encode()
    m, _, r = conn._codec.decode(raw)
    await conn._process_message(m, r)
    assert conn.connection_state == ConnectionState.ACTIVE


def outbound_journal(conn):
    return [
        s
        for (s, _, _, _) in conn._journaler.get_all_msgs(
            direction=MessageDirection.OUTBOUND
        )
    ]


async def scenario_logon_hook():
    """Initiator: send_msg(Logon) waits in on_state_change, reader sees EOF."""
    conn = new_conn()
    conn.hook_gate = asyncio.Event()  # application hook on_state_change suspends
    result = {}

    async def app_task():
        try:
            await conn.send_msg(FIXMessage(FMsg.LOGON, LOGON))
            result["app"] = "ok"
        except Exception as exc:
            result["app"] = repr(exc)

    writer = conn._socket_writer
    t = asyncio.create_task(app_task())
    await asyncio.sleep(0)  # send_msg passed its state check, waits in the hook
    # reader task: EOF on the socket -> disconnect(DISCONNECTED_BROKEN_CONN)
    await conn.disconnect(ConnectionState.DISCONNECTED_BROKEN_CONN)
    conn.hook_gate.set()
    await t

    w = wire(writer)
    print("[A] sender:", result["app"])
    print("[A] wire:", w, " journal (outbound):", outbound_journal(conn))
    print(
        "[A] state:", conn.connection_state.name, " next_num_out:",
        conn._session.next_num_out,
    )
    highest = max([n for (_, n, _) in w], default=0)
    return conn._session.next_num_out == highest + 1 and result["app"] == "ok"


async def scenario_zombie_active():
    """Acceptor: reader services Logon (reply waits in drain), heartbeat task
    disconnects; reader resumes and sets ACTIVE on the closed connection."""
    conn = new_conn()
    writer = conn._socket_writer
    writer.gate.clear()
    codec = Codec(FIXProtocol44())
    peer = FIXSession(1, "ME", "PEER")
    peer.next_num_out = peer.next_num_in = 1
    raw = codec.encode(FIXMessage(FMsg.LOGON, LOGON), peer).encode()
    m, _, r = conn._codec.decode(raw)
    reader = asyncio.create_task(conn._process_message(m, r))
    await asyncio.sleep(0)
    await asyncio.sleep(0)  # Logon reply written, reader waits in drain()
    hbt = asyncio.create_task(
        conn.disconnect(ConnectionState.DISCONNECTED_BROKEN_CONN)
    )
    await asyncio.sleep(0)
    writer.gate.set()
    await asyncio.gather(reader, hbt)
    errs = []
    for i in range(2):  # application task sends afterwards
        try:
            await conn.send_msg(FIXMessage(FMsg.NEWS, {FTag.Text: f"x{i}"}))
        except Exception as exc:
            errs.append(repr(exc))
    w = wire(writer)
    print("[B] state:", conn.connection_state.name, " writer:", conn._socket_writer)
    print("[B] senders:", errs)
    print(
        "[B] wire:", w, " journal (outbound):", outbound_journal(conn),
        " next_num_out:", conn._session.next_num_out,
    )
    highest = max([n for (_, n, _) in w], default=0)
    return conn._session.next_num_out == highest + 1 and not errs


async def main():
    ok_a = await scenario_logon_hook()
    ok_b = await scenario_zombie_active()
    if not (ok_a and ok_b):
        print(
            "PROPERTY VIOLATED (C14): MsgSeqNums were allocated and journaled on a"
            " disconnected connection for frames that were never written (stored next"
            " outbound number != highest number sent + 1), senders got AttributeError"
        )
        sys.exit(1)
    print("OK")


asyncio.run(main())
