"""genuine1 - a send that fails after MsgSeqNum allocation burns the number (C14).

Run (from the worktree root WT, unmodified tree):
    cd WT && PYTHONPATH=WT /venv/bin/python _mutant/genuine1.py
exit 1 + "PROPERTY VIOLATED" when the stored next outbound number is not the highest
number sent + 1 after all senders finished.
"""
import asyncio
import logging
import sys

from asyncfix import FIXMessage, FMsg, FTag
from asyncfix.codec import Codec
from asyncfix.connection import AsyncFIXConnection, ConnectionState
from asyncfix.journaler import Journaler
from asyncfix.message import MessageDirection
from asyncfix.protocol import FIXProtocol44
from asyncfix.session import FIXSession

logging.disable(logging.CRITICAL)


class Writer:
    """Transport double: records frames, drain() blocks while `gate` is closed."""

    def __init__(self):
        self.frames = []
        self.gate = asyncio.Event()
        self.gate.set()

    def write(self, data):
        self.frames.append(data)

    async def drain(self):
        await self.gate.wait()

    def close(self):
        pass

    async def wait_closed(self):
        pass


class Conn(AsyncFIXConnection):
    hook_gate = None

    async def on_message(self, msg):
        pass

    async def on_connect(self):
        pass

    async def on_state_change(self, state):
        if self.hook_gate is not None and state == ConnectionState.LOGON_INITIAL_SENT:
            await self.hook_gate.wait()


def wire(writer):
    out = []
    for f in writer.frames:
        d = dict(x.split(b"=", 1) for x in f.split(b"\x01") if x)
        out.append((d[b"35"].decode(), int(d[b"34"]), d.get(b"43", b"N").decode()))
    return out


def new_conn(journaler=None):
    c = Conn(FIXProtocol44(), "ME", "PEER", journaler or Journaler(), "localhost", 1)
    c._socket_writer = Writer()
    c._socket_reader = object()
    c._connection_state = ConnectionState.NETWORK_CONN_ESTABLISHED
    return c


LOGON = {FTag.EncryptMethod: 0, FTag.HeartBtInt: 30}


async def logon(conn):
    """Initiator Logon handshake with a simulated counterparty -> ACTIVE."""
    codec = Codec(FIXProtocol44())
    peer = FIXSession(1, "ME", "PEER")  # counterparty: sender PEER -> target ME
    peer.next_num_out = peer.next_num_in = 1
    await conn.send_msg(FIXMessage(FMsg.LOGON, LOGON))
    raw = codec.encode(FIXMessage(FMsg.LOGON, LOGON), peer).encode()
    m, _, r = conn._codec.decode(raw)
    await conn._process_message(m, r)
    assert conn.connection_state == ConnectionState.ACTIVE


def outbound_journal(conn):
    return [
        s
        for (s, _, _, _) in conn._journaler.get_all_msgs(
            direction=MessageDirection.OUTBOUND
        )
    ]


class FlakyJournaler(Journaler):
    """sqlite fault: the n-th outbound INSERT fails (disk full / database locked)."""

    fail_next = False

    def persist_msg(self, msg, session, direction):
        if self.fail_next and direction == MessageDirection.OUTBOUND:
            self.fail_next = False
            import sqlite3

            raise sqlite3.OperationalError("database or disk is full")
        return super().persist_msg(msg, session, direction)


async def scenario(name, bad_send):
    j = FlakyJournaler()
    conn = new_conn(j)
    await logon(conn)
    results = []

    async def sender(coro):
        try:
            await coro
            results.append("ok")
        except Exception as exc:
            results.append(type(exc).__name__)

    # two application tasks: one good message, one message the codec / journal rejects
    await asyncio.gather(
        sender(conn.send_msg(FIXMessage(FMsg.NEWS, {FTag.Text: "good"}))),
        sender(bad_send(conn, j)),
    )
    w = wire(conn._socket_writer)
    highest = max(n for (_, n, pd) in w if pd != "Y")
    mem = conn._session.next_num_out
    stored = j.create_or_load("PEER", "ME").next_num_out
    print(f"[{name}] senders: {results}  wire: {w}")
    print(
        f"[{name}] highest sent={highest}  next_num_out in memory={mem}"
        f"  stored in journal={stored}  journal rows={outbound_journal(conn)}"
    )
    return mem == highest + 1 and stored == highest + 1


async def main():
    from asyncfix.errors import RepeatingTagError

    async def surrogate(conn, j):
        # text with a lone surrogate (e.g. from json "\ud83d" or surrogateescape)
        await conn.send_msg(FIXMessage(FMsg.NEWS, {FTag.Text: "bad \ud83d text"}))

    async def repeated_tag(conn, j):
        # tags copied from a decoded message: the codec marks a repeated tag of an
        #  unknown repeating group with the RepeatingTagError class as its value
        msg = FIXMessage(FMsg.NEWS, {FTag.Text: "fwd"})
        msg.set(FTag.Symbol, RepeatingTagError)
        await conn.send_msg(msg)

    async def sqlite_fault(conn, j):
        j.fail_next = True
        await conn.send_msg(FIXMessage(FMsg.NEWS, {FTag.Text: "journal fails"}))

    ok = True
    for name, bad in [
        ("lone surrogate", surrogate),
        ("RepeatingTagError value", repeated_tag),
        ("sqlite OperationalError", sqlite_fault),
    ]:
        ok = await scenario(name, bad) and ok

    if not ok:
        print(
            "PROPERTY VIOLATED (C14): after the tasks finished the stored next outbound"
            " number is not the highest number sent + 1 (a MsgSeqNum was consumed by a"
            " send that raised before anything was journaled or written; memory and"
            " journal disagree)"
        )
        sys.exit(1)
    print("OK")


asyncio.run(main())
