"""genuine2 - SequenceReset / PossDup sent with the public send_msg() (C14).

Run (from the worktree root WT, unmodified tree):
    cd WT && PYTHONPATH=WT /venv/bin/python _mutant/genuine2.py
exit 1 + "PROPERTY VIOLATED" when a concurrent sender gets DuplicateSeqNoError.
"""
import asyncio
import logging
import sys

from asyncfix import FIXMessage, FMsg, FTag
from asyncfix.codec import Codec
from asyncfix.connection import AsyncFIXConnection, ConnectionState
from asyncfix.journaler import Journaler
from asyncfix.message import MessageDirection
from asyncfix.protocol import FIXProtocol44
from asyncfix.session import FIXSession

logging.disable(logging.CRITICAL)


class Writer:
    """Transport double: records frames, drain() blocks while `gate` is closed."""

    def __init__(self):
        self.frames = []
        self.gate = asyncio.Event()
        self.gate.set()

    def write(self, data):
        self.frames.append(data)

    async def drain(self):
        await self.gate.wait()

    def close(self):
        pass

    async def wait_closed(self):
        pass


class Conn(AsyncFIXConnection):
    hook_gate = None

    async def on_message(self, msg):
        pass

    async def on_connect(self):
        pass

    async def on_state_change(self, state):
        if self.hook_gate is not None and state == ConnectionState.LOGON_INITIAL_SENT:
            await self.hook_gate.wait()


def wire(writer):
    out = []
    for f in writer.frames:
        d = dict(x.split(b"=", 1) for x in f.split(b"\x01") if x)
        out.append((d[b"35"].decode(), int(d[b"34"]), d.get(b"43", b"N").decode()))
    return out


def new_conn(journaler=None):
    c = Conn(FIXProtocol44(), "ME", "PEER", journaler or Journaler(), "localhost", 1)
    c._socket_writer = Writer()
    c._socket_reader = object()
    c._connection_state = ConnectionState.NETWORK_CONN_ESTABLISHED
    return c


LOGON = {FTag.EncryptMethod: 0, FTag.HeartBtInt: 30}


async def logon(conn):
    """Initiator Logon handshake with a simulated counterparty -> ACTIVE."""
    codec = Codec(FIXProtocol44())
    peer = FIXSession(1, "ME", "PEER")  # counterparty: sender PEER -> target ME
    peer.next_num_out = peer.next_num_in = 1
    await conn.send_msg(FIXMessage(FMsg.LOGON, LOGON))
    raw = codec.encode(FIXMessage(FMsg.LOGON, LOGON), peer).encode()
    m, _, r = conn._codec.decode(raw)
    await conn._process_message(m, r)
    assert conn.connection_state == ConnectionState.ACTIVE


def outbound_journal(conn):
    return [
        s
        for (s, _, _, _) in conn._journaler.get_all_msgs(
            direction=MessageDirection.OUTBOUND
        )
    ]


async def main():
    conn = new_conn()
    await logon(conn)
    await conn.send_msg(FIXMessage(FMsg.NEWS, {FTag.Text: "n1"}))
    results = {}

    async def admin_task():
        # application level SequenceReset-Reset (FIX 4.4: GapFillFlag absent / N), the
        #  codec demands that the application populates MsgSeqNum itself
        n = conn._session.next_num_out
        msg = FIXMessage(
            FMsg.SEQUENCERESET, {FTag.MsgSeqNum: n, FTag.NewSeqNo: n + 10}
        )
        try:
            await conn.send_msg(msg)
            results["admin"] = "ok"
        except Exception as exc:
            results["admin"] = repr(exc)

    async def app_task():
        await asyncio.sleep(0)
        try:
            await conn.send_msg(FIXMessage(FMsg.NEWS, {FTag.Text: "n2"}))
            results["app"] = "ok"
        except Exception as exc:
            results["app"] = repr(exc)

    async def resend_task():
        # manual retransmission of an already sent message (PossDupFlag=Y, own number)
        await asyncio.sleep(0)
        msg = FIXMessage(
            FMsg.NEWS, {FTag.Text: "n1", FTag.PossDupFlag: "Y", FTag.MsgSeqNum: 2}
        )
        try:
            await conn.send_msg(msg)
            results["resend"] = "ok"
        except Exception as exc:
            results["resend"] = repr(exc)

    conn._socket_writer.gate.clear()  # back-pressure: tasks overlap in drain()
    tasks = [asyncio.create_task(t()) for t in (admin_task, app_task, resend_task)]
    await asyncio.sleep(0.01)
    conn._socket_writer.gate.set()
    await asyncio.gather(*tasks)

    print("wire:", wire(conn._socket_writer))
    print("journal (outbound):", outbound_journal(conn))
    print("next_num_out:", conn._session.next_num_out)
    for k, v in results.items():
        print(f"  {k}: {v}")
    if any("DuplicateSeqNoError" in v for v in results.values()):
        print(
            "PROPERTY VIOLATED (C14): a sender received DuplicateSeqNoError (frame not"
            " journaled under its number / number taken twice)"
        )
        sys.exit(1)
    print("OK")


asyncio.run(main())
