"""
genuine6: send_msg() of a message that cannot be encoded (text with a lone
surrogate, e.g. a file name decoded with surrogateescape) raises AFTER the
outbound MsgSeqNum was allocated: live counter is ahead of the stored one at a
quiescent point (a restart changes it), and without restart the next message
skips a number, so the peer must answer with ResendRequest though nothing was lost.

Run (unmodified tree):  cd WT && PYTHONPATH=WT /venv/bin/python _mutant/genuine6.py
Exit 1 + message = property C09 violated, exit 0 = holds.
"""
import asyncio
import logging
import os
import sqlite3
import sys
import tempfile
from unittest.mock import AsyncMock, MagicMock

from asyncfix import FIXMessage, FMsg, FTag
from asyncfix.codec import Codec
from asyncfix.connection import AsyncFIXConnection, ConnectionState
from asyncfix.journaler import Journaler
from asyncfix.protocol import FIXProtocol44
from asyncfix.session import FIXSession

logging.disable(logging.CRITICAL)


class Kill(BaseException):
    """Simulated death of the process (SIGKILL / power loss)."""


class ConnProxy:
    """sqlite connection proxy: the process dies right AFTER the n-th commit."""

    def __init__(self, real):
        self.real, self.kill_after, self.dead = real, None, False

    def arm(self, n):
        self.kill_after = n

    def commit(self):
        if self.dead:
            raise Kill()
        self.real.commit()
        if self.kill_after is not None:
            self.kill_after -= 1
            if self.kill_after == 0:
                self.dead = True
                raise Kill()

    def __getattr__(self, k):
        return getattr(self.real, k)


class CurProxy:
    def __init__(self, real, cp):
        self.real, self.cp = real, cp

    def execute(self, *a):
        if self.cp.dead:
            raise Kill()
        return self.real.execute(*a)

    def __iter__(self):
        return iter(self.real)

    def __next__(self):
        return next(self.real)

    def __getattr__(self, k):
        return getattr(self.real, k)


class App(AsyncFIXConnection):
    def __init__(self, *a, **k):
        super().__init__(*a, **k)
        self.app_msgs = []  # what on_message got
        self.wire = []  # decoded frames handed to the transport

    async def on_message(self, msg):
        self.app_msgs.append(msg)

    async def on_connect(self):
        pass


def new_endpoint(path, sender="INITIATOR", target="ACCEPTOR"):
    """Connection object over the journal file `path` with a mocked transport."""
    j = Journaler(path)
    cp = ConnProxy(j.conn)
    j.cursor = CurProxy(j.cursor, cp)
    j._real_conn, j.conn = j.conn, cp
    c = App(FIXProtocol44(), sender, target, journaler=j, host="localhost", port=1)
    c._connection_state = ConnectionState.NETWORK_CONN_ESTABLISHED
    w = MagicMock()
    codec = Codec(FIXProtocol44())
    w.write.side_effect = lambda d: c.wire.append(codec.decode(d, silent=False)[0])
    w.drain = AsyncMock()
    w.wait_closed = AsyncMock()
    c._socket_writer = w
    c._socket_reader = MagicMock()
    return c, j, cp


class Peer:
    """Scripted counterparty: encodes frames with its own outbound counter."""

    def __init__(self, sender="ACCEPTOR", target="INITIATOR", next_out=1):
        self.s = FIXSession(1, target, sender)
        self.s.next_num_out, self.s.next_num_in = next_out, 1
        self.codec = Codec(FIXProtocol44())

    def frame(self, msg, raw_seq=None):
        if raw_seq is not None:
            msg[FTag.MsgSeqNum] = raw_seq
        raw = self.codec.encode(msg, self.s, raw_seq_num=raw_seq is not None).encode()
        dec, _, rawb = self.codec.decode(raw, silent=False)
        return dec, rawb


async def feed(conn, peer, msg, raw_seq=None):
    """Frame `msg` as the peer and give it to the connection as received."""
    dec, raw = peer.frame(msg, raw_seq)
    await conn._process_message(dec, raw)


def logon():
    return FIXMessage(FMsg.LOGON, {FTag.EncryptMethod: 0, FTag.HeartBtInt: 30})


def app(i):
    return FIXMessage(FMsg.NEWORDERSINGLE, {FTag.ClOrdID: f"o{i}", FTag.Symbol: "X"})


def stored(path, sender="INITIATOR", target="ACCEPTOR"):
    """(next_num_in, next_num_out) a new object would load from the journal."""
    con = sqlite3.connect(path)
    row = con.execute(
        "SELECT inboundSeqNo, outboundSeqNo FROM session WHERE targetCompId=? AND"
        " senderCompId=?",
        (target, sender),
    ).fetchone()
    con.close()
    return row[0] + 1, row[1] + 1


def tmpdb():
    return os.path.join(tempfile.mkdtemp(prefix="c09_"), "j.db")


def wire(c):
    return [(m.msg_type.name if hasattr(m.msg_type, "name") else m.msg_type, int(m[34])) for m in c.wire]


async def start(p, n_app=3):
    """Logon + n_app application messages from the peer (MsgSeqNum 2..)."""
    c, j, cp = new_endpoint(p)
    peer = Peer()
    await c.send_msg(logon())
    await feed(c, peer, logon())
    for i in range(n_app):
        await feed(c, peer, app(i))
    return c, j, cp, peer


async def main():
    p = tmpdb()
    c, j, cp, peer = await start(p, n_app=0)  # out: Logon 1 -> next_num_out 2
    m = app(1)
    m[FTag.Text] = os.fsdecode(b"caf\xe9.csv")  # 'caf\udce9.csv'
    try:
        await c.send_msg(m)
    except UnicodeEncodeError as e:
        print("send_msg raised:", type(e).__name__)
    live, st = c._session.next_num_out, stored(p)[1]
    await c.send_msg(app(2))
    print(f"after the failed send: live next_num_out={live} stored={st};"
          f" frames on the wire {wire(c)}")
    bad = []
    if live != st:
        bad.append(f"live outbound counter {live} != stored {st} at a quiescent point")
    if [n for _, n in wire(c)] != [1, 2]:
        bad.append(f"outbound MsgSeqNums on the wire {[n for _, n in wire(c)]}: 2 was"
                   " never sent, the peer has to send ResendRequest(2)")
    for b in bad:
        print("VIOLATION:", b)
    return 1 if bad else 0


sys.exit(asyncio.run(main()))
