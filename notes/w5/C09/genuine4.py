"""
genuine4: application sends SequenceReset through the public send_msg() (as
tests/test_connection.py::test_sequence_reset_request__no_gap does): the journal
stores the reset's own MsgSeqNum as outbound counter, the live counter does not
move -> live != stored at a quiescent point, a restart changes the counter, and
without restart the next send collides with the journaled reset and is lost.

Run (unmodified tree):  cd WT && PYTHONPATH=WT /venv/bin/python _mutant/genuine4.py
Exit 1 + message = property C09 violated, exit 0 = holds.
"""
import asyncio
import logging
import os
import sqlite3
import sys
import tempfile
from unittest.mock import AsyncMock, MagicMock

from asyncfix import FIXMessage, FMsg, FTag
from asyncfix.codec import Codec
from asyncfix.connection import AsyncFIXConnection, ConnectionState
from asyncfix.journaler import Journaler
from asyncfix.protocol import FIXProtocol44
from asyncfix.session import FIXSession

logging.disable(logging.CRITICAL)


class Kill(BaseException):
    """Simulated death of the process (SIGKILL / power loss)."""


class ConnProxy:
    """sqlite connection proxy: the process dies right AFTER the n-th commit."""

    def __init__(self, real):
        self.real, self.kill_after, self.dead = real, None, False

    def arm(self, n):
        self.kill_after = n

    def commit(self):
        if self.dead:
            raise Kill()
        self.real.commit()
        if self.kill_after is not None:
            self.kill_after -= 1
            if self.kill_after == 0:
                self.dead = True
                raise Kill()

    def __getattr__(self, k):
        return getattr(self.real, k)


class CurProxy:
    def __init__(self, real, cp):
        self.real, self.cp = real, cp

    def execute(self, *a):
        if self.cp.dead:
            raise Kill()
        return self.real.execute(*a)

    def __iter__(self):
        return iter(self.real)

    def __next__(self):
        return next(self.real)

    def __getattr__(self, k):
        return getattr(self.real, k)


class App(AsyncFIXConnection):
    def __init__(self, *a, **k):
        super().__init__(*a, **k)
        self.app_msgs = []  # what on_message got
        self.wire = []  # decoded frames handed to the transport

    async def on_message(self, msg):
        self.app_msgs.append(msg)

    async def on_connect(self):
        pass


def new_endpoint(path, sender="INITIATOR", target="ACCEPTOR"):
    """Connection object over the journal file `path` with a mocked transport."""
    j = Journaler(path)
    cp = ConnProxy(j.conn)
    j.cursor = CurProxy(j.cursor, cp)
    j._real_conn, j.conn = j.conn, cp
    c = App(FIXProtocol44(), sender, target, journaler=j, host="localhost", port=1)
    c._connection_state = ConnectionState.NETWORK_CONN_ESTABLISHED
    w = MagicMock()
    codec = Codec(FIXProtocol44())
    w.write.side_effect = lambda d: c.wire.append(codec.decode(d, silent=False)[0])
    w.drain = AsyncMock()
    w.wait_closed = AsyncMock()
    c._socket_writer = w
    c._socket_reader = MagicMock()
    return c, j, cp


class Peer:
    """Scripted counterparty: encodes frames with its own outbound counter."""

    def __init__(self, sender="ACCEPTOR", target="INITIATOR", next_out=1):
        self.s = FIXSession(1, target, sender)
        self.s.next_num_out, self.s.next_num_in = next_out, 1
        self.codec = Codec(FIXProtocol44())

    def frame(self, msg, raw_seq=None):
        if raw_seq is not None:
            msg[FTag.MsgSeqNum] = raw_seq
        raw = self.codec.encode(msg, self.s, raw_seq_num=raw_seq is not None).encode()
        dec, _, rawb = self.codec.decode(raw, silent=False)
        return dec, rawb


async def feed(conn, peer, msg, raw_seq=None):
    """Frame `msg` as the peer and give it to the connection as received."""
    dec, raw = peer.frame(msg, raw_seq)
    await conn._process_message(dec, raw)


def logon():
    return FIXMessage(FMsg.LOGON, {FTag.EncryptMethod: 0, FTag.HeartBtInt: 30})


def app(i):
    return FIXMessage(FMsg.NEWORDERSINGLE, {FTag.ClOrdID: f"o{i}", FTag.Symbol: "X"})


def stored(path, sender="INITIATOR", target="ACCEPTOR"):
    """(next_num_in, next_num_out) a new object would load from the journal."""
    con = sqlite3.connect(path)
    row = con.execute(
        "SELECT inboundSeqNo, outboundSeqNo FROM session WHERE targetCompId=? AND"
        " senderCompId=?",
        (target, sender),
    ).fetchone()
    con.close()
    return row[0] + 1, row[1] + 1


def tmpdb():
    return os.path.join(tempfile.mkdtemp(prefix="c09_"), "j.db")


def wire(c):
    return [(m.msg_type.name if hasattr(m.msg_type, "name") else m.msg_type, int(m[34])) for m in c.wire]


async def start(p, n_app=3):
    """Logon + n_app application messages from the peer (MsgSeqNum 2..)."""
    c, j, cp = new_endpoint(p)
    peer = Peer()
    await c.send_msg(logon())
    await feed(c, peer, logon())
    for i in range(n_app):
        await feed(c, peer, app(i))
    return c, j, cp, peer


async def main():
    p = tmpdb()
    c, j, cp, peer = await start(p, n_app=0)  # out: Logon 1 -> next_num_out 2
    assert (c._session.next_num_out, stored(p)[1]) == (2, 2)
    rs = FIXMessage(
        FMsg.SEQUENCERESET,
        {FTag.NewSeqNo: 10, FTag.MsgSeqNum: c._session.next_num_out},
    )
    await c.send_msg(rs)
    live, st = c._session.next_num_out, stored(p)[1]
    print(f"after send_msg(SequenceReset 34=2 NewSeqNo=10): live next_num_out={live}"
          f" stored={st}")
    bad = []
    if live != st:
        bad.append(f"live outbound counter {live} != stored {st} at a quiescent point")
    c2, _, _ = new_endpoint(tmpdb_copy(p))
    if c2._session.next_num_out != live:
        bad.append(
            f"restart here: new object has next_num_out={c2._session.next_num_out},"
            f" old object held {live}"
        )
    # old object goes on: next application message
    try:
        await c.send_msg(app(1))
    except Exception as e:
        print("send_msg(app) raised:", type(e).__name__, e)
        bad.append(
            "next application message got the MsgSeqNum of the SequenceReset frame"
            " and was dropped (DuplicateSeqNoError), frames on the wire: "
            f"{wire(c)}"
        )
    for b in bad:
        print("VIOLATION:", b)
    return 1 if bad else 0


def tmpdb_copy(p):
    import shutil

    q = tmpdb()
    shutil.copy(p, q)
    return q


sys.exit(asyncio.run(main()))
