"""
genuine7: graceful stop at a quiescent point against a FIX-conforming peer (which
acknowledges Logout with its own Logout, FIX 4.4 session spec): disconnect() stops
reading before it sends Logout, so the acknowledgement is never counted; the next
incarnation answers the peer's Logon with ResendRequest although the peer did
everything by the book and no application message was lost.  Real TCP, no mocks.

Run (unmodified tree):  cd WT && PYTHONPATH=WT /venv/bin/python _mutant/genuine7.py
Exit 1 + message = property C09 violated, exit 0 = holds.
"""
import asyncio
import logging
import os
import sys
import tempfile

from asyncfix import FIXMessage, FMsg, FTag
from asyncfix.codec import Codec
from asyncfix.connection import ConnectionState
from asyncfix.connection_client import AsyncFIXClient
from asyncfix.journaler import Journaler
from asyncfix.protocol import FIXProtocol44
from asyncfix.session import FIXSession

logging.disable(logging.CRITICAL)


class ConformingPeer:
    """Minimal acceptor: Logon -> Logon, Logout -> Logout (ack) and close."""

    def __init__(self):
        self.s = FIXSession(1, "INITIATOR", "ACCEPTOR")
        self.s.next_num_out, self.s.next_num_in = 1, 1
        self.codec = Codec(FIXProtocol44())
        self.received = []  # (msgtype, seq) over all connections

    def send(self, writer, msg):
        writer.write(self.codec.encode(msg, self.s).encode())

    async def handle(self, reader, writer):
        buf = b""
        try:
            while True:
                data = await reader.read(4096)
                if not data:
                    break
                buf += data
                while True:
                    msg, n, _ = self.codec.decode(buf)
                    buf = buf[n:]
                    if msg is None:
                        break
                    seq = int(msg[FTag.MsgSeqNum])
                    self.received.append((msg.msg_type, seq))
                    if seq == self.s.next_num_in:
                        self.s.next_num_in += 1
                    if msg.msg_type == FMsg.LOGON:
                        self.send(
                            writer,
                            FIXMessage(
                                FMsg.LOGON, {FTag.EncryptMethod: 0, FTag.HeartBtInt: 30}
                            ),
                        )
                    elif msg.msg_type == FMsg.LOGOUT:
                        self.send(writer, FIXMessage(FMsg.LOGOUT))  # the ack
                        await writer.drain()
                        writer.close()
                        return
                    await writer.drain()
        except ConnectionError:
            pass


class Client(AsyncFIXClient):
    async def on_connect(self):
        await self.send_msg(
            FIXMessage(FMsg.LOGON, {FTag.EncryptMethod: 0, FTag.HeartBtInt: 30})
        )

    async def on_message(self, msg):
        pass


async def wait_for(cond, t=5.0):
    for _ in range(int(t / 0.02)):
        if cond():
            return True
        await asyncio.sleep(0.02)
    return False


async def stop_tasks(c):
    for t in (c._aio_task_socket_read, c._aio_task_heartbeat):
        if t:
            t.cancel()
    await asyncio.sleep(0.05)


async def main():
    path = os.path.join(tempfile.mkdtemp(prefix="c09_"), "j.db")
    peer = ConformingPeer()
    server = await asyncio.start_server(peer.handle, "127.0.0.1", 0)
    port = server.sockets[0].getsockname()[1]

    c1 = Client(FIXProtocol44(), "INITIATOR", "ACCEPTOR", Journaler(path), "127.0.0.1", port)
    await c1.connect()
    assert await wait_for(lambda: c1.connection_state == ConnectionState.ACTIVE)
    # quiescent: graceful stop
    await c1.disconnect(ConnectionState.DISCONNECTED_WCONN_TODAY, logout_message="")
    await asyncio.sleep(0.3)
    await stop_tasks(c1)
    print(f"old object: next_num_in={c1._session.next_num_in} next_num_out="
          f"{c1._session.next_num_out}; peer: next out {peer.s.next_num_out}"
          f" (Logon 1, Logout ack 2), next in {peer.s.next_num_in}")
    del c1

    n0 = len(peer.received)
    c2 = Client(FIXProtocol44(), "INITIATOR", "ACCEPTOR", Journaler(path), "127.0.0.1", port)
    await c2.connect()
    await wait_for(lambda: len(peer.received) >= n0 + 2, 2.0)
    got = peer.received[n0:]
    await stop_tasks(c2)
    server.close()
    print("frames of the new incarnation seen by the peer:", [(str(t), s) for t, s in got])
    if any(t == FMsg.RESENDREQUEST for t, _ in got):
        print("VIOLATION: ResendRequest after graceful stop + restart + Logon; the"
              " peer's Logout acknowledgement (34=2) was never read/counted")
        return 1
    return 0


sys.exit(asyncio.run(main()))
