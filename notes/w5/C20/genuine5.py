"""genuine5: clean script "logon, test request, logout" - the initiator driven against the simulated acceptor
is handed a frame (and logs an error) after it has closed its socket; against a real acceptor it is not.

run:  cd WT && PYTHONPATH=WT /venv/bin/python _mutant/genuine5.py     (exit 1 = property violated, takes ~3 s)
"""
import asyncio, logging, os, socket, sys
from asyncfix import (AsyncFIXClient, AsyncFIXConnection, AsyncFIXDummyServer, ConnectionState, FIXMessage,
                      FIXTester, FMsg, Journaler)
from asyncfix.protocol import FIXProtocol44


class Rec:
    """Initiator side recorder: frames handed to the connection, states, error log records."""
    def rec_init(self):
        self.frames, self.states, self.errors = [], [], []
        h = logging.Handler(level=logging.ERROR)
        h.emit = lambda r: self.errors.append(r.getMessage().split("\n")[0])
        self.log = logging.Logger("ini"); self.log.addHandler(h)
    async def on_connect(self): pass
    async def on_message(self, msg): pass
    async def on_state_change(self, s): self.states.append(s.name)
    async def _process_message(self, msg, raw):
        self.frames.append((str(msg.msg_type), msg["34"], self.connection_state.name))
        await super()._process_message(msg, raw)
    def view(self):
        return dict(frames=self.frames, states=self.states, errors=self.errors, state=self.connection_state.name,
                    counters=(self._session.next_num_in, self._session.next_num_out))

class Cli(Rec, AsyncFIXClient): pass
class Conn(Rec, AsyncFIXConnection): pass
class Srv(AsyncFIXDummyServer):
    async def on_connect(self): pass
    async def on_message(self, msg): pass

def logon(): return FIXMessage(FMsg.LOGON, {98: 0, 108: 30})

async def script(ini, pump):
    await ini.send_msg(logon()); await pump()
    await ini.send_test_req()                                  # test request ...
    await ini.disconnect(ConnectionState.DISCONNECTED_WCONN_TODAY, logout_message="bye")   # ... logout
    await pump()

async def real():
    s = socket.socket(); s.bind(("127.0.0.1", 0)); port = s.getsockname()[1]; s.close()
    silent = logging.Logger("acc"); silent.addHandler(logging.NullHandler())
    srv = Srv(FIXProtocol44(), "ACC", "INI", Journaler(), "127.0.0.1", port, logger=silent)
    cli = Cli(FIXProtocol44(), "INI", "ACC", Journaler(), "127.0.0.1", port); cli.rec_init()
    asyncio.create_task(srv.connect()); await asyncio.sleep(0.2)
    await cli.connect(); await asyncio.sleep(1.3)              # reader tasks look for the socket once per second
    async def pump(): await asyncio.sleep(0.3)
    await script(cli, pump)
    return cli.view()

async def sim():
    conn = Conn(FIXProtocol44(), "INI", "ACC", Journaler(), "127.0.0.1", 1); conn.rec_init()
    conn._connection_state = ConnectionState.NETWORK_CONN_ESTABLISHED
    ft = FIXTester(connection=conn)
    async def pump():
        while ft.acceptor_rcv_que:
            await ft.process_msg_acceptor()
    await script(conn, pump)
    return conn.view()

async def main():
    a = await asyncio.wait_for(real(), 20)
    b = await sim()
    rc = 0
    for k in a:
        if a[k] != b[k]:
            rc = 1
            print(f"DIFFERENT {k}:\n   real acceptor     : {a[k]}\n   simulated acceptor: {b[k]}")
        else:
            print(f"same      {k}: {a[k]}")
    if rc:
        print("PROPERTY VIOLATED: initiator does not see the same frames against FIXTester as against a real acceptor")
    return rc

loop = asyncio.new_event_loop()
rc = loop.run_until_complete(main())
sys.stdout.flush()
os._exit(rc)   # server task / sockets are left behind on purpose
