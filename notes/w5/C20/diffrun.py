import asyncio, sys, random, os
sys.path.insert(0, os.path.dirname(__file__))
import diffh
from asyncfix import FIXMessage, FMsg
async def hook(c):
    await c.send_msg(diffh.app_i(99))
async def main():
    bad = 0
    random.seed(int(sys.argv[1]) if len(sys.argv) > 1 else 1)
    cases = []
    for i in range(int(sys.argv[2]) if len(sys.argv) > 2 else 6):
        body = [random.choice(["IA", "AA", "IT", "AT", "IH", "AH"]) for _ in range(random.randint(1, 5))]
        end = random.choice(["IO", "AO", "ID", "AD"])
        kw = {}
        if random.random() < .5: kw["on_logon_hook"] = hook
        if random.random() < .5: kw["seq"] = (random.randint(1, 50), random.randint(1, 50))
        if random.random() < .3: kw["hb"] = random.choice([1000, 5, 77])
        cases.append((["IL"] + body + [end], kw))
    for sc, kw in cases:
        d, a, b = await diffh.compare(sc, **kw)
        print(" ".join(sc), {k: (v if k != "on_logon_hook" else "hook") for k, v in kw.items()}, "DIFF" if d else "same", d)
        for k in d:
            print("  real:", a[k]); print("  sim :", b[k]); bad += 1
    return bad
rc = asyncio.run(main()); sys.stdout.flush(); os._exit(1 if rc else 0)
