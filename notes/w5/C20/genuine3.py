"""genuine3: OrdStatus / price arguments accepted by the helper that are not FIX 4.4 values.

run:  cd WT && PYTHONPATH=WT /venv/bin/python _mutant/genuine3.py     (exit 1 = property violated)
"""
import os, sys, xml.etree.ElementTree as ET
from math import nan
from asyncfix import FIXTester
from asyncfix.protocol import FIXSchema
from asyncfix.protocol.common import FExecType, FOrdSide, FOrdStatus, FOrdType
from asyncfix.protocol.order_single import FIXNewOrderSingle

WT = os.path.dirname(os.path.dirname(os.path.abspath(__file__)))
SCHEMA = FIXSchema(ET.parse(os.path.join(WT, "tests", "FIX44.xml")))
bad = []

def check(name, m):
    try:
        SCHEMA.validate(m)
    except Exception as exc:
        bad.append(f"{name}: {exc}")

def mk(price=100.0, ord_type=FOrdType.LIMIT):
    ft = FIXTester()
    o = FIXNewOrderSingle("c1", "SYM", FOrdSide.BUY, price, 10, ord_type=ord_type)
    o.new_req()
    ft.order_register_single(o)
    return ft, o

ft, o = mk()
# every member of the helper's own FOrdStatus enum is accepted, CREATED ('Z') is not a FIX value
check("exec report OrdStatus=FOrdStatus.CREATED",
      ft.fix_exec_report_msg(o, o.clord_id, FExecType.NEW, FOrdStatus.CREATED, cum_qty=0, leaves_qty=10))
o.process_execution_report(ft.fix_exec_report_msg(o, o.clord_id, FExecType.NEW, FOrdStatus.NEW, cum_qty=0, leaves_qty=10))
check("cancel reject OrdStatus=FOrdStatus.CREATED", ft.fix_cxlrep_reject_msg(ft.fix_cxl_request(o), FOrdStatus.CREATED))
ft, o = mk()
check("avg_price=nan (default of the order object's avg_px)",
      ft.fix_exec_report_msg(o, o.clord_id, FExecType.NEW, FOrdStatus.NEW, cum_qty=0, leaves_qty=10, avg_price=o.avg_px))
ft, o = mk(price=nan, ord_type=FOrdType.MARKET)
check("market order created with price=nan",
      ft.fix_exec_report_msg(o, o.clord_id, FExecType.NEW, FOrdStatus.NEW, cum_qty=0, leaves_qty=10))
if bad:
    print("PROPERTY VIOLATED (accepted argument combinations give reports outside the FIX 4.4 dictionary):")
    print("\n".join("  - " + b for b in bad))
    sys.exit(1)
print("ok")
