"""genuine4: OrderID of a cancel reject differs from the OrderID of the execution reports of the same order.

run:  cd WT && PYTHONPATH=WT /venv/bin/python _mutant/genuine4.py     (exit 1 = property violated)
"""
import os, sys, xml.etree.ElementTree as ET
from asyncfix import FIXTester
from asyncfix.protocol import FIXSchema
from asyncfix.protocol.common import FExecType, FOrdSide, FOrdStatus
from asyncfix.protocol.order_single import FIXNewOrderSingle

WT = os.path.dirname(os.path.dirname(os.path.abspath(__file__)))
ft = FIXTester(FIXSchema(ET.parse(os.path.join(WT, "tests", "FIX44.xml"))))
o = FIXNewOrderSingle("c1", "SYM", FOrdSide.BUY, 100.0, 10)
o.new_req()
ft.order_register_single(o)
ack = ft.fix_exec_report_msg(o, o.clord_id, FExecType.NEW, FOrdStatus.NEW, cum_qty=0, leaves_qty=10)
o.process_execution_report(ack)
# the application builds its cancel request with the order object (as it does in production and as
# tests/test_protocol_order_single.py does), the helper answers it
cxl_req = o.cancel_req()
rej = ft.fix_cxlrep_reject_msg(cxl_req, FOrdStatus.NEW)
o.process_cancel_rej_report(rej)
rpt = ft.fix_exec_report_msg(o, o.clord_id, FExecType.ORDER_STATUS, FOrdStatus.NEW, cum_qty=0, leaves_qty=10)
ids = [ack[37], rej[37], rpt[37]]
print("OrderID of: ack, cancel reject, status report =", ids)
if len(set(ids)) != 1:
    print("PROPERTY VIOLATED: OrderID is not stable for the order (order.order_id=%r)" % o.order_id)
    sys.exit(1)
print("ok")
