"""genuine2: a ClOrdID argument accepted by the helper gives a report the order object refuses.

run:  cd WT && PYTHONPATH=WT /venv/bin/python _mutant/genuine2.py     (exit 1 = property violated)
"""
import os, sys, xml.etree.ElementTree as ET
from asyncfix import FIXTester
from asyncfix.protocol import FIXSchema
from asyncfix.protocol.common import FExecType, FOrdSide, FOrdStatus
from asyncfix.protocol.order_single import FIXNewOrderSingle

WT = os.path.dirname(os.path.dirname(os.path.abspath(__file__)))
ft = FIXTester(FIXSchema(ET.parse(os.path.join(WT, "tests", "FIX44.xml"))))
o = FIXNewOrderSingle("c1", "SYM", FOrdSide.BUY, 100.0, 10)
o.new_req()
ft.order_register_single(o)
ack = ft.fix_exec_report_msg(o, o.clord_id, FExecType.NEW, FOrdStatus.NEW, cum_qty=0, leaves_qty=10)
o.process_execution_report(ack)
bad = []
# (a) any other ClOrdID, (b) the previous ClOrdID of the chain after a successful replace
for name, clord in (("foreign ClOrdID", "somebody-else--1"), ("ClOrdID root", o.clord_id_root)):
    m = ft.fix_exec_report_msg(o, clord, FExecType.ORDER_STATUS, FOrdStatus.NEW, cum_qty=0, leaves_qty=10)
    try:
        o.process_execution_report(m)
    except Exception as exc:
        bad.append(f"{name} {clord!r}: accepted by the helper, order object raises {type(exc).__name__}: {exc}")
first = o.clord_id
ft.fix_rep_request(o, price=101.0)
rep = ft.fix_exec_report_msg(o, o.clord_id, FExecType.REPLACED, FOrdStatus.NEW, cum_qty=0, leaves_qty=10,
                             price=101.0, orig_clord_id=first)
o.process_execution_report(rep)
m = ft.fix_exec_report_msg(o, first, FExecType.ORDER_STATUS, FOrdStatus.NEW, cum_qty=0, leaves_qty=10)
try:
    o.process_execution_report(m)
except Exception as exc:
    bad.append(f"replaced ClOrdID {first!r} of the same order: order object raises {type(exc).__name__}: {exc}")
if bad:
    print("PROPERTY VIOLATED (report accepted by the helper is not processed by the order without error):")
    print("\n".join("  - " + b for b in bad))
    sys.exit(1)
print("ok")
