"""differential harness: initiator vs real AsyncFIXDummyServer over TCP, and vs FIXTester."""
import asyncio, logging, socket, sys
from asyncfix import (AsyncFIXClient, AsyncFIXDummyServer, AsyncFIXConnection, FIXMessage,
                      FIXTester, FMsg, FTag, Journaler, ConnectionState)
from asyncfix.protocol import FIXProtocol44

logging.disable(logging.CRITICAL)
VOL = {"52", "10", "9", "122"}

def view(msg):
    return tuple((t, str(v)) for t, v in msg.tags.items() if t not in VOL)

class RecMixin:
    def _rec_init(self):
        self.rec_in = []; self.rec_out = []; self.rec_states = []; self.rec_app = []
        self.on_logon_hook = None
    async def on_message(self, msg): self.rec_app.append(view(msg))
    async def on_connect(self): pass
    async def on_state_change(self, s): self.rec_states.append(s.name)
    async def on_logon(self, healthy):
        if self.on_logon_hook: await self.on_logon_hook(self)
    async def _process_message(self, msg, raw):
        self.rec_in.append(view(msg))
        await super()._process_message(msg, raw)
    async def _send_encoded(self, msg, journal):
        n = self._session.next_num_out
        await super()._send_encoded(msg, journal)
        self.rec_out.append((str(msg.msg_type), msg.get(FTag.MsgSeqNum, n), view(msg)))
    def summary(self):
        return dict(inn=self.rec_in, out=self.rec_out, states=self.rec_states, app=self.rec_app,
                    cnt=(self._session.next_num_in, self._session.next_num_out), state=self.connection_state.name)

class Cli(RecMixin, AsyncFIXClient):
    def __init__(s, *a, **k): super().__init__(*a, **k); s._rec_init()
class Srv(RecMixin, AsyncFIXDummyServer):
    def __init__(s, *a, **k): super().__init__(*a, **k); s._rec_init()
class Conn(RecMixin, AsyncFIXConnection):
    def __init__(s, *a, **k): super().__init__(*a, **k); s._rec_init()

def app_i(n): return FIXMessage(FMsg.NEWORDERSINGLE, {11: f"c{n}", 55: "S", 54: "1", 38: "5", 40: "2", 44: "1.5", 60: "20240101-00:00:00"})
def app_a(n): return FIXMessage(FMsg.EXECUTIONREPORT, {37: "1", 17: str(n), 150: "0", 39: "0", 55: "S", 54: "1", 151: "5", 14: "0", 6: "0", 11: f"c{n}"})

async def settle(): await asyncio.sleep(0.15)

async def run_real(script, hb=30, on_logon_hook=None, seq=None):
    s = socket.socket(); s.bind(("127.0.0.1", 0)); port = s.getsockname()[1]; s.close()
    srv = Srv(FIXProtocol44(), "ACC", "INI", Journaler(), "127.0.0.1", port, heartbeat_period=hb)
    cli = Cli(FIXProtocol44(), "INI", "ACC", Journaler(), "127.0.0.1", port, heartbeat_period=hb)
    cli.on_logon_hook = on_logon_hook
    if seq:
        cli._journaler.set_seq_num(cli._session, next_num_out=seq[0], next_num_in=seq[1])
        srv._journaler.set_seq_num(srv._session, next_num_out=seq[1], next_num_in=seq[0])
    st = asyncio.create_task(srv.connect()); await asyncio.sleep(0.1)
    await cli.connect(); await asyncio.sleep(1.3)  # read tasks poll for the socket once per second
    n = 0
    for op in script:
        n += 1
        if op == "IL": await cli.send_msg(FIXMessage(FMsg.LOGON, {98: 0, 108: hb}))
        elif op == "IA": await cli.send_msg(app_i(n))
        elif op == "AA": await srv.send_msg(app_a(n))
        elif op == "IT": await cli.send_test_req()
        elif op == "AT": await srv.send_test_req()
        elif op == "IH": await cli.send_msg(FIXMessage(FMsg.HEARTBEAT))
        elif op == "AH": await srv.send_msg(FIXMessage(FMsg.HEARTBEAT))
        elif op == "IO": await cli.send_msg(FIXMessage(FMsg.LOGOUT))
        elif op == "AO": await srv.send_msg(FIXMessage(FMsg.LOGOUT))
        elif op == "ID": await cli.disconnect(ConnectionState.DISCONNECTED_WCONN_TODAY, logout_message="bye")
        elif op == "ITD":
            await cli.send_test_req(); await cli.disconnect(ConnectionState.DISCONNECTED_WCONN_TODAY, logout_message="bye")
        elif op == "IAD":
            await cli.send_msg(app_i(n)); await cli.disconnect(ConnectionState.DISCONNECTED_WCONN_TODAY, logout_message="bye")
        elif op == "AD": await srv.disconnect(ConnectionState.DISCONNECTED_WCONN_TODAY, logout_message="bye")
        await settle()
    res = cli.summary(), srv.summary()
    for c in (cli, srv):
        if c._socket_writer:
            try: c._socket_writer.close()
            except Exception: pass
        for t in (c._aio_task_socket_read, c._aio_task_heartbeat):
            if t: t.cancel()
    st.cancel()
    try: await st
    except BaseException: pass
    return res

async def run_sim(script, hb=30, on_logon_hook=None, seq=None, schema=None):
    conn = Conn(FIXProtocol44(), "INI", "ACC", Journaler(), "127.0.0.1", 1, heartbeat_period=hb)
    conn.on_logon_hook = on_logon_hook
    if seq:
        conn._journaler.set_seq_num(conn._session, next_num_out=seq[0], next_num_in=seq[1])
    conn._connection_state = ConnectionState.NETWORK_CONN_ESTABLISHED
    ft = FIXTester(schema=schema, connection=conn)
    n = 0
    async def pump():
        while ft.acceptor_rcv_que:
            await ft.process_msg_acceptor()
    for op in script:
        n += 1
        if op == "IL": await conn.send_msg(ft.msg_logon({98: 0, 108: hb}))
        elif op == "IA": await conn.send_msg(app_i(n))
        elif op == "AA": await ft.reply(app_a(n))
        elif op == "IT": await conn.send_test_req()
        elif op == "AT":
            import time
            await ft.reply(ft.msg_test_request(int(time.time())))
        elif op == "IH": await conn.send_msg(ft.msg_heartbeat())
        elif op == "AH": await ft.reply(ft.msg_heartbeat())
        elif op == "IO": await conn.send_msg(ft.msg_logout())
        elif op == "AO": await ft.reply(ft.msg_logout())
        elif op == "ID": await conn.disconnect(ConnectionState.DISCONNECTED_WCONN_TODAY, logout_message="bye")
        elif op == "ITD":
            await conn.send_test_req(); await conn.disconnect(ConnectionState.DISCONNECTED_WCONN_TODAY, logout_message="bye")
        elif op == "IAD":
            await conn.send_msg(app_i(n)); await conn.disconnect(ConnectionState.DISCONNECTED_WCONN_TODAY, logout_message="bye")
        elif op == "AD": await ft.reply(FIXMessage(FMsg.LOGOUT, {58: "bye"}))
        await pump()
    return conn.summary(), ft

def norm(s):
    # states recorded via on_state_change only; TestReqID values are time based: mask
    def mask(v): return tuple((t, "T" if t == "112" else x) for t, x in v)
    return dict(inn=[mask(v) for v in s["inn"]], out=[(a, str(b), mask(c)) for a, b, c in s["out"]],
                states=s["states"], app=[mask(v) for v in s["app"]], cnt=s["cnt"], state=s["state"])

async def compare(script, **kw):
    (rc, rs) = await run_real(script, **kw)
    sc, ft = await run_sim(script, **kw)
    a, b = norm(rc), norm(sc)
    diffs = [k for k in a if a[k] != b[k]]
    return diffs, a, b

if __name__ == "__main__":
    import itertools, json
    scripts = [s.split() for s in sys.argv[1:]] or [
        "IL IA AA IT AT IO".split(), "IL AA IA AT IT AO".split(), "IL IA IH AH ID".split(), "IL AA AD".split()]
    async def main():
        bad = 0
        for sc in scripts:
            d, a, b = await compare(sc)
            print(" ".join(sc), "DIFF" if d else "same", d)
            for k in d:
                print("  real:", a[k]); print("  sim :", b[k]); bad += 1
        return bad
    rc = asyncio.run(main())
    sys.stdout.flush(); import os; os._exit(1 if rc else 0)
