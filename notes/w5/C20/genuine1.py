"""genuine1: small / large quantities and prices are fabricated in scientific notation.

run:  cd WT && PYTHONPATH=WT /venv/bin/python _mutant/genuine1.py     (exit 1 = property violated)
"""
import os, sys, xml.etree.ElementTree as ET
from asyncfix import FIXTester
from asyncfix.protocol import FIXSchema
from asyncfix.protocol.common import FExecType, FOrdSide, FOrdStatus
from asyncfix.protocol.order_single import FIXNewOrderSingle

WT = os.path.dirname(os.path.dirname(os.path.abspath(__file__)))
SCHEMA = FIXSchema(ET.parse(os.path.join(WT, "tests", "FIX44.xml")))
bad = []

def case(name, qty, price, **kw):
    ft = FIXTester()  # no schema: helper must not depend on it to produce valid messages
    o = FIXNewOrderSingle("c1", "BTCUSD", FOrdSide.BUY, price, qty)
    o.new_req()
    ft.order_register_single(o)
    m = ft.fix_exec_report_msg(o, o.clord_id, **kw)   # accepted: no assertion of the helper fires
    try:
        SCHEMA.validate(m)
    except Exception as exc:
        bad.append(f"{name}: helper accepted the arguments, message is not valid FIX 4.4: {exc}\n      {m}")
    # same arguments with the schema attached: the helper cannot fabricate the report at all
    ft2 = FIXTester(SCHEMA)
    ft2.order_register_single(o)
    try:
        ft2.fix_exec_report_msg(o, o.clord_id, **kw)
    except AssertionError:
        pass
    except Exception as exc:
        bad.append(f"{name} (schema attached): {type(exc).__name__} raised by the helper itself")

case("partial fill of 0.00001 of a 0.00002 order", 0.00002, 100.0, exec_type=FExecType.TRADE,
     ord_status=FOrdStatus.PARTIALLY_FILLED, cum_qty=0.00001, leaves_qty=0.00001, last_qty=0.00001)
case("NEW ack of a 1e16 order", 1e16, 100.0, exec_type=FExecType.NEW, ord_status=FOrdStatus.NEW,
     cum_qty=0, leaves_qty=1e16)
case("NEW ack, price 0.00005", 10, 0.00005, exec_type=FExecType.NEW, ord_status=FOrdStatus.NEW,
     cum_qty=0, leaves_qty=10)
if bad:
    print("PROPERTY VIOLATED (fabricated reports do not validate against the FIX 4.4 dictionary):")
    print("\n".join("  - " + b for b in bad))
    sys.exit(1)
print("ok")
