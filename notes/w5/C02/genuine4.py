"""genuine4 - empty values ('58=' / '35=') are transmitted; FIX has no empty fields,
an independent parser rejects the frame.

run:  cd WT && PYTHONPATH=WT /venv/bin/python _mutant/genuine4.py
exit 1 = property C02 violated on the unmodified tree, exit 0 = not violated
"""
import asyncio
import logging
import sys

from asyncfix import FIXMessage, FMsg, FTag
from asyncfix.codec import Codec
from asyncfix.connection import AsyncFIXConnection, ConnectionState
from asyncfix.journaler import Journaler
from asyncfix.protocol import FIXProtocol44
from asyncfix.session import FIXSession

logging.disable(logging.CRITICAL)
SOH = b"\x01"


def refparse(b: bytes):
    """Independent strict FIX framer, raises ValueError if b is not ONE good frame."""
    if not b.endswith(SOH):
        raise ValueError("no trailing SOH")
    fields = []
    for f in b[:-1].split(SOH):
        if b"=" not in f:
            raise ValueError(f"field without '=': {f!r}")
        t, v = f.split(b"=", 1)
        if not (t.isascii() and t.isdigit()) or t[:1] == b"0":
            raise ValueError(f"tag is not a positive number: {t!r}")
        if v == b"":
            raise ValueError(f"empty value, tag {t!r}")
        fields.append((t, v))
    if len(fields) < 4 or [t for t, _ in fields[:3]] != [b"8", b"9", b"35"]:
        raise ValueError("does not start with 8, 9, 35")
    if fields[-1][0] != b"10":
        raise ValueError("does not end with CheckSum")
    for i, (t, v) in enumerate(fields[3:-1], 3):
        if t in (b"8", b"9", b"35", b"10"):
            raise ValueError(f"framing tag {t.decode()} repeated inside the body (field #{i})")
    ck = fields[-1][1]
    if len(ck) != 3 or not ck.isdigit():
        raise ValueError("CheckSum is not 3 digits")
    cpos = b.rfind(SOH + b"10=") + 1
    if sum(b[:cpos]) % 256 != int(ck):
        raise ValueError("CheckSum value")
    bstart = b.index(SOH, b.index(SOH) + 1) + 1
    if not fields[1][1].isdigit() or int(fields[1][1]) != cpos - bstart:
        raise ValueError("BodyLength value")
    return fields


class Writer:
    def __init__(self):
        self.frames = []

    def write(self, data):
        self.frames.append(bytes(data))

    async def drain(self):
        pass

    def close(self):
        pass

    async def wait_closed(self):
        pass



class App(AsyncFIXConnection):
    async def on_message(self, msg):
        pass

    async def on_connect(self):
        pass


async def active_connection():
    """Acceptor connection with completed Logon, frames recorded in .frames of the writer."""
    conn = App(FIXProtocol44(), "SRV", "CLI", Journaler(), "localhost", 1)
    w = Writer()
    conn._socket_writer = w
    conn._connection_state = ConnectionState.NETWORK_CONN_ESTABLISHED
    peer = FIXSession(1, "SRV", "CLI")
    peer.next_num_out = peer.next_num_in = 1
    raw = Codec(FIXProtocol44()).encode(
        FIXMessage(FMsg.LOGON, {FTag.EncryptMethod: 0, FTag.HeartBtInt: 30}), peer
    ).encode()
    dec, _, rawm = conn._codec.decode(raw)
    await conn._process_message(dec, rawm)
    assert conn.connection_state == ConnectionState.ACTIVE
    return conn, w


async def try_send(name, msg):
    """1 if the message was transmitted as a malformed frame, 0 if good frame / refused."""
    conn, w = await active_connection()
    n0 = len(w.frames)
    try:
        await conn.send_msg(msg)
    except Exception as e:
        print(f"ok        {name}: refused with {type(e).__name__}")
        return 0
    bad = 0
    for fr in w.frames[n0:]:
        try:
            refparse(fr)
        except ValueError as e:
            bad = 1
            print(f"VIOLATION {name}: transmitted, but {e}")
            print("          ", ascii(fr.replace(SOH, b"|").decode()))
    if not bad:
        print(f"ok        {name}: good frame")
    return bad


async def main():
    bad = 0
    bad += await try_send("Text=''", FIXMessage(FMsg.NEWS, {148: "h", 58: ""}))
    bad += await try_send("MsgType=''", FIXMessage("", {148: "h"}))
    bad += await try_send("group member value ''", FIXMessage(FMsg.NEWS, {148: "h", 33: [{58: ""}]}))
    # the library itself does it: TestRequest with an empty TestReqID is echoed as '112='
    conn, w = await active_connection()
    raw = b"8=FIX.4.4\x019=00\x0135=1\x0149=CLI\x0156=SRV\x0134=2\x0152=20240101-00:00:00.000\x01112=\x01"
    raw += b"10=%03d\x01" % (sum(raw) % 256)
    dec, _, rawm = conn._codec.decode(raw)
    if dec is not None:
        await conn._process_message(dec, rawm)
        try:
            refparse(w.frames[-1])
        except ValueError as e:
            print("(note)    Heartbeat reply to TestRequest(112=<empty>):", e)
    return 1 if bad else 0


if __name__ == "__main__":
    sys.exit(asyncio.run(main()))
