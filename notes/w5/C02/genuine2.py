"""genuine2 - a field value that contains SOH is transmitted (nothing refuses it);
the bytes on the wire are a different / malformed message, up to an injected second frame.

run:  cd WT && PYTHONPATH=WT /venv/bin/python _mutant/genuine2.py
exit 1 = property C02 violated on the unmodified tree, exit 0 = not violated
"""
import asyncio
import logging
import sys

from asyncfix import FIXMessage, FMsg, FTag
from asyncfix.codec import Codec
from asyncfix.connection import AsyncFIXConnection, ConnectionState
from asyncfix.journaler import Journaler
from asyncfix.protocol import FIXProtocol44
from asyncfix.session import FIXSession

logging.disable(logging.CRITICAL)
SOH = b"\x01"


def refparse(b: bytes):
    """Independent strict FIX framer, raises ValueError if b is not ONE good frame."""
    if not b.endswith(SOH):
        raise ValueError("no trailing SOH")
    fields = []
    for f in b[:-1].split(SOH):
        if b"=" not in f:
            raise ValueError(f"field without '=': {f!r}")
        t, v = f.split(b"=", 1)
        if not (t.isascii() and t.isdigit()) or t[:1] == b"0":
            raise ValueError(f"tag is not a positive number: {t!r}")
        if v == b"":
            raise ValueError(f"empty value, tag {t!r}")
        fields.append((t, v))
    if len(fields) < 4 or [t for t, _ in fields[:3]] != [b"8", b"9", b"35"]:
        raise ValueError("does not start with 8, 9, 35")
    if fields[-1][0] != b"10":
        raise ValueError("does not end with CheckSum")
    for i, (t, v) in enumerate(fields[3:-1], 3):
        if t in (b"8", b"9", b"35", b"10"):
            raise ValueError(f"framing tag {t.decode()} repeated inside the body (field #{i})")
    ck = fields[-1][1]
    if len(ck) != 3 or not ck.isdigit():
        raise ValueError("CheckSum is not 3 digits")
    cpos = b.rfind(SOH + b"10=") + 1
    if sum(b[:cpos]) % 256 != int(ck):
        raise ValueError("CheckSum value")
    bstart = b.index(SOH, b.index(SOH) + 1) + 1
    if not fields[1][1].isdigit() or int(fields[1][1]) != cpos - bstart:
        raise ValueError("BodyLength value")
    return fields


class Writer:
    def __init__(self):
        self.frames = []

    def write(self, data):
        self.frames.append(bytes(data))

    async def drain(self):
        pass

    def close(self):
        pass

    async def wait_closed(self):
        pass



class App(AsyncFIXConnection):
    async def on_message(self, msg):
        pass

    async def on_connect(self):
        pass


async def active_connection():
    """Acceptor connection with completed Logon, frames recorded in .frames of the writer."""
    conn = App(FIXProtocol44(), "SRV", "CLI", Journaler(), "localhost", 1)
    w = Writer()
    conn._socket_writer = w
    conn._connection_state = ConnectionState.NETWORK_CONN_ESTABLISHED
    peer = FIXSession(1, "SRV", "CLI")
    peer.next_num_out = peer.next_num_in = 1
    raw = Codec(FIXProtocol44()).encode(
        FIXMessage(FMsg.LOGON, {FTag.EncryptMethod: 0, FTag.HeartBtInt: 30}), peer
    ).encode()
    dec, _, rawm = conn._codec.decode(raw)
    await conn._process_message(dec, rawm)
    assert conn.connection_state == ConnectionState.ACTIVE
    return conn, w


async def try_send(name, msg):
    """1 if the message was transmitted as a malformed frame, 0 if good frame / refused."""
    conn, w = await active_connection()
    n0 = len(w.frames)
    try:
        await conn.send_msg(msg)
    except Exception as e:
        print(f"ok        {name}: refused with {type(e).__name__}")
        return 0
    bad = 0
    for fr in w.frames[n0:]:
        try:
            refparse(fr)
        except ValueError as e:
            bad = 1
            print(f"VIOLATION {name}: transmitted, but {e}")
            print("          ", ascii(fr.replace(SOH, b"|").decode()))
    if not bad:
        print(f"ok        {name}: good frame")
    return bad


async def main():
    bad = 0
    # 1. plain: the rest of the value becomes a "field" without tag
    bad += await try_send("Text='line1<SOH>line2'", FIXMessage(FMsg.NEWS, {148: "h", 58: "line1\x01line2"}))
    # 2. the value closes the frame itself: independent reader sees CheckSum in the body
    bad += await try_send(
        "Text='x<SOH>10=000<SOH>8=FIX.4.4<SOH>9=5<SOH>35=5'",
        FIXMessage(FMsg.NEWS, {148: "h", 58: "x\x0110=000\x018=FIX.4.4\x019=5\x0135=5"}),
    )
    # 3. same through disconnect(logout_message=...)
    conn, w = await active_connection()
    await conn.disconnect(ConnectionState.DISCONNECTED_WCONN_TODAY, logout_message="bye\x01now")
    try:
        refparse(w.frames[-1])
        print("ok        Logout text with SOH")
    except ValueError as e:
        bad += 1
        print("VIOLATION Logout text 'bye<SOH>now': transmitted, but", e)
    # control: lone surrogate IS refused
    bad += await try_send("control: lone surrogate", FIXMessage(FMsg.NEWS, {148: "\ud800"}))
    return 1 if bad else 0


if __name__ == "__main__":
    sys.exit(asyncio.run(main()))
