"""genuine3 - tag numbers in spellings that int() accepts but FIX does not (' 58', '+58',
'5_8', '58\\n', '-1', '0', '058', non-ASCII digits) are put on the wire as they are.

run:  cd WT && PYTHONPATH=WT /venv/bin/python _mutant/genuine3.py
exit 1 = property C02 violated on the unmodified tree, exit 0 = not violated
"""
import asyncio
import logging
import sys

from asyncfix import FIXMessage, FMsg, FTag
from asyncfix.codec import Codec
from asyncfix.connection import AsyncFIXConnection, ConnectionState
from asyncfix.journaler import Journaler
from asyncfix.protocol import FIXProtocol44
from asyncfix.session import FIXSession

logging.disable(logging.CRITICAL)
SOH = b"\x01"


def refparse(b: bytes):
    """Independent strict FIX framer, raises ValueError if b is not ONE good frame."""
    if not b.endswith(SOH):
        raise ValueError("no trailing SOH")
    fields = []
    for f in b[:-1].split(SOH):
        if b"=" not in f:
            raise ValueError(f"field without '=': {f!r}")
        t, v = f.split(b"=", 1)
        if not (t.isascii() and t.isdigit()) or t[:1] == b"0":
            raise ValueError(f"tag is not a positive number: {t!r}")
        if v == b"":
            raise ValueError(f"empty value, tag {t!r}")
        fields.append((t, v))
    if len(fields) < 4 or [t for t, _ in fields[:3]] != [b"8", b"9", b"35"]:
        raise ValueError("does not start with 8, 9, 35")
    if fields[-1][0] != b"10":
        raise ValueError("does not end with CheckSum")
    for i, (t, v) in enumerate(fields[3:-1], 3):
        if t in (b"8", b"9", b"35", b"10"):
            raise ValueError(f"framing tag {t.decode()} repeated inside the body (field #{i})")
    ck = fields[-1][1]
    if len(ck) != 3 or not ck.isdigit():
        raise ValueError("CheckSum is not 3 digits")
    cpos = b.rfind(SOH + b"10=") + 1
    if sum(b[:cpos]) % 256 != int(ck):
        raise ValueError("CheckSum value")
    bstart = b.index(SOH, b.index(SOH) + 1) + 1
    if not fields[1][1].isdigit() or int(fields[1][1]) != cpos - bstart:
        raise ValueError("BodyLength value")
    return fields


class Writer:
    def __init__(self):
        self.frames = []

    def write(self, data):
        self.frames.append(bytes(data))

    async def drain(self):
        pass

    def close(self):
        pass

    async def wait_closed(self):
        pass



class App(AsyncFIXConnection):
    async def on_message(self, msg):
        pass

    async def on_connect(self):
        pass


async def active_connection():
    """Acceptor connection with completed Logon, frames recorded in .frames of the writer."""
    conn = App(FIXProtocol44(), "SRV", "CLI", Journaler(), "localhost", 1)
    w = Writer()
    conn._socket_writer = w
    conn._connection_state = ConnectionState.NETWORK_CONN_ESTABLISHED
    peer = FIXSession(1, "SRV", "CLI")
    peer.next_num_out = peer.next_num_in = 1
    raw = Codec(FIXProtocol44()).encode(
        FIXMessage(FMsg.LOGON, {FTag.EncryptMethod: 0, FTag.HeartBtInt: 30}), peer
    ).encode()
    dec, _, rawm = conn._codec.decode(raw)
    await conn._process_message(dec, rawm)
    assert conn.connection_state == ConnectionState.ACTIVE
    return conn, w


async def try_send(name, msg):
    """1 if the message was transmitted as a malformed frame, 0 if good frame / refused."""
    conn, w = await active_connection()
    n0 = len(w.frames)
    try:
        await conn.send_msg(msg)
    except Exception as e:
        print(f"ok        {name}: refused with {type(e).__name__}")
        return 0
    bad = 0
    for fr in w.frames[n0:]:
        try:
            refparse(fr)
        except ValueError as e:
            bad = 1
            print(f"VIOLATION {name}: transmitted, but {e}")
            print("          ", ascii(fr.replace(SOH, b"|").decode()))
    if not bad:
        print(f"ok        {name}: good frame")
    return bad


async def main():
    bad = 0
    for tag in [" 58", "58 ", "+58", "5_8", "58\n", "-1", "0", "058", "\u0665\u0668", "\uff15\uff18"]:
        m = FIXMessage(FMsg.NEWS, {148: "h"})
        m[tag] = "x"  # public API: FIXContainer.__setitem__ / set()
        bad += await try_send(f"tag {tag!r}", m)
    # same inside a repeating group
    m = FIXMessage(FMsg.NEWS, {148: "h", 33: [{"+58": "x"}]})
    bad += await try_send("tag '+58' in group NoLinesOfText", m)
    return 1 if bad else 0


if __name__ == "__main__":
    sys.exit(asyncio.run(main()))
