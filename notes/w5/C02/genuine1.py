"""genuine1 - a received (decoded) message that the application sends on is framed
with a second 8= / 9= / 35= / 10= in the middle of the body.

run:  cd WT && PYTHONPATH=WT /venv/bin/python _mutant/genuine1.py
exit 1 = property C02 violated on the unmodified tree, exit 0 = not violated
"""
import asyncio
import logging
import sys

from asyncfix import FIXMessage, FMsg, FTag
from asyncfix.codec import Codec
from asyncfix.connection import AsyncFIXConnection, ConnectionState
from asyncfix.journaler import Journaler
from asyncfix.protocol import FIXProtocol44
from asyncfix.session import FIXSession

logging.disable(logging.CRITICAL)
SOH = b"\x01"


def refparse(b: bytes):
    """Independent strict FIX framer, raises ValueError if b is not ONE good frame."""
    if not b.endswith(SOH):
        raise ValueError("no trailing SOH")
    fields = []
    for f in b[:-1].split(SOH):
        if b"=" not in f:
            raise ValueError(f"field without '=': {f!r}")
        t, v = f.split(b"=", 1)
        if not (t.isascii() and t.isdigit()) or t[:1] == b"0":
            raise ValueError(f"tag is not a positive number: {t!r}")
        if v == b"":
            raise ValueError(f"empty value, tag {t!r}")
        fields.append((t, v))
    if len(fields) < 4 or [t for t, _ in fields[:3]] != [b"8", b"9", b"35"]:
        raise ValueError("does not start with 8, 9, 35")
    if fields[-1][0] != b"10":
        raise ValueError("does not end with CheckSum")
    for i, (t, v) in enumerate(fields[3:-1], 3):
        if t in (b"8", b"9", b"35", b"10"):
            raise ValueError(f"framing tag {t.decode()} repeated inside the body (field #{i})")
    ck = fields[-1][1]
    if len(ck) != 3 or not ck.isdigit():
        raise ValueError("CheckSum is not 3 digits")
    cpos = b.rfind(SOH + b"10=") + 1
    if sum(b[:cpos]) % 256 != int(ck):
        raise ValueError("CheckSum value")
    bstart = b.index(SOH, b.index(SOH) + 1) + 1
    if not fields[1][1].isdigit() or int(fields[1][1]) != cpos - bstart:
        raise ValueError("BodyLength value")
    return fields


class Writer:
    def __init__(self):
        self.frames = []

    def write(self, data):
        self.frames.append(bytes(data))

    async def drain(self):
        pass

    def close(self):
        pass

    async def wait_closed(self):
        pass


class EchoApp(AsyncFIXConnection):
    """Acceptor application which sends every received order back (drop copy)."""

    async def on_message(self, msg):
        await self.send_msg(msg)

    async def on_connect(self):
        pass


async def main():
    conn = EchoApp(FIXProtocol44(), "SRV", "CLI", Journaler(), "localhost", 1)
    w = Writer()
    conn._socket_writer = w
    conn._connection_state = ConnectionState.NETWORK_CONN_ESTABLISHED

    peer_codec = Codec(FIXProtocol44())
    peer = FIXSession(1, "SRV", "CLI")
    peer.next_num_out = peer.next_num_in = 1

    async def feed(m):
        raw = peer_codec.encode(m, peer).encode("utf-8")
        refparse(raw)  # what the counterparty sends is a good frame
        dec, n, rawm = conn._codec.decode(raw)
        assert dec is not None and n == len(raw)
        await conn._process_message(dec, rawm)

    await feed(FIXMessage(FMsg.LOGON, {FTag.EncryptMethod: 0, FTag.HeartBtInt: 30}))
    assert conn.connection_state == ConnectionState.ACTIVE
    await feed(
        FIXMessage(
            FMsg.NEWORDERSINGLE,
            {11: "ord1", 55: "VOD.L", 54: 1, 38: 100, 40: 2, 44: "1.5"},
        )
    )

    bad = 0
    for fr in w.frames:
        try:
            refparse(fr)
        except ValueError as e:
            bad += 1
            print("VIOLATION: frame handed to the transport is not well formed:", e)
            print("   ", fr.replace(SOH, b"|").decode())
            dec, _, _ = peer_codec.decode(fr)
            print("    library's own decoder on that frame:", dec)
    print(f"{len(w.frames)} frames written, {bad} malformed")
    return 1 if bad else 0


if __name__ == "__main__":
    sys.exit(asyncio.run(main()))
