"""C10 genuine violation 1: a malformed frame holds back the valid frames received
in the same socket read (live reader).

Run:  cd WT && PYTHONPATH=WT /venv/bin/python _mutant/genuine1.py
exit 1 = property violated (unmodified tree), exit 0 = not violated.
"""
import asyncio
import logging
import sys
from unittest.mock import AsyncMock, MagicMock

logging.disable(logging.CRITICAL)
from asyncfix.connection import AsyncFIXConnection, ConnectionState  # noqa: E402
from asyncfix.journaler import Journaler  # noqa: E402
from asyncfix.protocol import FIXProtocol44  # noqa: E402

SOH = b"\x01"


def frame(fields, bl=None):
    body = b"".join(f + SOH for f in fields)
    bl = str(len(body)).encode() if bl is None else bl
    f = b"8=FIX.4.4" + SOH + b"9=" + bl + SOH + body
    return f + b"10=%03d" % (sum(f) % 256) + SOH


GOOD = frame([b"35=1", b"49=T", b"56=S", b"34=1", b"52=20240101-00:00:00", b"112=X"])
MALFORMED = {
    "non-numeric BodyLength": frame([b"35=0", b"49=T"], bl=b"x1"),
    "wrong BeginString": GOOD.replace(b"FIX.4.4", b"FIX.4.2"),
    "bad CheckSum": GOOD[:-4] + b"000" + SOH if not GOOD.endswith(b"000\x01") else GOOD[:-4] + b"001" + SOH,
    "non-numeric tag": frame([b"35=0", b"4x=T"]),
    "field without '='": frame([b"35=0", b"49T"]),
}


async def run(name, bad):
    conn = AsyncFIXConnection(FIXProtocol44(), "S", "T", Journaler(), "localhost", 1)
    conn._connection_state = ConnectionState.NETWORK_CONN_ESTABLISHED
    reader = asyncio.StreamReader()
    conn._socket_reader = reader
    conn._socket_writer = MagicMock()
    conn._socket_writer.drain = AsyncMock()
    conn._socket_writer.wait_closed = AsyncMock()
    got = []

    async def pm(msg, raw):
        got.append(raw)

    conn._process_message = pm
    task = asyncio.create_task(conn.socket_read_task())
    # ONE tcp segment: malformed frame immediately followed by a valid TestRequest
    reader.feed_data(bad + GOOD)
    await asyncio.sleep(0.3)  # the peer now waits for the answer and sends nothing
    delivered, buffered = len(got), len(conn._msg_buffer)
    task.cancel()
    ok = delivered == 1 and buffered == 0
    print(f"{name:26s} delivered={delivered} left_in_buffer={buffered}  {'ok' if ok else 'HELD BACK'}")
    return ok


async def main():
    res = [await run(n, b) for n, b in MALFORMED.items()]
    return all(res)


if not asyncio.run(main()):
    print("VIOLATION: the valid frame behind a malformed frame stays undecoded in the "
          "receive buffer until the peer sends more bytes")
    sys.exit(1)
print("no violation")
