"""C10 genuine violation 3: a frame truncated in the middle of a field swallows the valid frame
that follows it - also across a reconnect, because the receive buffer outlives the connection.

Run:  cd WT && PYTHONPATH=WT /venv/bin/python _mutant/genuine3.py      (takes ~3 s)
exit 1 = property violated (unmodified tree), exit 0 = not violated.
"""
import asyncio
import logging
import sys
from unittest.mock import AsyncMock, MagicMock

logging.disable(logging.CRITICAL)
from asyncfix.codec import Codec  # noqa: E402
from asyncfix.connection import AsyncFIXConnection, ConnectionState  # noqa: E402
from asyncfix.journaler import Journaler  # noqa: E402
from asyncfix.protocol import FIXProtocol44  # noqa: E402

SOH = b"\x01"


def frame(fields):
    body = b"".join(f + SOH for f in fields)
    f = b"8=FIX.4.4" + SOH + b"9=" + str(len(body)).encode() + SOH + body
    return f + b"10=%03d" % (sum(f) % 256) + SOH


ORDER = frame([b"35=D", b"49=T", b"56=S", b"34=5", b"52=20240101-00:00:00", b"11=clord", b"55=X", b"54=1", b"38=1", b"40=1"])
LOGON = frame([b"35=A", b"49=T", b"56=S", b"34=1", b"52=20240101-00:00:01", b"98=0", b"108=30"])
HBEAT = frame([b"35=0", b"49=T", b"56=S", b"34=2", b"52=20240101-00:00:02"])
violations = 0

# 1. decoder only: every truncation point of ORDER, followed by LOGON, HBEAT
codec = Codec(FIXProtocol44())


def drain(buf):
    out = []
    while buf:
        m, n, raw = codec.decode(buf)
        if m is not None:
            out.append(raw)
        if n == 0:
            break
        buf = buf[n:]
    return out, buf


lost = []
for cut in range(1, len(ORDER)):
    got, rest = drain(ORDER[:cut] + LOGON + HBEAT)
    if LOGON not in got:
        lost.append(cut)
print(f"decoder: valid frame after a truncated frame is never returned for {len(lost)} of {len(ORDER)-1} truncation points")
if lost:
    cut = lost[len(lost) // 2]
    print(f"   e.g. truncated after {ORDER[:cut]!r}")
    violations += 1


# 2. live reader: the peer dies in the middle of a frame, reconnects and sends Logon
async def live():
    conn = AsyncFIXConnection(FIXProtocol44(), "S", "T", Journaler(), "localhost", 1)
    got = []

    async def pm(msg, raw):
        got.append(raw)

    conn._process_message = pm

    def attach():  # what connection_server._handle_accept does
        r = asyncio.StreamReader()
        conn._socket_reader = r
        conn._socket_writer = MagicMock()
        conn._socket_writer.drain = AsyncMock()
        conn._socket_writer.wait_closed = AsyncMock()
        conn._connection_state = ConnectionState.NETWORK_CONN_ESTABLISHED
        return r

    r1 = attach()
    task = asyncio.create_task(conn.socket_read_task())
    r1.feed_data(ORDER[:60])  # cut inside 11=clord
    await asyncio.sleep(0.1)
    r1.feed_eof()  # connection lost
    await asyncio.sleep(0.2)
    assert conn.connection_state == ConnectionState.DISCONNECTED_BROKEN_CONN
    stale = len(conn._msg_buffer)
    r2 = attach()  # new TCP connection
    r2.feed_data(LOGON)
    await asyncio.sleep(1.5)
    task.cancel()
    print(f"live reader: {stale} stale bytes kept over the reconnect; Logon of the new connection delivered: {LOGON in got}")
    return LOGON in got


if not asyncio.run(live()):
    violations += 1

if violations:
    print("VIOLATION: a truncated frame makes the valid frame behind it disappear (on a new connection: its Logon)")
    sys.exit(1)
print("no violation")
