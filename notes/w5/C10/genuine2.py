"""C10 genuine violation 2: BodyLength is never compared with the bytes of the frame.

 (a) single-byte corruption accepted: inserting one NUL byte (0x00) into any field value of a
     valid frame keeps the CheckSum (sum mod 256 unchanged) and breaks only BodyLength - the
     decoder returns the corrupted frame as a message;
 (b) a frame with an arbitrary wrong BodyLength and a matching CheckSum is returned as a message.

Run:  cd WT && PYTHONPATH=WT /venv/bin/python _mutant/genuine2.py
exit 1 = property violated (unmodified tree), exit 0 = not violated.
"""
import logging
import sys

logging.disable(logging.CRITICAL)
from asyncfix import FIXMessage, FMsg  # noqa: E402
from asyncfix.codec import Codec  # noqa: E402
from asyncfix.protocol import FIXProtocol44  # noqa: E402
from asyncfix.session import FIXSession  # noqa: E402

SOH = b"\x01"
codec = Codec(FIXProtocol44())
sess = FIXSession(1, "T", "S")
sess.next_num_out = 1
valid = codec.encode(
    FIXMessage(FMsg.NEWORDERSINGLE, {11: "clord1", 55: "VOD.L", 54: 1, 38: 100, 40: 2, 44: "1.5"}),
    sess,
).encode()
m, n, raw = codec.decode(valid)
assert m is not None and n == len(valid) and raw == valid

bad = 0
# (a) every single-byte insertion of 0x00
accepted = []
for pos in range(len(valid) + 1):
    mut = valid[:pos] + b"\x00" + valid[pos:]
    m, n, raw = codec.decode(mut)
    if m is not None and raw != valid:  # raw == valid: the byte is outside of the frame (junk before/after)
        accepted.append(pos)
print(f"(a) NUL insertion: {len(accepted)} of {len(valid)+1} positions returned as a message")
if accepted:
    pos = accepted[len(accepted) // 2]
    mut = valid[:pos] + b"\x00" + valid[pos:]
    m, n, raw = codec.decode(mut)
    body = raw[raw.index(b"\x0135=") + 1 : raw.rindex(b"10=")]
    print(f"    e.g. pos {pos}: {m}\n    BodyLength says {m[9]}, body has {len(body)} bytes")
    bad += 1


# (b) wrong BodyLength, CheckSum computed over the bytes as sent
def frame(bl, body):
    f = b"8=FIX.4.4" + SOH + b"9=" + str(bl).encode() + SOH + body
    return f + b"10=%03d" % (sum(f) % 256) + SOH


body = b"35=0\x0149=S\x0156=T\x0134=1\x0152=20240101-00:00:00\x01"
for bl in (0, 5, len(body) - 1, len(body) + 1, 999, 99999999):
    f = frame(bl, body)
    m, n, raw = codec.decode(f)
    if m is not None:
        print(f"(b) BodyLength={bl} (real {len(body)}) -> returned as message, consumed {n}/{len(f)}")
        bad += 1

# (c) single-byte SUBSTITUTION: a valid frame whose Text happens to end with "X10=nnn"; replacing the
#     X by SOH ends the frame early at a CheckSum that fits the shortened frame; only BodyLength
#     could tell, and it is not looked at
head = b"35=B\x0149=S\x0156=T\x0134=7\x0152=20240101-00:00:00\x01148=h\x0158=zz"
tail_len = len(b"X10=000\x01")
bl = len(head) + tail_len
prefix = b"8=FIX.4.4" + SOH + b"9=" + str(bl).encode() + SOH + head
inner = b"10=%03d" % ((sum(prefix) + 1) % 256)
whole = prefix + b"X" + inner + SOH
whole += b"10=%03d" % (sum(whole) % 256) + SOH
m, n, raw = codec.decode(whole)
assert m is not None and raw == whole and m[58].startswith("zzX10=")
pos = len(prefix)
mut = whole[:pos] + SOH + whole[pos + 1 :]
m, n, raw = codec.decode(mut)
if m is not None:
    print(f"(c) substitution of byte {pos} ('X' -> SOH) returned as message: 58={m[58]!r}, 9={m[9]}, "
          f"frame is {len(raw)} bytes")
    bad += 1

if bad:
    print("VIOLATION: frames whose BodyLength is inconsistent with their bytes are returned as messages")
    sys.exit(1)
print("no violation")
