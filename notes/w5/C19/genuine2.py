"""genuine2 - fractional seconds of 1,2,4,5,6 digits are accepted; FIX 4.4 allows only whole seconds or .sss

Run: cd WT && PYTHONPATH=WT /venv/bin/python _mutant/genuine2.py   (exit 1 = property violated)
"""
import sys
from asyncfix.errors import FIXMessageError
from asyncfix.protocol.schema import SchemaField

bad = []
for ftype, value in [
    ("UTCTIMESTAMP", "20200101-10:00:00.1"),
    ("UTCTIMESTAMP", "20200101-10:00:00.12"),
    ("UTCTIMESTAMP", "20200101-10:00:00.1234"),
    ("UTCTIMESTAMP", "20200101-10:00:00.123456"),
    ("UTCTIMEONLY", "10:00:00.1"),
    ("UTCTIMEONLY", "10:00:00.123456"),
]:
    f = SchemaField("9999", "X", ftype)
    try:
        f.validate_value(value)
        bad.append(f"{ftype} {value!r} accepted, but FIX 4.4 layout is HH:MM:SS or HH:MM:SS.sss (exactly 3 digits)")
    except FIXMessageError:
        pass
if bad:
    print("PROPERTY VIOLATED:", *bad, sep="\n  ")
    sys.exit(1)
print("OK")
