"""genuine6 - enumerated MultipleValueString fields reject space delimited lists of their enumerators.

Run: cd WT && PYTHONPATH=WT /venv/bin/python _mutant/genuine6.py   (exit 1 = property violated)
"""
import os
import sys
from asyncfix.errors import FIXMessageError
from asyncfix.protocol.schema import FIXSchema

WT = os.path.dirname(os.path.dirname(os.path.abspath(__file__)))
bad = []
for xml, name, value in [
    ("FIX44.xml", "ExecInst", "1 2"),
    ("FIX44.xml", "QuoteCondition", "A B"),
    ("FIX44.xml", "OrderRestrictions", "1 5"),
    ("TT-FIX44.xml", "ExecInst", "5 6"),
]:
    f = FIXSchema(os.path.join(WT, "tests", xml))[name]
    assert f.ftype in ("MULTIPLEVALUESTRING", "MULTIPLESTRINGVALUE") and all(v in f.values for v in value.split())
    try:
        f.validate_value(value)
    except FIXMessageError as exc:
        bad.append(f"{xml} {f!r} value {value!r} rejected: {str(exc)[:60]}...")
if bad:
    print("PROPERTY VIOLATED:", *bad, sep="\n  ")
    sys.exit(1)
print("OK")
