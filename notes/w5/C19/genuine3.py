"""genuine3 - Length accepts 0 and negative values; FIX 4.4: "Length ... Value must be positive".

Run: cd WT && PYTHONPATH=WT /venv/bin/python _mutant/genuine3.py   (exit 1 = property violated)
"""
import os
import sys
from asyncfix.errors import FIXMessageError
from asyncfix.protocol.schema import FIXSchema

WT = os.path.dirname(os.path.dirname(os.path.abspath(__file__)))
schema = FIXSchema(os.path.join(WT, "tests", "FIX44.xml"))
bad = []
for name in ("BodyLength", "RawDataLength", "EncodedTextLen"):
    f = schema[name]
    assert f.ftype == "LENGTH", f
    for value in ("-1", "0", "-0", "-999"):
        try:
            f.validate_value(value)
            bad.append(f"{f!r} accepts {value!r}")
        except FIXMessageError:
            pass
if bad:
    print("PROPERTY VIOLATED (Length must be positive):", *bad, sep="\n  ")
    sys.exit(1)
print("OK")
