"""genuine1 - UTC leap second (SS=60) is rejected; FIX 4.4 says SS = 00-60.

Run: cd WT && PYTHONPATH=WT /venv/bin/python _mutant/genuine1.py   (exit 1 = property violated)
"""
import sys
from asyncfix.errors import FIXMessageError
from asyncfix.protocol.schema import SchemaField

bad = []
for ftype, value in [
    ("UTCTIMESTAMP", "20161231-23:59:60"),
    ("UTCTIMESTAMP", "20161231-23:59:60.000"),
    ("UTCTIMEONLY", "23:59:60"),
]:
    f = SchemaField("9999", "X", ftype)
    try:
        f.validate_value(value)
    except FIXMessageError as exc:
        bad.append(f"{ftype} {value!r} is in the FIX 4.4 lexical space (SS=00-60) but rejected: {exc}")
if bad:
    print("PROPERTY VIOLATED:", *bad, sep="\n  ")
    sys.exit(1)
print("OK")
