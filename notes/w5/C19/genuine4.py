"""genuine4 - String / char values containing '=' are rejected; FIX only forbids the SOH delimiter.

Run: cd WT && PYTHONPATH=WT /venv/bin/python _mutant/genuine4.py   (exit 1 = property violated)
"""
import sys
from asyncfix.errors import FIXMessageError
from asyncfix.protocol.schema import SchemaField

bad = []
for ftype, value in [
    ("STRING", "a=b"),
    ("STRING", "limit px=10.5 rejected"),
    ("CHAR", "="),
    ("MULTIPLEVALUESTRING", "= A"),
]:
    f = SchemaField("9999", "X", ftype)
    try:
        f.validate_value(value)
    except FIXMessageError as exc:
        bad.append(f"{ftype} {value!r} rejected: {exc}")
if bad:
    print("PROPERTY VIOLATED:", *bad, sep="\n  ")
    sys.exit(1)
print("OK")
