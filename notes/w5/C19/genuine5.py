"""genuine5 - Currency/Country/Exchange accept underscores, non-ASCII letters/digits and too-short codes.

Run: cd WT && PYTHONPATH=WT /venv/bin/python _mutant/genuine5.py   (exit 1 = property violated)
"""
import sys
from asyncfix.errors import FIXMessageError
from asyncfix.protocol.schema import SchemaField

bad = []
for ftype, value in [
    ("CURRENCY", "___"),
    ("CURRENCY", "U_D"),
    ("CURRENCY", "12٣"),  # ARABIC-INDIC DIGIT THREE
    ("CURRENCY", "ÉUR"),  # E-acute
    ("CURRENCY", "U"),  # ISO 4217 codes have exactly 3 characters
    ("COUNTRY", "_"),
    ("COUNTRY", "٥٥"),
    ("EXCHANGE", "X_é"),
]:
    f = SchemaField("9999", "X", ftype)
    try:
        f.validate_value(value)
        bad.append(f"{ftype} {value!a} accepted")
    except FIXMessageError:
        pass
if bad:
    print("PROPERTY VIOLATED (not ISO 4217 / 3166 / 10383 code shapes):", *bad, sep="\n  ")
    sys.exit(1)
print("OK")
