"""genuine8 - members of the lexical space rejected: year 0000 and long digit strings.

Run: cd WT && PYTHONPATH=WT /venv/bin/python _mutant/genuine8.py   (exit 1 = property violated)
"""
import sys
from asyncfix.errors import FIXMessageError
from asyncfix.protocol.schema import SchemaField

bad = []
for ftype, value in [
    ("UTCTIMESTAMP", "00000101-00:00:00"),
    ("UTCDATEONLY", "00000101"),
    ("LOCALMKTDATE", "00001231"),
    ("MONTHYEAR", "000001"),
    ("MONTHYEAR", "000001w1"),
    ("INT", "0" * 4296 + "12345"),  # = 12345 with leading zeros, which FIX explicitly allows
    ("FLOAT", "1" + "0" * 400),  # digits only, but float() overflows to inf
    ("PRICE", "-" + "9" * 310 + ".5"),
]:
    f = SchemaField("9999", "X", ftype)
    try:
        f.validate_value(value)
    except FIXMessageError as exc:
        bad.append(f"{ftype} {value[:20]!r}{'...' if len(value) > 20 else ''} (len {len(value)}) rejected: {str(exc)[-60:]}")
if bad:
    print("PROPERTY VIOLATED:", *bad, sep="\n  ")
    sys.exit(1)
print("OK")
