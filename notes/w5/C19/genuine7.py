"""genuine7 - a str-subclass value ends in AssertionError instead of acceptance / FIXMessageError.

Run: cd WT && PYTHONPATH=WT /venv/bin/python _mutant/genuine7.py   (exit 1 = property violated; do not use -O)
"""
import sys
from asyncfix.errors import FIXMessageError
from asyncfix.protocol.schema import SchemaField


class Txt(str):
    pass


bad = []
for ftype, value in [("STRING", Txt("hello")), ("CHAR", Txt("a")), ("BOOLEAN", Txt("Y")), ("CURRENCY", Txt("USD"))]:
    f = SchemaField("9999", "X", ftype)
    try:
        f.validate_value(value)
    except FIXMessageError:
        pass
    except Exception as exc:  # noqa: BLE001
        bad.append(f"{ftype} {value!r} (str subclass, passes the isinstance check): raised {exc!r}")
# the number and datetime families accept the same kind of object
assert SchemaField("9999", "X", "INT").validate_value(Txt("12")) is True
if bad:
    print("PROPERTY VIOLATED (outcome is neither True nor FIXMessageError):", *bad, sep="\n  ")
    sys.exit(1)
print("OK")
