"""genuine2: acceptor in LOGON_INITIAL_RECV does not refuse application sends.

Run:  cd WT && PYTHONPATH=WT /venv/bin/python _mutant/genuine2.py     (exit 1 = violated)

History: acceptor just connected; counterparty sends a Logon whose HeartBtInt(108)
appears twice (decoder marks the tag as RepeatingTagError).  _process_logon raises
while building the reply, _process_message swallows it: no Logon reply, state stays
LOGON_INITIAL_RECV - the Logon exchange has NOT completed.  Now the application sends
a NewOrderSingle.
"""
import asyncio
import os
import sys

sys.path.insert(0, os.path.dirname(__file__))
from _gcommon import App, raw  # noqa

from asyncfix import FIXMessage, FMsg
from asyncfix.errors import FIXConnectionError


async def main():
    c = App()
    await c.feed(raw([(35, "A"), (49, "CLI"), (56, "SRV"), (34, 1), (52, "20240101-00:00:00"),
                      (98, 0), (108, 30), (108, 30)]))
    print("state after the Logon:", c.connection_state.name, " frames written:", c.types(),
          " callbacks:", c.ev)
    assert c.types() == [] and "on_logon(True)" not in c.ev  # no Logon exchange
    out_before = c._session.next_num_out
    try:
        await c.send_msg(FIXMessage(FMsg.NEWORDERSINGLE, {11: "c1", 55: "S", 38: 1, 44: 1}))
    except FIXConnectionError as e:
        print("ok: refused:", e)
        assert c._session.next_num_out == out_before
        return 0
    print("frames written:", c.types(), " next_num_out:", out_before, "->", c._session.next_num_out)
    print("VIOLATION C11: Logon exchange not completed (no Logon reply was ever sent), but the "
          "application's NewOrderSingle was sent and consumed MsgSeqNum", out_before)
    return 1


sys.exit(asyncio.run(main()))
