"""Shared helpers of the genuine*.py / demo1.py programs (test doubles only, no library change)."""
import asyncio
import logging
from unittest.mock import AsyncMock, MagicMock

from asyncfix.connection import AsyncFIXConnection, ConnectionState
from asyncfix.journaler import Journaler
from asyncfix.protocol import FIXProtocol44

logging.disable(logging.CRITICAL)


def raw(fields, begin="FIX.4.4"):
    """Builds a wire frame from (tag, value) pairs (BodyLength / CheckSum computed)."""
    body = "".join(f"{t}={v}\x01" for t, v in fields)
    s = f"8={begin}\x019={len(body)}\x01" + body
    return (s + "10=%03d\x01" % (sum(s.encode()) % 256)).encode()


class App(AsyncFIXConnection):
    """We are SRV, counterparty is CLI. Records callbacks and written frames."""

    def __init__(self, journaler=None):
        super().__init__(FIXProtocol44(), "SRV", "CLI", journaler or Journaler(), "h", 1)
        self.ev = []
        self.frames = []
        self.attach()

    def attach(self):
        """Simulates an established network connection (as tests/ do)."""
        self._connection_state = ConnectionState.NETWORK_CONN_ESTABLISHED
        self._socket_writer = MagicMock()
        self._socket_writer.write.side_effect = lambda d: self.frames.append(d)
        self._socket_writer.drain = AsyncMock()
        self._socket_writer.wait_closed = AsyncMock()

    def types(self):
        return [f.split(b"\x01")[2].decode() for f in self.frames]

    async def feed(self, data):
        """Same as one iteration of socket_read_task for one complete frame."""
        m, _, r = self._codec.decode(data)
        assert m is not None, data
        try:
            await self._process_message(m, r)
        except OSError:
            raise
        except Exception as e:  # socket_read_task logs it and goes on
            self.ev.append(f"<exception logged by socket_read_task: {type(e).__name__}>")

    async def on_message(self, m):
        self.ev.append(f"on_message(35={m.msg_type})")

    async def on_logon(self, h):
        self.ev.append(f"on_logon({h})")

    async def on_logout(self, m):
        self.ev.append("on_logout")

    async def on_disconnect(self):
        self.ev.append("on_disconnect")

    async def on_connect(self):
        self.ev.append("on_connect")
