"""genuine1: bytes received on a connection that was dropped are processed on the NEXT connection.

Run (unmodified tree):
    cd WT && PYTHONPATH=WT /venv/bin/python _mutant/genuine1.py
Exit 1 + message = property C11 violated, exit 0 = not violated.

History (AsyncFIXDummyServer = acceptor, real localhost TCP):
  connection 1 : peer writes  [Heartbeat 34=1][Logon 34=1]  in one segment.
                 First message is not Logon -> the acceptor drops the connection
                 (correct).  The Logon frame stays in _msg_buffer.
  connection 2 : a peer connects and NEVER sends a Logon, only NewOrderSingle 34=2.
Expected (C11): connection 2 is dropped (first message is not Logon), nothing is handed
to the application, no Logon reply is written.
"""
import asyncio
import logging
import os
import sys

from asyncfix import FIXMessage, FMsg, FTag
from asyncfix.codec import Codec
from asyncfix.connection_server import AsyncFIXDummyServer
from asyncfix.journaler import Journaler
from asyncfix.protocol import FIXProtocol44
from asyncfix.session import FIXSession

logging.disable(logging.CRITICAL)
PORT = 64517


class App(AsyncFIXDummyServer):
    def __init__(self, *a, **k):
        super().__init__(*a, **k)
        self.events = []

    async def on_connect(self):
        self.events.append("on_connect")

    async def on_disconnect(self):
        self.events.append("on_disconnect")

    async def on_logon(self, is_healthy):
        self.events.append(f"on_logon({is_healthy})")

    async def on_logout(self, m):
        self.events.append("on_logout")

    async def on_message(self, m):
        self.events.append(f"on_message(35={m.msg_type})")


async def main():
    srv = App(FIXProtocol44(), "SRV", "CLI", Journaler(), "127.0.0.1", PORT)
    asyncio.create_task(srv.connect())
    await asyncio.sleep(0.3)

    codec = Codec(FIXProtocol44())
    peer = FIXSession(1, "SRV", "CLI")  # the counterparty's view (sender CLI, target SRV)
    peer.next_num_in = peer.next_num_out = 1
    other = FIXSession(2, "SRV", "CLI")
    other.next_num_in = other.next_num_out = 1

    def frame(sess, msg):
        return codec.encode(msg, sess).encode()

    # ---- connection 1: not-Logon first, Logon behind it in the same segment
    r1, w1 = await asyncio.open_connection("127.0.0.1", PORT)
    w1.write(
        frame(other, FIXMessage(FMsg.HEARTBEAT))
        + frame(peer, FIXMessage(FMsg.LOGON, {FTag.EncryptMethod: 0, FTag.HeartBtInt: 30}))
    )
    await w1.drain()
    got1 = await asyncio.wait_for(r1.read(), 5)
    assert got1 == b"", got1
    assert srv.events == ["on_connect", "on_disconnect"], srv.events
    w1.close()
    await asyncio.sleep(1.2)  # reader task polls once a second

    # ---- connection 2: never logs on
    r2, w2 = await asyncio.open_connection("127.0.0.1", PORT)
    await asyncio.sleep(1.2)
    n_before = len(srv.events)
    order = FIXMessage(
        FMsg.NEWORDERSINGLE,
        {FTag.ClOrdID: "c1", FTag.Symbol: "S", FTag.OrderQty: 1, FTag.Price: 1},
    )
    w2.write(frame(peer, order))
    await w2.drain()
    await asyncio.sleep(0.5)
    try:
        got2 = await asyncio.wait_for(r2.read(4096), 1)
    except asyncio.TimeoutError:
        got2 = b"<nothing, still open>"

    new_events = srv.events[n_before:]
    print("callbacks during connection 2 :", new_events)
    print("frames written to connection 2:", got2.replace(b"\x01", b"|"))
    print("state:", srv.connection_state.name, " next_num_in:", srv._session.next_num_in)
    bad = [e for e in new_events if e.startswith(("on_logon", "on_message"))]
    if bad or b"35=A" in got2:
        print(
            "VIOLATION C11: connection 2 never sent a Logon, but the acceptor answered "
            "with Logon, became ACTIVE and handed the order to the application "
            "(stale Logon frame of the dropped connection 1 was processed)"
        )
        return 1
    print("ok: connection without Logon was not served")
    return 0


loop = asyncio.new_event_loop()
rc = loop.run_until_complete(main())
sys.stdout.flush()
os._exit(rc)
