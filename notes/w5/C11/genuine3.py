"""genuine3: header field present but unusable (MsgSeqNum not a number / MsgSeqNum or
SenderCompID given twice) - the message is not dropped WITH the connection: the exception
escapes _validate_integrity, socket_read_task only logs it, the connection lives on.

Run:  cd WT && PYTHONPATH=WT /venv/bin/python _mutant/genuine3.py     (exit 1 = violated)

Part 1 (acceptor just connected, driven through the real socket_read_task):
   first inbound message = TestRequest with 34=abc, then a proper Logon 34=1.
   C11: "a first inbound message other than Logon makes the connection drop".
Part 2 (ACTIVE session): application message with 49=EVIL and 49=CLI (wrong SenderCompID
   next to the right one), 34 = expected.   C11: wrong CompID -> Logout + disconnected.
"""
import asyncio
import os
import sys

sys.path.insert(0, os.path.dirname(__file__))
from _gcommon import App, raw  # noqa

from asyncfix.connection import ConnectionState

T = "20240101-00:00:00"


class Reader:
    def __init__(self, chunks):
        self.chunks = list(chunks)

    async def read(self, n):
        if self.chunks:
            return self.chunks.pop(0)
        await asyncio.sleep(3600)


async def main():
    rc = 0
    # ---- part 1
    c = App()
    c._socket_reader = Reader([
        raw([(35, "1"), (49, "CLI"), (56, "SRV"), (34, "abc"), (52, T), (112, "t1")]),
        raw([(35, "A"), (49, "CLI"), (56, "SRV"), (34, 1), (52, T), (98, 0), (108, 30)]),
    ])
    task = asyncio.create_task(c.socket_read_task())
    await asyncio.sleep(0.2)
    task.cancel()
    print("part 1: state", c.connection_state.name, " callbacks", c.ev, " frames", c.types())
    if c.connection_state > ConnectionState.DISCONNECTED_BROKEN_CONN:
        print("VIOLATION C11: first inbound message was a TestRequest (34=abc), connection was "
              "not dropped and the session got established by the following Logon")
        rc = 1

    # ---- part 2
    c = App()
    await c.feed(raw([(35, "A"), (49, "CLI"), (56, "SRV"), (34, 1), (52, T), (98, 0), (108, 30)]))
    assert c.connection_state == ConnectionState.ACTIVE
    c.ev.clear(), c.frames.clear()
    await c.feed(raw([(35, "D"), (49, "EVIL"), (49, "CLI"), (56, "SRV"), (34, 2), (52, T), (11, "c1")]))
    print("part 2: state", c.connection_state.name, " callbacks", c.ev, " frames", c.types())
    if c.connection_state > ConnectionState.DISCONNECTED_BROKEN_CONN:
        print("VIOLATION C11: message carrying a wrong SenderCompID (49=EVIL, 49=CLI) left the "
              "connection ACTIVE, no Logout, no disconnect")
        rc = 1
    return rc


sys.exit(asyncio.run(main()))
