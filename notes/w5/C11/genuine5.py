"""genuine5: on_logon() is delivered AFTER on_disconnect() when the application disconnects
from on_state_change().

Run:  cd WT && PYTHONPATH=WT /venv/bin/python _mutant/genuine5.py     (exit 1 = violated)

History: acceptor just connected, counterparty's Logon has 34=5 (expected 1).  The
application does not want to start with a gap and calls disconnect(..., "gap at logon")
from on_state_change(RECV_SEQNUM_TOO_HIGH).  C11: after any disconnect no further message
callbacks.
"""
import asyncio
import os
import sys

sys.path.insert(0, os.path.dirname(__file__))
from _gcommon import App, raw  # noqa

from asyncfix.connection import ConnectionState


class PickyApp(App):
    async def on_state_change(self, s):
        if s == ConnectionState.RECV_SEQNUM_TOO_HIGH:
            await self.disconnect(
                ConnectionState.DISCONNECTED_BROKEN_CONN, logout_message="gap at logon"
            )


async def main():
    c = PickyApp()
    await c.feed(raw([(35, "A"), (49, "CLI"), (56, "SRV"), (34, 5), (52, "20240101-00:00:00"),
                      (98, 0), (108, 30)]))
    print("callbacks:", c.ev, " frames:", c.types(), " state:", c.connection_state.name)
    if "on_disconnect" in c.ev and c.ev.index("on_disconnect") != len(c.ev) - 1:
        print("VIOLATION C11: callbacks after the disconnect was reported:",
              c.ev[c.ev.index("on_disconnect") + 1:])
        return 1
    return 0


sys.exit(asyncio.run(main()))
