"""genuine4: AsyncFIXDummyServer - a second TCP connect (no bytes sent) silently ends an
ACTIVE session: state falls back to NETWORK_CONN_ESTABLISHED, on_connect is reported again,
NO on_disconnect is reported for the session, the session's socket is never closed.

Run:  cd WT && PYTHONPATH=WT /venv/bin/python _mutant/genuine4.py     (exit 1 = violated)

History: peer 1 logs on (ACTIVE).  A stranger opens a TCP connection and sends nothing.
Peer 1 then sends a valid, in-sequence NewOrderSingle.
"""
import asyncio
import logging
import os
import sys

from asyncfix import FIXMessage, FMsg, FTag
from asyncfix.codec import Codec
from asyncfix.connection import ConnectionState
from asyncfix.connection_server import AsyncFIXDummyServer
from asyncfix.journaler import Journaler
from asyncfix.protocol import FIXProtocol44
from asyncfix.session import FIXSession

logging.disable(logging.CRITICAL)
PORT = 64519


class App(AsyncFIXDummyServer):
    def __init__(self, *a, **k):
        super().__init__(*a, **k)
        self.events = []

    async def on_connect(self):
        self.events.append("on_connect")

    async def on_disconnect(self):
        self.events.append("on_disconnect")

    async def on_logon(self, h):
        self.events.append(f"on_logon({h})")

    async def on_message(self, m):
        self.events.append(f"on_message(35={m.msg_type})")


async def main():
    srv = App(FIXProtocol44(), "SRV", "CLI", Journaler(), "127.0.0.1", PORT)
    asyncio.create_task(srv.connect())
    await asyncio.sleep(0.3)
    codec = Codec(FIXProtocol44())
    peer = FIXSession(1, "SRV", "CLI")
    peer.next_num_in = peer.next_num_out = 1

    def frame(msg):
        return codec.encode(msg, peer).encode()

    r1, w1 = await asyncio.open_connection("127.0.0.1", PORT)
    w1.write(frame(FIXMessage(FMsg.LOGON, {FTag.EncryptMethod: 0, FTag.HeartBtInt: 30})))
    await w1.drain()
    await asyncio.sleep(1.5)
    assert srv.connection_state == ConnectionState.ACTIVE, srv.connection_state
    print("after Logon           :", srv.connection_state.name, srv.events)

    r2, w2 = await asyncio.open_connection("127.0.0.1", PORT)  # stranger, sends nothing
    await asyncio.sleep(0.3)
    state_after_stranger, ev_after_stranger = srv.connection_state, list(srv.events)
    print("after stranger connect:", state_after_stranger.name, ev_after_stranger)

    w1.write(frame(FIXMessage(FMsg.NEWORDERSINGLE, {11: "c1", 55: "S", 38: 1, 44: 1})))
    await w1.drain()
    await asyncio.sleep(0.5)
    print("after peer 1's order  :", srv.connection_state.name, srv.events)
    await r1.read(4096)  # Logon reply
    try:
        eof = await asyncio.wait_for(r1.read(4096), 1) == b""
    except asyncio.TimeoutError:
        eof = False
    print("peer 1 socket closed by the server:", eof)

    if state_after_stranger != ConnectionState.ACTIVE and "on_disconnect" not in ev_after_stranger:
        print("VIOLATION C11: the ACTIVE session ended (state NETWORK_CONN_ESTABLISHED, second "
              "on_connect) without any disconnect report; peer 1's in-sequence order was "
              "dropped and its socket was left open")
        return 1
    return 0


loop = asyncio.new_event_loop()
rc = loop.run_until_complete(main())
sys.stdout.flush()
os._exit(rc)
