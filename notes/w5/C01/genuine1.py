"""genuine1 - a top-level body field (or group) that directly follows a repeating group
and whose tag is also in that group's member list is swallowed by the group (unmodified tree).

Run:  cd WT && PYTHONPATH=WT /venv/bin/python _mutant/genuine1.py
exit 1 = C01 violated (decoded structure differs from the encoded message).
"""
import sys

from asyncfix import FMsg, FTag
from asyncfix.codec import Codec
from asyncfix.message import FIXMessage
from asyncfix.protocol import FIXProtocol44
from asyncfix.session import FIXSession

HDR = {"8", "9", "35", "49", "56", "34", "52", "10"}


def body(c):
    return tuple(x for x in c._content() if x[0] not in HDR)


def roundtrip(label, msg):
    codec = Codec(FIXProtocol44())
    session = FIXSession(1, "TARGET", "SENDER")
    session.next_num_out = 1
    frame = codec.encode(msg, session).encode("utf-8")
    dec, consumed, raw = codec.decode(frame)
    ok = dec is not None and body(dec) == body(msg) and consumed == len(frame)
    print(("ok        " if ok else "VIOLATION ") + label)
    if not ok:
        print("   wire   :", frame.replace(b"\x01", b"|").decode("latin-1"))
        print("   sent   :", body(msg))
        print("   decoded:", body(dec) if dec is not None else None)
    return ok


def main():
    results = []
    # (a) FIX 4.4 NewOrderSingle: NoAllocs (78) items {AllocAccount 79, AllocQty 80}, then
    #     the ORDER's Commission (12) / CommType (13) - top-level fields of message D, but
    #     also listed as NoAllocs members in the table (they are, for AllocationInstruction).
    #     FIX fixes no order for body fields outside groups, so this is a legal field order.
    m = FIXMessage(
        FMsg.NEWORDERSINGLE,
        {
            FTag.ClOrdID: "c1",
            FTag.NoAllocs: [
                {FTag.AllocAccount: "acc1", FTag.AllocQty: 10},
                {FTag.AllocAccount: "acc2", FTag.AllocQty: 20},
            ],
            FTag.Commission: "0.5",
            FTag.CommType: "3",
            FTag.Symbol: "VOD.L",
        },
    )
    results.append(roundtrip("(a) 78=[2 items] then top-level 12/13", m))

    # (b) counts on the wire make this one unambiguous (78=1, 539=1, then a second 539=1):
    #     the decoder ignores NumInGroup counts and merges the top-level group into the
    #     nested one.
    m = FIXMessage(
        FMsg.ALLOCATIONINSTRUCTION,
        {
            FTag.NoAllocs: [
                {FTag.AllocAccount: "a", FTag.NoNestedPartyIDs: [{FTag.NestedPartyID: "p"}]}
            ],
            FTag.NoNestedPartyIDs: [{FTag.NestedPartyID: "q"}],
        },
    )
    results.append(roundtrip("(b) 78=[{79, 539=[p]}] then top-level 539=[q]", m))

    # control: the same fields with a non-member tag in between round-trip correctly
    m = FIXMessage(
        FMsg.NEWORDERSINGLE,
        {
            FTag.NoAllocs: [{FTag.AllocAccount: "acc1", FTag.AllocQty: 10}],
            FTag.Symbol: "VOD.L",
            FTag.Commission: "0.5",
        },
    )
    assert roundtrip("control: 78=[..], 55, 12", m)
    return 0 if all(results) else 1


if __name__ == "__main__":
    sys.exit(main())
