"""genuine2 - FIX 4.4 NoLegs (555) items carrying EncodedLegIssuerLen (618) are torn apart:
the group table lists EncodedIssuerLen (348, an Instrument field) where 618 belongs.

Run:  cd WT && PYTHONPATH=WT /venv/bin/python _mutant/genuine2.py
exit 1 = C01 violated on the unmodified tree.
"""
import sys

from asyncfix import FTag
from asyncfix.codec import Codec
from asyncfix.message import FIXMessage
from asyncfix.protocol import FIXProtocol44
from asyncfix.session import FIXSession

HDR = {"8", "9", "35", "49", "56", "34", "52", "10"}


def body(c):
    return tuple(x for x in c._content() if x[0] not in HDR)


def main():
    members = [str(t) for t in FIXProtocol44.repeating_groups[FTag.NoLegs]]
    print("NoLegs row: 617(LegIssuer) in table:", "617" in members,
          "| 618(EncodedLegIssuerLen):", "618" in members,
          "| 619(EncodedLegIssuer):", "619" in members,
          "| 348(EncodedIssuerLen):", "348" in members)
    codec = Codec(FIXProtocol44())
    session = FIXSession(1, "TARGET", "SENDER")
    session.next_num_out = 1
    # InstrumentLeg block exactly as in the FIX 4.4 specification:
    #   600 LegSymbol ... 617 LegIssuer, 618 EncodedLegIssuerLen, 619 EncodedLegIssuer ... 624 LegSide
    msg = FIXMessage(
        "AB",  # NewOrderMultileg
        {
            FTag.ClOrdID: "c1",
            FTag.NoLegs: [
                {FTag.LegSymbol: "L1", FTag.LegIssuer: "iss", FTag.EncodedLegIssuerLen: 3,
                 FTag.EncodedLegIssuer: "abc", FTag.LegSide: 1},
                {FTag.LegSymbol: "L2", FTag.LegSide: 2},
            ],
            FTag.OrderQty: 1,
        },
    )
    frame = codec.encode(msg, session).encode("utf-8")
    dec, consumed, raw = codec.decode(frame)
    print("wire   :", frame.replace(b"\x01", b"|").decode())
    print("decoded:", dec)
    if dec is None or body(dec) != body(msg):
        print("VIOLATION: NoLegs decoded with", len(dec.get_group_list(FTag.NoLegs)),
              "item(s); 618/619/624/600 of the legs landed at message level",
              "(624 repeated -> RepeatingTagError)")
        return 1
    print("ok")
    return 0


if __name__ == "__main__":
    sys.exit(main())
