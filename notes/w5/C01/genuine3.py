"""genuine3 - a body tag number of 19+ digits is accepted by FIXContainer and written by the
encoder, but the decoder rejects the whole (otherwise correct) frame.

Run:  cd WT && PYTHONPATH=WT /venv/bin/python _mutant/genuine3.py
exit 1 = C01 violated on the unmodified tree ("all sets of body tags", custom tags).
"""
import sys

from asyncfix import FTag
from asyncfix.codec import Codec
from asyncfix.message import FIXMessage
from asyncfix.protocol import FIXProtocol44
from asyncfix.session import FIXSession


def main():
    bad = 0
    codec = Codec(FIXProtocol44())
    session = FIXSession(1, "TARGET", "SENDER")
    session.next_num_out = 1
    for tag in ("100000000000000000", "1000000000000000000"):  # 18 and 19 digits
        msg = FIXMessage("U1", {tag: "x", FTag.Text: "hello"})
        frame = codec.encode(msg, session).encode("utf-8")
        dec, consumed, raw = codec.decode(frame)
        ok = dec is not None and dec[tag] == "x" and raw == frame
        print(f"custom tag with {len(tag)} digits:", "ok" if ok else "VIOLATION frame rejected",
              f"(consumed {consumed}/{len(frame)}, raw={'None' if raw is None else 'bytes'})")
        bad += not ok
    return 1 if bad else 0


if __name__ == "__main__":
    sys.exit(main())
