"""C04 genuine violation 3: SequenceReset (Reset mode) is applied in two journal steps,
the first one moves the expected number to the *MsgSeqNum of the reset itself*; when a
step fails the counter is left there (neither +1 nor NewSeqNo).

 a) no fault injection: 34=2**64 (does not fit SQLite INTEGER) NewSeqNo=10
 b) sqlite fault (OperationalError, e.g. disk full / locked) at the first UPDATE:
    34=2 NewSeqNo=10 -> expected number 5 -> 2, messages 2,3,4 are delivered again

Run (unmodified worktree):
    cd WT && PYTHONPATH=WT /venv/bin/python _mutant/genuine3.py
exit 1 + message = property violated, exit 0 = property holds.
"""
import asyncio
import logging
import sqlite3
import sys

from asyncfix import FIXMessage, FIXTester, FMsg, FTag
from asyncfix.connection import AsyncFIXConnection, ConnectionState
from asyncfix.journaler import Journaler
from asyncfix.protocol import FIXProtocol44

logging.disable(logging.CRITICAL)


class App(AsyncFIXConnection):
    delivered = None

    async def on_message(self, msg):
        self.delivered.append(int(msg[FTag.MsgSeqNum]))

    async def on_connect(self):
        pass


class FaultyCursor:
    """sqlite cursor proxy: the next UPDATE session fails once when armed."""

    def __init__(self, cur):
        self._cur = cur
        self.armed = False

    def execute(self, sql, *a):
        if self.armed and sql.startswith("UPDATE session"):
            self.armed = False
            raise sqlite3.OperationalError("database or disk is full")
        return self._cur.execute(sql, *a)

    def __iter__(self):
        return iter(self._cur)

    def __getattr__(self, n):
        return getattr(self._cur, n)


def app(seq):
    return FIXMessage(FMsg.EXECUTIONREPORT, {FTag.MsgSeqNum: seq, FTag.Text: f"t{seq}"})


async def session():
    j = Journaler()
    c = App(FIXProtocol44(), "INITIATOR", "ACCEPTOR", journaler=j,
            host="localhost", port="64444")
    c.delivered = []
    c._connection_state = ConnectionState.NETWORK_CONN_ESTABLISHED
    ft = FIXTester(connection=c)
    await c.send_msg(ft.msg_logon())
    await ft.process_msg_acceptor()
    assert c.connection_state == ConnectionState.ACTIVE
    for s in (2, 3, 4):
        await ft.reply(app(s))
    assert c.delivered == [2, 3, 4] and c._session.next_num_in == 5
    return c, ft, j


async def main():
    bad = []

    c, ft, j = await session()
    await ft.reply(ft.msg_sequence_reset(2**64, 10, is_gap_fill=False))
    e = c._session.next_num_in
    print("a) expected number after Reset(34=2**64, NewSeqNo=10):", e)
    if e not in (5, 10):
        bad.append(f"a) expected number 5 -> {e} (neither unchanged nor NewSeqNo=10)")

    c, ft, j = await session()
    j.cursor = FaultyCursor(j.cursor)
    j.cursor.armed = True
    await ft.reply(ft.msg_sequence_reset(2, 10, is_gap_fill=False))
    e = c._session.next_num_in
    for s in (2, 3, 4):
        try:
            await ft.reply(app(s))
        except Exception as exc:
            # journal refuses the duplicate row *after* on_message() was called and the
            #  counter was advanced; socket_read_task() logs and swallows this
            print("   (swallowed as in socket_read_task:", type(exc).__name__, ")")
    print("b) expected number after Reset(34=2, NewSeqNo=10) + sqlite fault:", e,
          "delivered:", c.delivered)
    if e not in (5, 10):
        bad.append(f"b) expected number 5 -> {e} (neither unchanged nor NewSeqNo=10)")
    if len(set(c.delivered)) != len(c.delivered):
        bad.append(f"b) delivered twice: {c.delivered}")

    if bad:
        print("C04 VIOLATED:", "; ".join(bad))
        sys.exit(1)
    print("ok")


asyncio.run(main())
