"""C04 genuine violation 2: a Logon received inside an established session (initiator
side) overwrites RESENDREQ_AWAITING -> a second ResendRequest for the still open gap.

Run (unmodified worktree):
    cd WT && PYTHONPATH=WT /venv/bin/python _mutant/genuine2.py
exit 1 + message = property violated, exit 0 = property holds.
"""
import asyncio
import logging
import sys

from asyncfix import FIXMessage, FIXTester, FMsg, FTag
from asyncfix.connection import AsyncFIXConnection, ConnectionState
from asyncfix.journaler import Journaler
from asyncfix.protocol import FIXProtocol44

logging.disable(logging.CRITICAL)


class App(AsyncFIXConnection):
    delivered = None

    async def on_message(self, msg):
        self.delivered.append(int(msg[FTag.MsgSeqNum]))

    async def on_connect(self):
        pass


def app(seq):
    return FIXMessage(FMsg.EXECUTIONREPORT, {FTag.MsgSeqNum: seq, FTag.Text: f"t{seq}"})


def resend_requests(ft):
    return [
        (int(m[FTag.BeginSeqNo]), int(m[FTag.EndSeqNo]))
        for m in ft.initiator_sent
        if m.msg_type == FMsg.RESENDREQUEST
    ]


async def session():
    c = App(FIXProtocol44(), "INITIATOR", "ACCEPTOR", journaler=Journaler(),
            host="localhost", port="64444")
    c.delivered = []
    c._connection_state = ConnectionState.NETWORK_CONN_ESTABLISHED
    ft = FIXTester(connection=c)
    await c.send_msg(ft.msg_logon())
    await ft.process_msg_acceptor()
    assert c.connection_state == ConnectionState.ACTIVE
    assert c._session.next_num_in == 2
    ft.reset_messages()
    return c, ft


async def main():
    bad = []

    # --- variant a: Logon numbered above the expected number while the gap is open
    c, ft = await session()
    await ft.reply(app(7))  # gap 2..6 -> ResendRequest(2,0)
    assert resend_requests(ft) == [(2, 0)]
    assert c.connection_state == ConnectionState.RESENDREQ_AWAITING
    lg = ft.msg_logon()
    lg[FTag.MsgSeqNum] = 8
    await ft.reply(lg)
    print("a) ResendRequests written:", resend_requests(ft),
          "expected number:", c._session.next_num_in, c.connection_state.name)
    if len(resend_requests(ft)) != 1:
        bad.append(f"a) {len(resend_requests(ft))} ResendRequests for one open gap 2..6")

    # --- variant b: Logon carrying the expected number while the gap is open
    c, ft = await session()
    await ft.reply(app(7))  # gap 2..6, watermark 7
    lg = ft.msg_logon()
    lg[FTag.MsgSeqNum] = 2
    lg[FTag.PossDupFlag] = "Y"
    await ft.reply(lg)  # accepted (expected -> 3) but state becomes ACTIVE
    st = c.connection_state
    await ft.reply(app(8))  # still numbered above the open gap 3..6
    print("b) state after in-order Logon:", st.name,
          "ResendRequests written:", resend_requests(ft))
    if len(resend_requests(ft)) != 1:
        bad.append(
            f"b) {len(resend_requests(ft))} ResendRequests although the gap "
            "(3..6, watermark 7) was never closed"
        )

    # --- variant c: acceptor side, Logon numbered above the expected number: the
    #     assert in _process_logon() aborts processing before the gap check, no
    #     ResendRequest at all for a message numbered above the expected one
    c = App(FIXProtocol44(), "INITIATOR", "ACCEPTOR", journaler=Journaler(),
            host="localhost", port="64444")
    c.delivered = []
    c._connection_state = ConnectionState.NETWORK_CONN_ESTABLISHED
    ft = FIXTester(connection=c)
    await ft.reply(ft.msg_logon())
    assert c.connection_state == ConnectionState.ACTIVE
    ft.reset_messages()
    lg = ft.msg_logon()
    lg[FTag.MsgSeqNum] = 7
    await ft.reply(lg)
    print("c) acceptor, Logon 34=7 while 2 is expected: ResendRequests written:",
          resend_requests(ft), c.connection_state.name)
    if len(resend_requests(ft)) != 1:
        bad.append("c) message numbered above the expected number, no ResendRequest")

    if bad:
        print("C04 VIOLATED:", "; ".join(bad))
        sys.exit(1)
    print("ok")


asyncio.run(main())
