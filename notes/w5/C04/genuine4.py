"""C04 genuine violation 4 (fault model, low severity): transport error at the drain()
of the ResendRequest -> the frame is written, the gap is not remembered, the next
message numbered above the expected one writes a second ResendRequest for the same gap.

Run (unmodified worktree):
    cd WT && PYTHONPATH=WT /venv/bin/python _mutant/genuine4.py
exit 1 + message = property violated, exit 0 = property holds.
"""
import asyncio
import logging
import sys

from asyncfix import FIXMessage, FIXTester, FMsg, FTag
from asyncfix.connection import AsyncFIXConnection, ConnectionState
from asyncfix.journaler import Journaler
from asyncfix.protocol import FIXProtocol44

logging.disable(logging.CRITICAL)


class App(AsyncFIXConnection):
    async def on_message(self, msg):
        pass

    async def on_connect(self):
        pass


def app(seq):
    return FIXMessage(FMsg.EXECUTIONREPORT, {FTag.MsgSeqNum: seq, FTag.Text: f"t{seq}"})


async def main():
    c = App(FIXProtocol44(), "INITIATOR", "ACCEPTOR", journaler=Journaler(),
            host="localhost", port="64444")
    c._connection_state = ConnectionState.NETWORK_CONN_ESTABLISHED
    ft = FIXTester(connection=c)
    await c.send_msg(ft.msg_logon())
    await ft.process_msg_acceptor()
    assert c.connection_state == ConnectionState.ACTIVE
    ft.reset_messages()

    calls = {"n": 0}

    async def drain():
        calls["n"] += 1
        if calls["n"] == 1:
            raise TimeoutError("drain: send timed out")

    c._socket_writer.drain = drain

    await ft.reply(app(7))  # gap 2..6: ResendRequest written, drain() fails
    st1 = c.connection_state
    await ft.reply(app(8))  # same gap still open
    rrs = [
        (int(m[FTag.BeginSeqNo]), int(m[FTag.EndSeqNo]))
        for m in ft.initiator_sent
        if m.msg_type == FMsg.RESENDREQUEST
    ]
    print("state after the failed drain:", st1.name, "| ResendRequest frames written:", rrs)
    if len(rrs) != 1:
        print(f"C04 VIOLATED: {len(rrs)} ResendRequests written for one open gap 2..6")
        sys.exit(1)
    print("ok")


asyncio.run(main())
