"""C04 genuine violation 1: a backward SequenceReset (Reset mode, no GapFillFlag) is honoured.

Run (unmodified worktree):
    cd WT && PYTHONPATH=WT /venv/bin/python _mutant/genuine1.py
exit 1 + message = property violated, exit 0 = property holds.
"""
import asyncio
import logging
import sys

from asyncfix import FIXMessage, FIXTester, FMsg, FTag
from asyncfix.connection import AsyncFIXConnection, ConnectionState
from asyncfix.journaler import Journaler
from asyncfix.protocol import FIXProtocol44

logging.disable(logging.CRITICAL)


class App(AsyncFIXConnection):
    delivered = None

    async def on_message(self, msg):
        self.delivered.append(int(msg[FTag.MsgSeqNum]))

    async def on_connect(self):
        pass


def app(seq):
    return FIXMessage(FMsg.EXECUTIONREPORT, {FTag.MsgSeqNum: seq, FTag.Text: f"t{seq}"})


async def main():
    c = App(FIXProtocol44(), "INITIATOR", "ACCEPTOR", journaler=Journaler(),
            host="localhost", port="64444")
    c.delivered = []
    c._connection_state = ConnectionState.NETWORK_CONN_ESTABLISHED
    ft = FIXTester(connection=c)
    await c.send_msg(ft.msg_logon())
    await ft.process_msg_acceptor()
    assert c.connection_state == ConnectionState.ACTIVE
    for s in (2, 3, 4):
        await ft.reply(app(s))
    assert c.delivered == [2, 3, 4] and c._session.next_num_in == 5

    # peer (misbehaving, correct CompIDs): SequenceReset-Reset 34=5 NewSeqNo=2
    await ft.reply(ft.msg_sequence_reset(5, 2, is_gap_fill=False))
    e_after = c._session.next_num_in
    await ft.reply(app(2))
    await ft.reply(app(3))
    print("expected number after backward reset:", e_after)
    print("delivered MsgSeqNums:", c.delivered)
    bad = []
    if e_after < 5:
        bad.append(f"expected inbound number moved backwards 5 -> {e_after}")
    if any(b <= a for a, b in zip(c.delivered, c.delivered[1:])):
        bad.append("delivered numbers are not strictly increasing / delivered twice")
    if bad:
        print("C04 VIOLATED:", "; ".join(bad))
        sys.exit(1)
    print("ok")


asyncio.run(main())
