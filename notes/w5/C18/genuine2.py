"""genuine2 - query() does not refuse non-integer tags (and leaks ValueError for the ones it refuses).

Run:  cd WT && PYTHONPATH=WT /venv/bin/python _mutant/genuine2.py     (exit 1 = property violated)
"""
import sys

from asyncfix.errors import FIXMessageError
from asyncfix.message import FIXContainer

m = FIXContainer({1: "acct", 2: "adv"})
bad = []
for tag in [1.7, 2.999, True, 1.0]:
    # every other entry point refuses / does not find these tags
    refused_by_set = False
    try:
        FIXContainer().set(tag, "x")
    except FIXMessageError:
        refused_by_set = True
    try:
        r = m.query(tag)
    except (FIXMessageError, ValueError, TypeError):
        continue
    if any(v is not None for v in r.values()):
        bad.append(f"query({tag!r}) -> {r!r}   (set refuses this tag: {refused_by_set}; "
                   f"`{tag!r} in m` is {tag in m})")
try:
    m.query("abc")
except FIXMessageError:
    pass
except ValueError as e:
    bad.append(f"query('abc') raises bare ValueError ({e}) instead of a FIXMessageError")

if bad:
    print("PROPERTY VIOLATED: non-integer tags are not refused by query()")
    for b in bad:
        print("  " + b)
    sys.exit(1)
print("ok")
