"""genuine1 - alternative decimal spellings of one integer tag are accepted but not normalised.

Run:  cd WT && PYTHONPATH=WT /venv/bin/python _mutant/genuine1.py     (exit 1 = property violated)
"""
import sys

from asyncfix.errors import DuplicatedTagError, TagNotFoundError
from asyncfix.message import FIXContainer

bad = []
for spelling in ["01", " 1", "+1"]:  # all satisfy int(spelling) == 1
    m = FIXContainer()
    m.set(1, "first")
    try:
        m.set(spelling, "second")  # tag 1 exists, no replace requested -> must be refused
    except DuplicatedTagError:
        continue
    problems = [f"set({spelling!r}) accepted although tag 1 exists (now {len(m.tags)} entries: {m})"]
    if m.get(1) != m.get(spelling):
        problems.append(f"get(1)={m.get(1)!r} but get({spelling!r})={m.get(spelling)!r}")
    n = FIXContainer()
    n.set(spelling, "v")
    try:
        n.get(1)
    except TagNotFoundError:
        problems.append(f"value written under {spelling!r} is not readable under int 1")
    if (1 in n) or n.is_group(1) is not None:
        pass
    else:
        problems.append(f"`1 in container` is False after set({spelling!r})")
    if n.query() != {"1": "v"}:
        problems.append(f"query() of that container reports {n.query()!r}")
    if n == {1: "v"} or n == FIXContainer({1: "v"}):
        pass
    else:
        problems.append("container is unequal to {1: 'v'} and to FIXContainer({1: 'v'})")
    bad.append((spelling, problems))

if bad:
    print("PROPERTY VIOLATED: decimal-string spellings of integer tag 1 create a second entry")
    for s, ps in bad:
        for p in ps:
            print(f"  [{s!r}] {p}")
    sys.exit(1)
print("ok")
