"""genuine4 - get_group_by_tag aborts with FIXMessageError when an earlier item holds gtag as a nested group.

Run:  cd WT && PYTHONPATH=WT /venv/bin/python _mutant/genuine4.py     (exit 1 = property violated)
"""
import sys

from asyncfix.errors import FIXMessageError, TagNotFoundError
from asyncfix.message import FIXContainer

m = FIXContainer()
m.add_group(78, {539: [{524: "nested"}]})  # item 0: tag 539 is a nested group
m.add_group(78, {539: "wanted"})  # item 1: tag 539 is a simple tag with the wanted value
bad = []
try:
    r = m.get_group_by_tag(78, 539, "wanted")
    if r is not m.get_group_by_index(78, 1):
        bad.append(f"returned wrong item {r}")
except TagNotFoundError as e:
    bad.append(f"TagNotFoundError although item 1 matches: {e}")
except FIXMessageError as e:
    bad.append(f"get_group_by_tag(78, 539, 'wanted') raised FIXMessageError({e}) although item 1 "
               "matches; the only documented error is TagNotFoundError")
# same without any matching item: documented answer is TagNotFoundError
m2 = FIXContainer()
m2.add_group(78, {539: [{524: "nested"}]})
try:
    m2.get_group_by_tag(78, 539, "absent")
    bad.append("returned an item for an absent value")
except TagNotFoundError:
    pass
except FIXMessageError as e:
    bad.append(f"no item matches: raised FIXMessageError({e}) instead of TagNotFoundError")
if bad:
    print("PROPERTY VIOLATED: group lookup by inner tag")
    for b in bad:
        print("  " + b)
    sys.exit(1)
print("ok")
