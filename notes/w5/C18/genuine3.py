"""genuine3 - get_group_by_index: negative index out of range leaks IndexError.

Run:  cd WT && PYTHONPATH=WT /venv/bin/python _mutant/genuine3.py     (exit 1 = property violated)
"""
import sys

from asyncfix.errors import FIXMessageError, TagNotFoundError
from asyncfix.message import FIXContainer

m = FIXContainer()
m.set_group(78, [{79: "a"}, {79: "b"}])
bad = []
for idx in [2, 100, -3, -100]:
    try:
        r = m.get_group_by_index(78, idx)
        bad.append(f"index {idx} returned {r}")
    except TagNotFoundError:
        pass  # the documented error
    except Exception as e:  # noqa
        bad.append(f"get_group_by_index(78, {idx}) raised {type(e).__name__}: {e} "
                   f"(is FIXMessageError: {isinstance(e, FIXMessageError)}); "
                   "documented error is TagNotFoundError, as raised for index 2")
if bad:
    print("PROPERTY VIOLATED: group lookup by index raises an undocumented error")
    for b in bad:
        print("  " + b)
    sys.exit(1)
print("ok")
