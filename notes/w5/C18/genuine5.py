"""genuine5 - equality is not a function of the tag/value content alone.

(a) two containers with the same tag/value content inserted in different order are unequal, while each
    of them equals the *dict* form of the other (dict comparison ignores order): == is not transitive;
(b) container == dict with a group tag: False or FIXMessageError depending on the iteration order of the dict.

Run:  cd WT && PYTHONPATH=WT /venv/bin/python _mutant/genuine5.py     (exit 1 = property violated)
"""
import sys

from asyncfix.errors import FIXMessageError
from asyncfix.message import FIXContainer

bad = []
a = FIXContainer({1: "x", 2: "y"})
b = FIXContainer({2: "y", 1: "x"})
d = {1: "x", 2: "y"}
if (a == d) and (b == d) and not (a == b):
    bad.append("(a) a == d and b == d but a != b  (a=%s, b=%s, d=%r)" % (a, b, d))

g = FIXContainer({1: "x"})
g.set_group(78, [{79: "a"}])


def cmp(c, dct):
    try:
        return c == dct
    except FIXMessageError:
        return "FIXMessageError"


r1 = cmp(g, {1: "DIFFERENT", 78: "1"})
r2 = cmp(g, {78: "1", 1: "DIFFERENT"})
if r1 != r2:
    bad.append(f"(b) same dict content, different key order: {r1!r} versus {r2!r}")

if bad:
    print("PROPERTY VIOLATED: equality does not depend on the tag/value content alone")
    for x in bad:
        print("  " + x)
    sys.exit(1)
print("ok")
