"""C05 genuine violation 2: an sqlite error in the journal write consumes a MsgSeqNum
(and can leave a journal row for a message that never reached the stream writer).

Run (unmodified tree):
    cd WT && PYTHONPATH=WT /venv/bin/python _mutant/genuine2.py
exit 1 + message = property violated.

Fault: the journal FILE is briefly locked by another sqlite connection (backup job,
sqlite3 shell, second process) -> sqlite3.OperationalError('database is locked').
  variant 1: other connection holds the write lock  -> INSERT fails
  variant 2: other connection holds a read lock      -> INSERT + UPDATE succeed,
             COMMIT fails; no rollback, the row stays in the open transaction and
             is committed together with the next message.
In both cases Codec.encode() already allocated the number, nothing is written to the
socket, the next message leaves with a gap. (busy_timeout is only shortened to keep
the demo fast; default is 5 s of a blocked event loop and the same error.)
"""
import asyncio
import logging
import sys

from asyncfix import FIXMessage, FMsg, FTag
from asyncfix.codec import Codec
from asyncfix.connection import AsyncFIXConnection, ConnectionState
from asyncfix.errors import RepeatingTagError
from asyncfix.journaler import Journaler
from asyncfix.message import MessageDirection
from asyncfix.protocol import FIXProtocol44
from asyncfix.session import FIXSession


class W:
    def __init__(self):
        self.frames = []

    def write(self, b):
        self.frames.append(bytes(b))

    async def drain(self):
        pass

    def close(self):
        pass

    async def wait_closed(self):
        pass


class Conn(AsyncFIXConnection):
    async def on_message(self, msg):
        pass

    async def on_connect(self):
        pass


def peer_frame(conn, msg_type, seq, tags):
    s = FIXSession(0, conn._session.sender_comp_id, conn._session.target_comp_id)
    s.next_num_out = seq
    return Codec(FIXProtocol44()).encode(FIXMessage(msg_type, tags), s).encode()


def check(conn, j, w, where):
    """wire numbers consecutive == journal keys, stored == last, memory == last+1."""
    s = conn._session
    wire = [Journaler.find_seq_no(f) for f in w.frames]
    j.cursor.execute("select outboundSeqNo from session where sessionId=?", (s.key,))
    stored = next(j.cursor)[0]
    jr = {
        Journaler.find_seq_no(m): m
        for m in j.recover_messages(s, MessageDirection.OUTBOUND, 0, 2**62)
    }
    errs = []
    if wire != list(range(wire[0], wire[0] + len(wire))):
        errs.append(f"wire MsgSeqNums not consecutive: {wire}")
    if [jr.get(n) for n in wire] != w.frames:
        errs.append(f"journal rows {sorted(jr)} != wire frames {wire}")
    if stored != wire[-1]:
        errs.append(f"stored outboundSeqNo {stored} != last sent {wire[-1]}")
    if s.next_num_out != wire[-1] + 1:
        errs.append(f"session.next_num_out {s.next_num_out} != last sent + 1 ({wire[-1] + 1})")
    if errs:
        print(f"C05 VIOLATED {where}:")
        for e in errs:
            print("   ", e)
    return not errs


async def main():
    import os
    import sqlite3
    import tempfile

    fn = tempfile.mktemp(suffix=".db")
    j = Journaler(fn)
    j.conn.execute("PRAGMA busy_timeout=50")
    c = Conn(FIXProtocol44(), "INIT", "ACC", j, "localhost", 1, 30, logging.getLogger("g"))
    w = W()
    c._socket_writer = w
    c._connection_state = ConnectionState.NETWORK_CONN_ESTABLISHED
    lg = {FTag.EncryptMethod: 0, FTag.HeartBtInt: 30}
    await c.send_msg(FIXMessage(FMsg.LOGON, lg))
    m, _, raw = c._codec.decode(peer_frame(c, FMsg.LOGON, 1, lg))
    await c._process_message(m, raw)
    assert c.connection_state == ConnectionState.ACTIVE
    await c.send_msg(FIXMessage("D", {11: "ord-1"}))
    ok = check(c, j, w, "after logon + 1 order (must hold)")
    assert ok

    other = sqlite3.connect(fn, timeout=0.05)
    # variant 1
    other.execute("BEGIN IMMEDIATE")
    try:
        await c.send_msg(FIXMessage("D", {11: "ord-2"}))
    except Exception as exc:
        print(f"send while journal write-locked: raised {type(exc).__name__}: {exc}")
    other.rollback()
    ok = check(c, j, w, "after send failed in journal INSERT") and ok
    await c.send_msg(FIXMessage("D", {11: "ord-3"}))
    ok = check(c, j, w, "after next ordinary send (variant 1)") and ok

    # variant 2
    cur = other.execute("select * from message")
    cur.fetchone()
    try:
        await c.send_msg(FIXMessage("D", {11: "ord-4"}))
    except Exception as exc:
        print(f"send while journal read-locked: raised {type(exc).__name__}: {exc}")
    cur.close()
    other.rollback()
    await c.send_msg(FIXMessage("D", {11: "ord-5"}))
    ok = check(c, j, w, "after next ordinary send (variant 2)") and ok
    wire = [Journaler.find_seq_no(f) for f in w.frames]
    jr = [Journaler.find_seq_no(x) for x in j.recover_messages(c._session, MessageDirection.OUTBOUND, 0, 2**62)]
    ghost = sorted(set(jr) - set(wire))
    if ghost:
        print(f"    journal holds outbound rows {ghost} that were never passed to the writer (wire {wire})")
        ok = False
    other.close()
    os.unlink(fn)
    if not ok:
        sys.exit(1)
    print("OK: property holds")


asyncio.run(main())
