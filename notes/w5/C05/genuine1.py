"""C05 genuine violation 1: a send that fails inside encoding consumes a MsgSeqNum.

Run (unmodified tree):
    cd WT && PYTHONPATH=WT /venv/bin/python _mutant/genuine1.py
exit 1 + message = property violated.

History: logon (34=1), NewOrder (34=2), then two sends in ACTIVE state whose
encoding raises AFTER Codec.encode() has already called
session.allocate_next_num_out():
  a) Text(58) holds a lone surrogate  -> UnicodeEncodeError in str.encode('utf-8')
  b) a tag holds RepeatingTagError (this is what Codec.decode() leaves in a decoded
     message with an undeclared repeating group, i.e. application forwards a field
     of / a copy of such a message)     -> RepeatingTagError in Codec._addTag
then one more ordinary NewOrder. It leaves with 34=5: numbers 3 and 4 never left,
are not in the journal, and stored counter (2) != in-memory counter - 1.
"""
import asyncio
import logging
import sys

from asyncfix import FIXMessage, FMsg, FTag
from asyncfix.codec import Codec
from asyncfix.connection import AsyncFIXConnection, ConnectionState
from asyncfix.errors import RepeatingTagError
from asyncfix.journaler import Journaler
from asyncfix.message import MessageDirection
from asyncfix.protocol import FIXProtocol44
from asyncfix.session import FIXSession


class W:
    def __init__(self):
        self.frames = []

    def write(self, b):
        self.frames.append(bytes(b))

    async def drain(self):
        pass

    def close(self):
        pass

    async def wait_closed(self):
        pass


class Conn(AsyncFIXConnection):
    async def on_message(self, msg):
        pass

    async def on_connect(self):
        pass


def peer_frame(conn, msg_type, seq, tags):
    s = FIXSession(0, conn._session.sender_comp_id, conn._session.target_comp_id)
    s.next_num_out = seq
    return Codec(FIXProtocol44()).encode(FIXMessage(msg_type, tags), s).encode()


def check(conn, j, w, where):
    """wire numbers consecutive == journal keys, stored == last, memory == last+1."""
    s = conn._session
    wire = [Journaler.find_seq_no(f) for f in w.frames]
    j.cursor.execute("select outboundSeqNo from session where sessionId=?", (s.key,))
    stored = next(j.cursor)[0]
    jr = {
        Journaler.find_seq_no(m): m
        for m in j.recover_messages(s, MessageDirection.OUTBOUND, 0, 2**62)
    }
    errs = []
    if wire != list(range(wire[0], wire[0] + len(wire))):
        errs.append(f"wire MsgSeqNums not consecutive: {wire}")
    if [jr.get(n) for n in wire] != w.frames:
        errs.append(f"journal rows {sorted(jr)} != wire frames {wire}")
    if stored != wire[-1]:
        errs.append(f"stored outboundSeqNo {stored} != last sent {wire[-1]}")
    if s.next_num_out != wire[-1] + 1:
        errs.append(f"session.next_num_out {s.next_num_out} != last sent + 1 ({wire[-1] + 1})")
    if errs:
        print(f"C05 VIOLATED {where}:")
        for e in errs:
            print("   ", e)
    return not errs


async def main():
    j = Journaler()
    c = Conn(FIXProtocol44(), "INIT", "ACC", j, "localhost", 1, 30, logging.getLogger("g"))
    w = W()
    c._socket_writer = w
    c._connection_state = ConnectionState.NETWORK_CONN_ESTABLISHED
    lg = {FTag.EncryptMethod: 0, FTag.HeartBtInt: 30}
    await c.send_msg(FIXMessage(FMsg.LOGON, lg))
    m, _, raw = c._codec.decode(peer_frame(c, FMsg.LOGON, 1, lg))
    await c._process_message(m, raw)
    assert c.connection_state == ConnectionState.ACTIVE
    await c.send_msg(FIXMessage("D", {11: "ord-1"}))
    ok = check(c, j, w, "after logon + 1 order (must hold)")
    assert ok

    for label, bad in (
        ("lone surrogate in Text(58)", FIXMessage("D", {11: "ord-2", 58: "caf\ud800"})),
        ("tag holding RepeatingTagError", FIXMessage("D", {11: "ord-3"})),
    ):
        if "Repeating" in label:
            bad.set(448, RepeatingTagError)
        try:
            await c.send_msg(bad)
            print("unexpected: sent", label)
        except Exception as exc:
            print(f"send with {label}: raised {type(exc).__name__}")
        ok = check(c, j, w, f"after failed send ({label})") and ok

    await c.send_msg(FIXMessage("D", {11: "ord-4"}))
    ok = check(c, j, w, "after the next ordinary send") and ok
    if not ok:
        sys.exit(1)
    print("OK: property holds")


asyncio.run(main())
