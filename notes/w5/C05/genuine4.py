"""C05 genuine violation 4: send_msg() checks the connection state, then suspends in the
application callback on_state_change() (state NETWORK_CONN_ESTABLISHED ->
LOGON_INITIAL_SENT) and does not look at the state again. If the connection is lost
while the callback is suspended, the Logon is still encoded and journaled in state
DISCONNECTED_BROKEN_CONN: a number is consumed and a journal row written for a send
that cannot be made in that state (it ends in AttributeError on the missing writer,
not in FIXConnectionError), and nothing reaches any stream writer.

Run (unmodified tree):
    cd WT && PYTHONPATH=WT /venv/bin/python _mutant/genuine4.py
exit 1 + message = property violated.

Interleaving: task A: send_msg(Logon) ... suspended in on_state_change(LOGON_INITIAL_SENT)
              task B: disconnect(DISCONNECTED_BROKEN_CONN)   (what socket_read_task does on EOF,
                      e.g. the acceptor closes the connection right after accept)
              task A resumes.
"""
import asyncio
import logging
import sys

from asyncfix import FIXMessage, FMsg, FTag
from asyncfix.codec import Codec
from asyncfix.connection import AsyncFIXConnection, ConnectionState
from asyncfix.errors import RepeatingTagError
from asyncfix.journaler import Journaler
from asyncfix.message import MessageDirection
from asyncfix.protocol import FIXProtocol44
from asyncfix.session import FIXSession


class W:
    def __init__(self):
        self.frames = []

    def write(self, b):
        self.frames.append(bytes(b))

    async def drain(self):
        pass

    def close(self):
        pass

    async def wait_closed(self):
        pass


class Conn(AsyncFIXConnection):
    async def on_message(self, msg):
        pass

    async def on_connect(self):
        pass


def peer_frame(conn, msg_type, seq, tags):
    s = FIXSession(0, conn._session.sender_comp_id, conn._session.target_comp_id)
    s.next_num_out = seq
    return Codec(FIXProtocol44()).encode(FIXMessage(msg_type, tags), s).encode()


def check(conn, j, w, where):
    """wire numbers consecutive == journal keys, stored == last, memory == last+1."""
    s = conn._session
    wire = [Journaler.find_seq_no(f) for f in w.frames]
    j.cursor.execute("select outboundSeqNo from session where sessionId=?", (s.key,))
    stored = next(j.cursor)[0]
    jr = {
        Journaler.find_seq_no(m): m
        for m in j.recover_messages(s, MessageDirection.OUTBOUND, 0, 2**62)
    }
    errs = []
    if wire != list(range(wire[0], wire[0] + len(wire))):
        errs.append(f"wire MsgSeqNums not consecutive: {wire}")
    if [jr.get(n) for n in wire] != w.frames:
        errs.append(f"journal rows {sorted(jr)} != wire frames {wire}")
    if stored != wire[-1]:
        errs.append(f"stored outboundSeqNo {stored} != last sent {wire[-1]}")
    if s.next_num_out != wire[-1] + 1:
        errs.append(f"session.next_num_out {s.next_num_out} != last sent + 1 ({wire[-1] + 1})")
    if errs:
        print(f"C05 VIOLATED {where}:")
        for e in errs:
            print("   ", e)
    return not errs


class SlowApp(Conn):
    gate = None

    async def on_state_change(self, state):
        if state == ConnectionState.LOGON_INITIAL_SENT:
            await self.gate.wait()


async def main():
    j = Journaler()
    c = SlowApp(FIXProtocol44(), "INIT", "ACC", j, "localhost", 1, 30, logging.getLogger("g"))
    c.gate = asyncio.Event()
    w = W()
    c._socket_writer = w
    c._socket_reader = object()
    c._connection_state = ConnectionState.NETWORK_CONN_ESTABLISHED
    lg = {FTag.EncryptMethod: 0, FTag.HeartBtInt: 30}

    task_a = asyncio.create_task(c.send_msg(FIXMessage(FMsg.LOGON, lg)))
    await asyncio.sleep(0)
    assert c.connection_state == ConnectionState.LOGON_INITIAL_SENT
    await c.disconnect(ConnectionState.DISCONNECTED_BROKEN_CONN)  # task B
    assert c.connection_state == ConnectionState.DISCONNECTED_BROKEN_CONN
    c.gate.set()
    try:
        await task_a
        print("send_msg returned normally")
    except Exception as exc:
        print(f"send_msg(Logon) finished with {type(exc).__name__}: {exc}")

    s = c._session
    j.cursor.execute("select outboundSeqNo from session where sessionId=?", (s.key,))
    stored = next(j.cursor)[0]
    jr = j.recover_messages(s, MessageDirection.OUTBOUND, 0, 2**62)
    print(f"state={c.connection_state.name} frames passed to writer={len(w.frames)} "
          f"next_num_out={s.next_num_out} stored outboundSeqNo={stored} journal rows={len(jr)}")
    if s.next_num_out != 1 or stored != 0 or jr:
        print("C05 VIOLATED: a send made in a DISCONNECTED state consumed MsgSeqNum 1 and left a "
              "journal entry, nothing was sent")
        sys.exit(1)
    print("OK: property holds")


asyncio.run(main())
