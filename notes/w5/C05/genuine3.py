"""C05 genuine violation 3: SequenceReset(35=4) sent by the application through
send_msg() is journaled under its MsgSeqNum without consuming it; the next new message
is allocated the same number, fails with DuplicateSeqNoError, is lost, and the number
after it is used -> the accepted new message never leaves, stored and in-memory
counters disagree.

Run (unmodified tree):
    cd WT && PYTHONPATH=WT /venv/bin/python _mutant/genuine3.py
exit 1 + message = property violated.

History: logon (1), order (2), application sends SequenceReset-GapFill 34=3 36=4 (the
only way the codec accepts a SequenceReset: MsgSeqNum populated by the caller, a
legal session message type, quantifier: 'application and session message types'),
then an ordinary order.
"""
import asyncio
import logging
import sys

from asyncfix import FIXMessage, FMsg, FTag
from asyncfix.codec import Codec
from asyncfix.connection import AsyncFIXConnection, ConnectionState
from asyncfix.errors import RepeatingTagError
from asyncfix.journaler import Journaler
from asyncfix.message import MessageDirection
from asyncfix.protocol import FIXProtocol44
from asyncfix.session import FIXSession


class W:
    def __init__(self):
        self.frames = []

    def write(self, b):
        self.frames.append(bytes(b))

    async def drain(self):
        pass

    def close(self):
        pass

    async def wait_closed(self):
        pass


class Conn(AsyncFIXConnection):
    async def on_message(self, msg):
        pass

    async def on_connect(self):
        pass


def peer_frame(conn, msg_type, seq, tags):
    s = FIXSession(0, conn._session.sender_comp_id, conn._session.target_comp_id)
    s.next_num_out = seq
    return Codec(FIXProtocol44()).encode(FIXMessage(msg_type, tags), s).encode()


def check(conn, j, w, where):
    """wire numbers consecutive == journal keys, stored == last, memory == last+1."""
    s = conn._session
    wire = [Journaler.find_seq_no(f) for f in w.frames]
    j.cursor.execute("select outboundSeqNo from session where sessionId=?", (s.key,))
    stored = next(j.cursor)[0]
    jr = {
        Journaler.find_seq_no(m): m
        for m in j.recover_messages(s, MessageDirection.OUTBOUND, 0, 2**62)
    }
    errs = []
    if wire != list(range(wire[0], wire[0] + len(wire))):
        errs.append(f"wire MsgSeqNums not consecutive: {wire}")
    if [jr.get(n) for n in wire] != w.frames:
        errs.append(f"journal rows {sorted(jr)} != wire frames {wire}")
    if stored != wire[-1]:
        errs.append(f"stored outboundSeqNo {stored} != last sent {wire[-1]}")
    if s.next_num_out != wire[-1] + 1:
        errs.append(f"session.next_num_out {s.next_num_out} != last sent + 1 ({wire[-1] + 1})")
    if errs:
        print(f"C05 VIOLATED {where}:")
        for e in errs:
            print("   ", e)
    return not errs


async def main():
    j = Journaler()
    c = Conn(FIXProtocol44(), "INIT", "ACC", j, "localhost", 1, 30, logging.getLogger("g"))
    w = W()
    c._socket_writer = w
    c._connection_state = ConnectionState.NETWORK_CONN_ESTABLISHED
    lg = {FTag.EncryptMethod: 0, FTag.HeartBtInt: 30}
    await c.send_msg(FIXMessage(FMsg.LOGON, lg))
    m, _, raw = c._codec.decode(peer_frame(c, FMsg.LOGON, 1, lg))
    await c._process_message(m, raw)
    assert c.connection_state == ConnectionState.ACTIVE
    await c.send_msg(FIXMessage("D", {11: "ord-1"}))
    ok = check(c, j, w, "after logon + 1 order (must hold)")
    assert ok

    n = c._session.next_num_out
    await c.send_msg(
        FIXMessage(FMsg.SEQUENCERESET, {FTag.MsgSeqNum: n, FTag.NewSeqNo: n + 1, FTag.GapFillFlag: "Y"})
    )
    ok = check(c, j, w, f"after application SequenceReset 34={n}") and ok
    try:
        await c.send_msg(FIXMessage("D", {11: "ord-2"}))
        print("ord-2 sent")
    except Exception as exc:
        print(f"ordinary send in ACTIVE state after it: raised {type(exc).__name__}: {exc}")
        ok = False
    ok = check(c, j, w, "after the failed ordinary send") and ok
    await c.send_msg(FIXMessage("D", {11: "ord-3"}))
    wire = [Journaler.find_seq_no(f) for f in w.frames]
    print("wire numbers:", wire, "- ord-2 was accepted (state ACTIVE) but never left")
    if not ok:
        sys.exit(1)
    print("OK: property holds")


asyncio.run(main())
