"""genuine1 - the cancel-reject message kind ('9') ignores the current status.

Run:  cd WT && PYTHONPATH=WT /venv/bin/python _mutant/genuine1.py
Exit 1 + message when the property is violated (it is, on the unmodified tree).
"""
import sys

from asyncfix import FIXMessage, FMsg, FTag
from asyncfix.errors import FIXError
from asyncfix.protocol.common import FExecType as E
from asyncfix.protocol.common import FOrdStatus as S
from asyncfix.protocol.order_single import FIXNewOrderSingle as O

FINISHED = [S.FILLED, S.CANCELED, S.REJECTED, S.EXPIRED]
ACKED = [s for s in S if s not in (S.CREATED, S.PENDING_NEW)]
bad = []


def call(st, kind, et, ms):
    try:
        return O.change_status(st, kind, et, ms, raise_on_err=True)
    except FIXError:
        return "ERR"


for et in list(E) + [0]:
    for ms in S:
        # 1. finished statuses are absorbing
        for st in FINISHED:
            r = call(st, FMsg.ORDERCANCELREJECT, et, ms)
            if r not in ("ERR", None) and r != st:
                bad.append(f"finished {st.name} --9/{ms.name}--> {r}")
        # 2. a just-created order accepts only pending-new or rejected
        r = call(S.CREATED, FMsg.ORDERCANCELREJECT, et, ms)
        if r not in ("ERR", None) and ms not in (S.PENDING_NEW, S.REJECTED):
            bad.append(f"CREATED --9/{ms.name}--> {r}")
        # 3. no report moves an acknowledged order back to pending-new
        for st in ACKED:
            r = call(st, FMsg.ORDERCANCELREJECT, et, S.PENDING_NEW)
            if r not in ("ERR", None):
                bad.append(f"acked {st.name} --9/PENDING_NEW--> {r}")

# end-to-end through the public order object
o = O("ord1", "TICK", "1", 10.0, 5)
o.new_req()
o.status = S.FILLED  # what process_execution_report(FILLED) leaves behind
m = FIXMessage(FMsg.ORDERCANCELREJECT)
m[FTag.ClOrdID] = "ord1--2"
m[FTag.OrigClOrdID] = "ord1--1"
m[FTag.OrdStatus] = "0"  # e.g. a late / re-sent reject that still says New
m[FTag.CxlRejResponseTo] = "1"
was = o.is_finished()
o.process_cancel_rej_report(m)
e2e = (was, o.status, o.is_finished(), o.can_cancel())

uniq = sorted(set(bad))
if uniq or e2e[1] != S.FILLED:
    print(f"VIOLATION: {len(uniq)} distinct bad cells for message kind '9', e.g.:")
    for line in uniq[:8]:
        print("   ", line)
    print(
        f"end-to-end: FILLED order (is_finished={e2e[0]}) + OrderCancelReject(OrdStatus=0)"
        f" -> status={e2e[1].name}, is_finished={e2e[2]}, can_cancel={e2e[3]}"
    )
    sys.exit(1)
print("ok")
