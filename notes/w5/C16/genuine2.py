"""genuine2 - an unsupported message kind raises FIXError even with raise_on_err=False.

Run:  cd WT && PYTHONPATH=WT /venv/bin/python _mutant/genuine2.py
Exit 1 + message when the property is violated (it is, on the unmodified tree).
"""
import sys

from asyncfix import FMsg
from asyncfix.errors import FIXError
from asyncfix.protocol.common import FOrdStatus as S
from asyncfix.protocol.order_single import FIXNewOrderSingle as O

bad = []
for kind in (FMsg.ADVERTISEMENT, FMsg.NEWORDERSINGLE, "D", "j", "", None):
    try:
        r = O.change_status(S.NEW, kind, 0, S.FILLED, raise_on_err=False)
        if r is not None:
            bad.append(f"kind={kind!r}: returned {r!r}")
    except FIXError as exc:
        bad.append(f"kind={kind!r}: raised FIXError({exc}) although raise_on_err=False")
if bad:
    print("VIOLATION: error signalled although the caller asked not to raise:")
    for b in bad:
        print("   ", b)
    sys.exit(1)
print("ok")
