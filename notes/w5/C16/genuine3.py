"""genuine3 - the request kinds ('F','G') return ANY requested status, incl. CREATED.

Run:  cd WT && PYTHONPATH=WT /venv/bin/python _mutant/genuine3.py
Exit 1 + message when the property is violated (it is, on the unmodified tree).
"""
import sys

from asyncfix.protocol.common import FOrdStatus as S
from asyncfix.protocol.order_single import FIXNewOrderSingle as O

bad = []
for st in (S.NEW, S.PARTIALLY_FILLED, S.SUSPENDED):
    for kind in ("F", "G"):
        for ms in (S.CREATED, S.PENDING_NEW):
            r = O.change_status(st, kind, 0, ms, raise_on_err=False)
            if r is not None:
                bad.append(f"{st.name} --{kind}/{ms.name}--> {S(r).name}")
if bad:
    print("VIOLATION: acknowledged order moved back to created / pending-new:")
    for b in bad:
        print("   ", b)
    sys.exit(1)
print("ok")
