"""genuine3: a valid frame that arrives in the same read BEHIND a frame the decoder
rejects is not handed over (until some later read returns) - in a separate read it
is handed over at once.

Run (from the worktree root WT):
    cd WT && PYTHONPATH=WT /venv/bin/python _mutant/genuine3.py
Exit 1 + message = property violated, exit 0 = not reproduced.

Peer stream: Logon(34=1), A = News(35=B, 34=2) carrying RawDataLength(95)=3 /
RawData(96)="a<SOH>b" (FIX data fields may contain SOH, BodyLength and CheckSum of
A are correct), B = NewOrderSingle(34=3).
The decoder does not support SOH inside data fields and drops A in every partition;
what depends on the partition is B:
  P1 reads: Logon | A | B      -> B is handed to _process_message
  P2 reads: Logon | A+B        -> B stays in _msg_buffer, nothing is handed over
Real AsyncFIXConnection.socket_read_task, socket mocked as in tests/test_connection.py.
"""
import asyncio
import logging
import sys
from unittest.mock import AsyncMock, MagicMock

from asyncfix.connection import AsyncFIXConnection, ConnectionState
from asyncfix.journaler import Journaler
from asyncfix.protocol import FIXProtocol44

logging.disable(logging.CRITICAL)
SOH = b"\x01"


def frame(msg_type, seq, extra=()):
    body = b"35=" + msg_type + SOH + b"49=PEER\x0156=SRV\x0134=%d\x01" % seq
    body += b"52=20230919-07:13:26.808\x01"
    for t, v in extra:
        body += b"%d=%s\x01" % (t, v)
    m = b"8=FIX.4.4\x019=%d\x01" % len(body) + body
    return m + b"10=%03d\x01" % (sum(m) % 256)


class Conn(AsyncFIXConnection):
    def __init__(self):
        super().__init__(FIXProtocol44(), "SRV", "PEER", Journaler(), "localhost", 64444)
        self.handed = []

    async def on_connect(self):
        pass

    async def on_message(self, msg):
        pass

    async def _process_message(self, msg, raw_msg):
        self.handed.append("%s/34=%s" % (msg.msg_type.value, msg["34"]))
        await super()._process_message(msg, raw_msg)


async def feed(chunks):
    conn = Conn()
    conn._connection_state = ConnectionState.NETWORK_CONN_ESTABLISHED
    conn._socket_reader = MagicMock()
    conn._socket_reader.read = AsyncMock(
        side_effect=list(chunks) + [asyncio.CancelledError]
    )
    conn._socket_writer = MagicMock()
    conn._socket_writer.drain = AsyncMock()
    conn._socket_writer.wait_closed = AsyncMock()
    await asyncio.wait_for(conn.socket_read_task(), 5)
    sent = [c.args[0] for c in conn._socket_writer.write.call_args_list]
    return conn.handed, bytes(conn._msg_buffer), sum(b"\x0135=2\x01" in s for s in sent)


async def main():
    logon = frame(b"A", 1, [(98, b"0"), (108, b"30")])
    a = frame(b"B", 2, [(148, b"headline"), (95, b"3"), (96, b"a\x01b")])
    b = frame(b"D", 3, [(11, b"ORD-B"), (55, b"VOD.L"), (38, b"1"), (44, b"1.5")])
    p1 = await feed([logon, a, b])
    p2 = await feed([logon, a + b])
    print("P1 Logon | A | B : handed over", p1[0], " ResendRequests sent:", p1[2],
          " left in buffer:", len(p1[1]), "bytes")
    print("P2 Logon | A+B   : handed over", p2[0], " ResendRequests sent:", p2[2],
          " left in buffer:", len(p2[1]), "bytes", "(= frame B)" if p2[1] == b else "")
    if p1[0] != p2[0]:
        print(
            "VIOLATION: same bytes, other partition -> B is not handed over: the read "
            "loop stops at the first decode() that returns no message, although the "
            "rejected frame A was consumed and the complete frame B is in the buffer"
        )
        return 1
    print("not reproduced")
    return 0


sys.exit(asyncio.run(main()))
