"""genuine2: the outcome depends on whether a frame arrives in the same read as
the Logout before it (chunk dependence through the never-reset receive buffer).

Run (from the worktree root WT):
    cd WT && PYTHONPATH=WT /venv/bin/python _mutant/genuine2.py
Exit 1 + message = property violated, exit 0 = not reproduced.

History (real TCP, AsyncFIXDummyServer as the receiving connection), peer sends
  connection 1: Logon(34=1), Logout(34=2), Heartbeat(34=3)   (legal: the side that
                started the logout keeps sending until the Logout is confirmed)
  connection 2: Logon(34=3), NewOrderSingle(34=4)
Partition P1: Logout and Heartbeat are written separately (two reads);
Partition P2: Logout+Heartbeat are written at once (one read).
Same bytes, same order - the handed over messages must be the same.
"""
import asyncio
import logging
import os
import socket
import sys

from asyncfix import FIXMessage, FMsg, FTag
from asyncfix.connection import ConnectionState
from asyncfix.connection_server import AsyncFIXDummyServer
from asyncfix.journaler import Journaler
from asyncfix.message import MessageDirection
from asyncfix.protocol import FIXProtocol44

logging.disable(logging.CRITICAL)
SOH = b"\x01"


def frame(msg_type, seq, extra=()):
    body = b"35=" + msg_type + SOH + b"49=PEER\x0156=SRV\x0134=%d\x01" % seq
    body += b"52=20230919-07:13:26.808\x01"
    for t, v in extra:
        body += b"%d=%s\x01" % (t, v)
    m = b"8=FIX.4.4\x019=%d\x01" % len(body) + body
    return m + b"10=%03d\x01" % (sum(m) % 256)


class Srv(AsyncFIXDummyServer):
    def __init__(self, port):
        super().__init__(FIXProtocol44(), "SRV", "PEER", Journaler(), "127.0.0.1", port)
        self.app = []
        self.logons = 0

    async def on_connect(self):
        pass

    async def on_logon(self, is_healthy):
        self.logons += 1

    async def on_message(self, msg):
        self.app.append(msg[FTag.ClOrdID])


async def wait_for(cond, timeout=5.0):
    t = 0.0
    while not cond() and t < timeout:
        await asyncio.sleep(0.05)
        t += 0.05
    return cond()


async def scenario(joined):
    s = socket.socket()
    s.bind(("127.0.0.1", 0))
    port = s.getsockname()[1]
    s.close()
    srv = Srv(port)
    srv_task = asyncio.create_task(srv.connect())
    await asyncio.sleep(0.2)

    # ---- connection 1
    r, w = await asyncio.open_connection("127.0.0.1", port)
    w.write(frame(b"A", 1, [(98, b"0"), (108, b"30")]))
    await w.drain()
    assert await wait_for(lambda: srv.logons == 1), "no logon on connection 1"
    logout, hbt = frame(b"5", 2), frame(b"0", 3)
    if joined:
        w.write(logout + hbt)
        await w.drain()
    else:
        w.write(logout)
        await w.drain()
        await asyncio.sleep(0.5)
        try:
            w.write(hbt)
            await w.drain()
        except OSError:
            pass
    assert await wait_for(
        lambda: srv.connection_state == ConnectionState.DISCONNECTED_WCONN_TODAY
    ), "server did not process the Logout"
    await asyncio.sleep(0.3)
    w.close()
    stale = bytes(srv._msg_buffer)

    # ---- connection 2: only valid frames
    r, w = await asyncio.open_connection("127.0.0.1", port)
    w.write(frame(b"A", 3, [(98, b"0"), (108, b"30")]))
    await w.drain()
    got_logon = await wait_for(lambda: srv.logons == 2, 4.0)
    try:
        w.write(frame(b"D", 4, [(11, b"ORD-B"), (55, b"VOD.L"), (38, b"1"), (44, b"1.5")]))
        await w.drain()
    except OSError:
        pass
    await wait_for(lambda: "ORD-B" in srv.app, 2.0)
    inbound = srv._journaler.get_all_msgs(
        [srv._session.key], direction=MessageDirection.INBOUND
    )
    return got_logon, list(srv.app), [m[0] for m in inbound], stale, srv.connection_state


async def main():
    p1 = await scenario(joined=False)
    print("P1 (Logout | Heartbeat in two reads):")
    print("   Logon of connection 2 handed over:", p1[0], " app msgs:", p1[1],
          " inbound journal seqnums:", p1[2], " state:", p1[4].name)
    p2 = await scenario(joined=True)
    print("P2 (Logout+Heartbeat in one read):")
    print("   receive buffer left behind by connection 1:", p2[3])
    print("   Logon of connection 2 handed over:", p2[0], " app msgs:", p2[1],
          " inbound journal seqnums:", p2[2], " state:", p2[4].name)
    if not (p1[0] and p1[1] == ["ORD-B"]):
        print("P1 run failed - harness problem")
        return 2
    if not p2[3]:
        print("not reproduced (TCP delivered the joined write in two reads?)")
        return 0
    if p2[:3] != p1[:3]:
        print(
            "VIOLATION: same byte stream, different partition into reads -> different "
            "messages handed over: the Heartbeat read together with the Logout stays in "
            "_msg_buffer and is decoded as the first frame of connection 2 (not a Logon "
            "-> connection 2 is dropped, its Logon and order are never handed over)"
        )
        return 1
    print("not reproduced")
    return 0


async def _entry():
    rc = await main()
    sys.stdout.flush()
    os._exit(rc)  # the library tasks (serve_forever, reader) do not shut down cleanly


asyncio.run(_entry())
