"""genuine1: bytes left in the receive buffer by a dead connection corrupt the
first frame of the NEXT connection (receive buffer is never reset).

Run (from the worktree root WT):
    cd WT && PYTHONPATH=WT /venv/bin/python _mutant/genuine1.py
Exit 1 + message = property violated, exit 0 = not reproduced.

History (real TCP, AsyncFIXDummyServer as the receiving connection):
  connection 1: peer sends Logon(34=1) (answered), then the first N bytes of a
                NewOrderSingle frame, then the TCP connection dies (abort);
  connection 2: peer sends a valid Logon(34=2) frame, then a valid
                NewOrderSingle(34=3) frame.
The stream of connection 2 consists of valid frames only, each of them must be
handed over.  Control run: same history, but connection 1 dies on a frame
boundary (N = 0) - there everything is delivered.
"""
import asyncio
import logging
import os
import socket
import sys

from asyncfix import FIXMessage, FMsg, FTag
from asyncfix.connection import ConnectionState
from asyncfix.connection_server import AsyncFIXDummyServer
from asyncfix.journaler import Journaler
from asyncfix.message import MessageDirection
from asyncfix.protocol import FIXProtocol44

logging.disable(logging.CRITICAL)
SOH = b"\x01"


def frame(msg_type, seq, extra=()):
    body = b"35=" + msg_type + SOH + b"49=PEER\x0156=SRV\x0134=%d\x01" % seq
    body += b"52=20230919-07:13:26.808\x01"
    for t, v in extra:
        body += b"%d=%s\x01" % (t, v)
    m = b"8=FIX.4.4\x019=%d\x01" % len(body) + body
    return m + b"10=%03d\x01" % (sum(m) % 256)


class Srv(AsyncFIXDummyServer):
    def __init__(self, port):
        super().__init__(FIXProtocol44(), "SRV", "PEER", Journaler(), "127.0.0.1", port)
        self.app = []
        self.logons = 0

    async def on_connect(self):
        pass

    async def on_logon(self, is_healthy):
        self.logons += 1

    async def on_message(self, msg):
        self.app.append(msg[FTag.ClOrdID])


async def wait_for(cond, timeout=5.0):
    t = 0.0
    while not cond() and t < timeout:
        await asyncio.sleep(0.05)
        t += 0.05
    return cond()


async def scenario(n_partial):
    s = socket.socket()
    s.bind(("127.0.0.1", 0))
    port = s.getsockname()[1]
    s.close()
    srv = Srv(port)
    task = asyncio.create_task(srv.connect())
    await asyncio.sleep(0.2)

    # ---- connection 1
    r, w = await asyncio.open_connection("127.0.0.1", port)
    w.write(frame(b"A", 1, [(98, b"0"), (108, b"30")]))
    await w.drain()
    assert await wait_for(lambda: srv.logons == 1), "no logon on connection 1"
    order = frame(b"D", 2, [(11, b"ORD-A"), (55, b"VOD.L"), (38, b"1"), (44, b"1.5")])
    if n_partial:
        w.write(order[:n_partial])
        await w.drain()
        await asyncio.sleep(0.3)
    w.transport.abort()  # connection dies
    assert await wait_for(
        lambda: srv.connection_state == ConnectionState.DISCONNECTED_BROKEN_CONN
    ), "server did not notice the broken connection"
    stale = bytes(srv._msg_buffer)

    # ---- connection 2: only valid frames
    r, w = await asyncio.open_connection("127.0.0.1", port)
    w.write(frame(b"A", 2, [(98, b"0"), (108, b"30")]))
    await w.drain()
    got_logon = await wait_for(lambda: srv.logons == 2, 4.0)
    w.write(frame(b"D", 3, [(11, b"ORD-B"), (55, b"VOD.L"), (38, b"1"), (44, b"1.5")]))
    await w.drain()
    await wait_for(lambda: "ORD-B" in srv.app, 2.0)
    inbound = srv._journaler.get_all_msgs(
        [srv._session.key], direction=MessageDirection.INBOUND
    )
    task.cancel()
    w.close()
    for t in (srv._aio_task_socket_read, srv._aio_task_heartbeat):
        if t:
            t.cancel()
    return got_logon, list(srv.app), len(inbound), stale, srv.connection_state


async def main():
    ctl = await scenario(0)
    print("control (connection 1 died on a frame boundary):")
    print("   Logon#2 handed over:", ctl[0], " app msgs:", ctl[1], " inbound rows:", ctl[2])
    bad = await scenario(37)
    print("connection 1 died 37 bytes into a frame:")
    print("   stale receive buffer at reconnect:", bad[3])
    print("   Logon#2 handed over:", bad[0], " app msgs:", bad[1], " inbound rows:", bad[2],
          " state:", bad[4].name)
    if not (ctl[0] and ctl[1] == ["ORD-B"]):
        print("control run failed - harness problem")
        return 2
    if not bad[0] or bad[1] != ["ORD-B"]:
        print(
            "VIOLATION: the valid frames of connection 2 were not handed over: the "
            "reader glued the Logon frame to the bytes left over from connection 1 "
            "(receive buffer _msg_buffer is never reset) and dropped both"
        )
        return 1
    print("not reproduced")
    return 0


async def _entry():
    rc = await main()
    sys.stdout.flush()
    os._exit(rc)  # the library tasks (serve_forever, reader) do not shut down cleanly


asyncio.run(_entry())
