"""genuine2: journal-only histories in which the FIXSession object is not advanced by
persist_msg: a later set of ONE number (or store_seq_num) silently rewinds the OTHER
stored counter and deletes / orphans messages whose store call had returned.

Run:  cd WT && PYTHONPATH=WT /venv/bin/python _mutant/genuine2.py     (exit 1 = violated)
No crash is needed (normal close), only the operations named in the quantifier.
"""
import os
import sys
import tempfile

from asyncfix.journaler import Journaler
from asyncfix.message import MessageDirection as D


def mk(seq):
    return b"8=FIX.4.4\x019=10\x0135=0\x0134=%d\x0110=000\x01" % seq


bad = []
d = tempfile.mkdtemp()

# history 1: create, store OUT 1, store OUT 2, set inbound number to 5
p = os.path.join(d, "a.db")
j = Journaler(p)
s = j.create_or_load("T", "S")
j.persist_msg(mk(1), s, D.OUTBOUND)
j.persist_msg(mk(2), s, D.OUTBOUND)
j.set_seq_num(s, next_num_in=5)  # only the INBOUND number is set
del j
j = Journaler(p)
s = j.create_or_load("T", "S")
out = j.recover_messages(s, D.OUTBOUND, 1, 10)
print("history 1 reopened:", s, "outbound rows:", len(out))
if s.next_num_out != 3 or out != [mk(1), mk(2)]:
    bad.append("set_seq_num(next_num_in=5) rewound the stored OUTBOUND counter to %d and "
               "removed %d stored outbound messages" % (s.next_num_out - 1, 2 - len(out)))
del j

# history 2: create, store OUT 1, store OUT 2, store_seq_num ("no messages deleted")
p = os.path.join(d, "b.db")
j = Journaler(p)
s = j.create_or_load("T", "S")
j.persist_msg(mk(1), s, D.OUTBOUND)
j.persist_msg(mk(2), s, D.OUTBOUND)
j.store_seq_num(s)
del j
j = Journaler(p)
s = j.create_or_load("T", "S")
out = j.recover_messages(s, D.OUTBOUND, 1, 10)
print("history 2 reopened:", s, "outbound rows:", len(out))
if s.next_num_out - 1 != 2:
    bad.append("store_seq_num left rows OUT 1..2 with stored outbound counter %d "
               "(message rows without their counter update)" % (s.next_num_out - 1))

if bad:
    print("VIOLATION:")
    for b in bad:
        print("  -", b)
    sys.exit(1)
print("ok")
