"""genuine3: a store whose commit FAILED (sqlite error, exception raised to the caller) is
neither rolled back nor complete: it stays pending in the open transaction and is made
durable later by the commit of an unrelated operation.

Run:  cd WT && PYTHONPATH=WT /venv/bin/python _mutant/genuine3.py   (exit 1 = violated; ~5 s,
      the default sqlite busy timeout)

Fault: while persist_msg(OUT 2) runs, another connection (an operator / backup tool reading
the journal file) holds a SHARED lock, so COMMIT raises OperationalError('database is locked').
"""
import os
import sqlite3
import sys
import tempfile

from asyncfix.journaler import Journaler
from asyncfix.message import MessageDirection as D


def mk(seq):
    return b"8=FIX.4.4\x019=10\x0135=0\x0134=%d\x0110=000\x01" % seq


def reopen(p):
    j = Journaler(p)
    s = j.create_or_load("T", "S")
    return (s.next_num_in - 1, s.next_num_out - 1,
            sorted((m[2], m[0]) for m in j.get_all_msgs([s])))


p = os.path.join(tempfile.mkdtemp(), "a.db")
j = Journaler(p)
s = j.create_or_load("T", "S")
j.persist_msg(mk(1), s, D.OUTBOUND)
completed = ["create", "OUT 1"]

reader = sqlite3.connect(p)
rc = reader.cursor()
rc.execute("BEGIN")
rc.execute("SELECT * FROM session").fetchone()  # SHARED lock held by the other process
try:
    j.persist_msg(mk(2), s, D.OUTBOUND)
    completed.append("OUT 2")
except sqlite3.OperationalError as e:
    print("persist_msg(OUT 2) raised:", repr(e))
reader.rollback()
reader.close()

# (a crash right here loses OUT 2: it is only pending in the still open transaction)

j.persist_msg(mk(1), s, D.INBOUND)  # unrelated, completes
completed.append("IN 1")
del j
final = reopen(p)
print("file after the next completed op (in, out, rows):", final)
print("completed operations:", completed)

expected = (1, 1, [(D.INBOUND.value, 1), (D.OUTBOUND.value, 1)])  # create, OUT 1, IN 1
if final != expected:
    print("VIOLATION: the journal holds OUT 2 / outbound counter 2 although that store never "
          "completed (it raised); the state is not a boundary between completed operations, "
          "and whether the failed store is applied depends on a later unrelated commit")
    sys.exit(1)
print("ok")
