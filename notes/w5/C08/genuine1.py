"""genuine1: a completed SequenceReset (set of the inbound number) is lost by a crash.

Run:  cd WT && PYTHONPATH=WT /venv/bin/python _mutant/genuine1.py
Exit 1 + message when the property is violated (it is, on the unmodified tree).

History (engine = AsyncFIXConnection with a file-backed Journaler):
  Logon exchange, 3 inbound heartbeats, then the peer sends
  SequenceReset(35=4, reset mode) MsgSeqNum=<expected> NewSeqNo=50.
The child process is killed (os._exit) at every SQL statement / commit boundary
that occurs while this one message is processed; the parent reopens the file.
"""
import asyncio
import logging
import os
import subprocess
import sys
import tempfile

NEW_SEQ_NO = 50


class _Crash:
    def __init__(self, at):
        self.at = at
        self.n = 0
        self.armed = False
        self.log = []

    def point(self, what):
        if not self.armed:
            return
        self.n += 1
        self.log.append(what)
        if self.n == self.at:
            sys.stdout.write("CRASH_AT %d %s\n" % (self.n, what))
            sys.stdout.flush()
            os._exit(0)


class _Cur:
    def __init__(self, cur, crash):
        self._c = cur
        self._k = crash

    def execute(self, sql, *a):
        self._k.point("before: " + sql.split("(")[0][:40])
        r = self._c.execute(sql, *a)
        self._k.point("after:  " + sql.split("(")[0][:40])
        return r

    def __iter__(self):
        return iter(self._c)

    def __next__(self):
        return next(self._c)

    def __getattr__(self, n):
        return getattr(self._c, n)


class _Conn:
    def __init__(self, conn, crash):
        self._c = conn
        self._k = crash

    def commit(self):
        self._k.point("before: COMMIT")
        self._c.commit()
        self._k.point("after:  COMMIT")

    def __getattr__(self, n):
        return getattr(self._c, n)


async def child(path, at):
    from asyncfix import FIXMessage, FIXTester, FMsg, FTag
    from asyncfix.connection import AsyncFIXConnection, ConnectionState
    from asyncfix.journaler import Journaler
    from asyncfix.protocol import FIXProtocol44

    log = logging.getLogger("g1")
    log.setLevel(logging.CRITICAL)
    j = Journaler(path)
    crash = _Crash(at)
    j.conn = _Conn(j.conn, crash)
    j.cursor = _Cur(j.cursor, crash)
    conn = AsyncFIXConnection(
        FIXProtocol44(), "INITIATOR", "ACCEPTOR", journaler=j,
        host="localhost", port="64444", heartbeat_period=30, logger=log,
    )
    conn._connection_state = ConnectionState.NETWORK_CONN_ESTABLISHED
    ft = FIXTester(connection=conn)
    await conn.send_msg(ft.msg_logon())
    await ft.process_msg_acceptor()
    assert conn.connection_state == ConnectionState.ACTIVE
    for _ in range(3):
        await ft.reply(FIXMessage(FMsg.HEARTBEAT))
    before = conn._session.next_num_in
    print("BEFORE", before)
    crash.armed = True
    await ft.reply(
        FIXMessage(FMsg.SEQUENCERESET, {FTag.NewSeqNo: NEW_SEQ_NO, FTag.MsgSeqNum: before})
    )
    crash.armed = False
    assert conn._session.next_num_in == NEW_SEQ_NO, conn._session
    print("DONE", crash.n)
    for i, w in enumerate(crash.log, 1):
        print("EVT", i, w)
    sys.stdout.flush()
    os._exit(0)


def run_child(path, at):
    r = subprocess.run(
        [sys.executable, __file__, "child", path, str(at)],
        capture_output=True, text=True, env=dict(os.environ),
    )
    if r.returncode != 0:
        print(r.stdout, r.stderr)
        raise SystemExit("child failed")
    return r.stdout


def main():
    from asyncfix.journaler import Journaler

    d = tempfile.mkdtemp()
    out = run_child(os.path.join(d, "full.db"), 0)
    total = int([ln for ln in out.splitlines() if ln.startswith("DONE")][0].split()[1])
    before = int([ln for ln in out.splitlines() if ln.startswith("BEFORE")][0].split()[1])
    events = [ln[4:] for ln in out.splitlines() if ln.startswith("EVT")]
    # index of the event after which set_seq_num(next_num_in=NewSeqNo) has completed:
    # the 2nd "after: COMMIT"
    commits = [i for i, e in enumerate(events, 1) if "after:  COMMIT" in e]
    set_completed_at = commits[1]
    bad = []
    for at in range(1, total + 1):
        p = os.path.join(d, "c%d.db" % at)
        run_child(p, at)
        j = Journaler(p)
        s = j.create_or_load("ACCEPTOR", "INITIATOR")
        tag = ""
        if s.next_num_in not in (before, NEW_SEQ_NO):
            tag = "  <-- neither before (%d) nor after (%d) the SequenceReset" % (before, NEW_SEQ_NO)
            if at >= set_completed_at:
                tag += "; completed set_seq_num(next_num_in=%d) LOST" % NEW_SEQ_NO
            bad.append(at)
        print("crash after event %2d (%-50s): reopened next_num_in=%d%s"
              % (at, events[at - 1], s.next_num_in, tag))
    if bad:
        print("\nVIOLATION: crash points %s leave a stored inbound counter that is not a "
              "boundary between completed operations; the completed set of the sequence "
              "number to %d is lost" % (bad, NEW_SEQ_NO))
        sys.exit(1)
    print("ok")


if __name__ == "__main__":
    if len(sys.argv) > 1 and sys.argv[1] == "child":
        asyncio.run(child(sys.argv[2], int(sys.argv[3])))
    else:
        main()
