"""genuine2.py - C07: an application send that interleaves with the servicing of a
ResendRequest (the replay loop of _process_resend suspends in drain() or in the awaitable
should_replay() hook) is dropped by the requester and not recovered at quiescence.

Run (WT = the worktree):   cd WT && PYTHONPATH=WT /venv/bin/python _mutant/genuine2.py
Exit 1 + message = C07 violated on the UNMODIFIED tree, exit 0 = not reproduced.
Two library endpoints (AsyncFIXClient / AsyncFIXDummyServer) over an in-memory,
frame-granular, breakable link; no library code is patched.
"""
import asyncio
import logging
import random

from asyncfix import FIXMessage, FMsg, FTag
from asyncfix.connection import ConnectionState
from asyncfix.connection_client import AsyncFIXClient
from asyncfix.connection_server import AsyncFIXDummyServer
from asyncfix.journaler import Journaler
from asyncfix.protocol import FIXProtocol44

logging.disable(logging.CRITICAL)
LOGOUTS = []


class VLoop(asyncio.SelectorEventLoop):
    """Event loop with virtual time (sleep() costs nothing)."""

    _vt = 0.0

    def time(self):
        return self._vt

    def _run_once(self):
        if not self._ready and self._scheduled:
            self._vt = max(self._vt, self._scheduled[0]._when)
        super()._run_once()


class MemWriter:
    def __init__(self, link, side):
        self.link = link
        self.side = side
        self.closed = False
        self.gen = link.gen
        self.lost_with_error = False

    def write(self, data):
        if self.closed or self.link.gen != self.gen or self.link.broken:
            return
        self.link.queue[self.side].append(bytes(data))
        if self.link.auto:
            self.link.deliver_all()

    async def drain(self):
        if self.closed or self.link.gen != self.gen or self.link.broken:
            raise ConnectionResetError("Connection lost")
        if self.link.drain_yields:
            await asyncio.sleep(0)

    def close(self):
        if not self.closed:
            self.closed = True
            if self.link.gen == self.gen:
                self.link.break_()

    def is_closing(self):
        return self.closed

    async def wait_closed(self):
        # like asyncio: a connection lost with an error reports it again here
        if self.link.err and self.lost_with_error:
            raise ConnectionResetError("Connection lost")
        return

    def get_extra_info(self, k):
        return ("mem", 0)


class Link:
    """queue['I'] = frames written by initiator, not yet delivered to acceptor."""

    def __init__(self):
        self.gen = 0
        self.broken = True
        self.queue = {"I": [], "A": []}
        self.readers = {}
        self.writers = []
        self.auto = False
        self.drain_yields = False
        self.err = False

    def new_connection(self):
        self.gen += 1
        self.broken = False
        self.queue = {"I": [], "A": []}
        self.readers = {"I": asyncio.StreamReader(), "A": asyncio.StreamReader()}
        self.writers = [MemWriter(self, "I"), MemWriter(self, "A")]
        return (
            (self.readers["I"], self.writers[0]),
            (self.readers["A"], self.writers[1]),
        )

    def deliver(self, side):
        """Deliver next frame written by `side` to the other end."""
        if self.broken or not self.queue[side]:
            return False
        data = self.queue[side].pop(0)
        self.readers["A" if side == "I" else "I"].feed_data(data)
        return True

    def deliver_all(self):
        while self.deliver("I") or self.deliver("A"):
            pass

    def break_(self):
        if self.broken:
            return
        self.broken = True
        self.queue = {"I": [], "A": []}
        for wr in self.writers:
            wr.lost_with_error = self.err and not wr.closed
        for r in self.readers.values():
            if self.err:
                if r.exception() is None:
                    r.set_exception(ConnectionResetError("reset"))
            else:
                r.feed_eof()


class EpMixin:
    def _init_ep(self, link, name):
        self.link = link
        self.name = name
        self.received = []
        self.accepted = []
        self.attempted = []
        self.n = 0
        # no heartbeat task
        self._aio_task_heartbeat = True

    async def on_message(self, msg):
        self.received.append(msg[FTag.ClOrdID])

    async def disconnect(self, st, logout_message=None):
        if logout_message is not None:
            LOGOUTS.append((self.name, logout_message))
        await super().disconnect(st, logout_message)

    async def app_send(self, extra=None):
        self.n += 1
        ident = f"{self.name}{self.n}"
        m = FIXMessage(FMsg.NEWORDERSINGLE, {FTag.ClOrdID: ident, FTag.Price: "1"})
        if extra:
            extra(m)
        self.attempted.append(ident)
        try:
            await self.send_msg(m)
        except Exception:
            return None
        self.accepted.append(ident)
        return ident


class Ini(EpMixin, AsyncFIXClient):
    def __init__(self, link, journaler):
        AsyncFIXClient.__init__(
            self, FIXProtocol44(), "INI", "ACC", journaler, "h", 1, 30
        )
        self._init_ep(link, "i")

    async def on_connect(self):
        m = FIXMessage(FMsg.LOGON, {FTag.EncryptMethod: "0", FTag.HeartBtInt: "30"})
        await self.send_msg(m)


class Acc(EpMixin, AsyncFIXDummyServer):
    def __init__(self, link, journaler):
        AsyncFIXDummyServer.__init__(
            self, FIXProtocol44(), "ACC", "INI", journaler, "h", 1, 30
        )
        self._init_ep(link, "a")

    async def on_connect(self):
        pass


async def settle(n=30):
    for _ in range(n):
        await asyncio.sleep(0)


class World:
    def __init__(self, ini_cls=Ini, acc_cls=Acc):
        self.link = Link()
        self.ji = Journaler()
        self.ja = Journaler()
        self.I = ini_cls(self.link, self.ji)
        self.A = acc_cls(self.link, self.ja)

    async def start(self):
        # launch reader tasks (AsyncFIXConnection.connect)
        from asyncfix.connection import AsyncFIXConnection

        await AsyncFIXConnection.connect(self.I)
        await AsyncFIXConnection.connect(self.A)

    def both_down(self):
        return (
            self.I.connection_state <= ConnectionState.DISCONNECTED_BROKEN_CONN
            and self.A.connection_state <= ConnectionState.DISCONNECTED_BROKEN_CONN
            and self.I._socket_reader is None
            and self.A._socket_reader is None
            and self.A._socket_writer is None
        )

    async def reconnect(self):
        """Both ends have seen the break: new transport, initiator sends Logon."""
        # let reader tasks notice
        await asyncio.sleep(1.5)
        await settle()
        assert self.both_down(), (self.I.connection_state, self.A.connection_state)
        (ri, wi), (ra, wa) = self.link.new_connection()
        await self.A._handle_accept(ra, wa)
        self.I._socket_reader, self.I._socket_writer = ri, wi
        self.I._connection_state = ConnectionState.NETWORK_CONN_ESTABLISHED
        await self.I.on_connect()
        await asyncio.sleep(1.5)  # reader tasks pick up new readers
        await settle()

    async def quiesce(self):
        for _ in range(200):
            await settle()
            if not (self.link.queue["I"] or self.link.queue["A"]):
                break
            self.link.deliver_all()
        await settle()

    async def heal_and_check(self):
        await self.quiesce()
        for _ in range(5):
            if (
                self.I.connection_state == ConnectionState.ACTIVE
                and self.A.connection_state == ConnectionState.ACTIVE
            ):
                break
            if not self.link.broken and not self.both_down():
                # something is half way: break the link so that both see it
                self.link.break_()
            await self.reconnect()
            await self.quiesce()
        return self.check()

    def check(self):
        errs = []
        if self.I.connection_state != ConnectionState.ACTIVE:
            errs.append(f"I state {self.I.connection_state.name}")
        if self.A.connection_state != ConnectionState.ACTIVE:
            errs.append(f"A state {self.A.connection_state.name}")
        for rx, tx in ((self.A, self.I), (self.I, self.A)):
            r = rx.received
            if len(set(r)) != len(r):
                errs.append(f"{rx.name} duplicates {r}")
            if [x for x in r if x in tx.accepted] != tx.accepted:
                errs.append(f"{rx.name} received {r} != {tx.name} accepted {tx.accepted}")
            if [x for x in tx.attempted if x in r] != r:
                errs.append(f"{rx.name} received {r} not in order of {tx.attempted}")
        si, sa = self.I._session, self.A._session
        if si.next_num_in != sa.next_num_out:
            errs.append(f"I.in {si.next_num_in} != A.out {sa.next_num_out}")
        if sa.next_num_in != si.next_num_out:
            errs.append(f"A.in {sa.next_num_in} != I.out {si.next_num_out}")
        for nm, j, s in (("I", self.ji, si), ("A", self.ja, sa)):
            st = j.sessions()[(s.target_comp_id, s.sender_comp_id)]
            if (st.next_num_in, st.next_num_out) != (s.next_num_in, s.next_num_out):
                errs.append(
                    f"{nm} stored {(st.next_num_in, st.next_num_out)} != live"
                    f" {(s.next_num_in, s.next_num_out)}"
                )
        return errs

    async def stop(self):
        for ep in (self.I, self.A):
            t = ep._aio_task_socket_read
            if t:
                t.cancel()
        await settle()


def run(coro):
    loop = VLoop()
    try:
        return loop.run_until_complete(coro)
    finally:
        loop.close()


class AccSlowReplay(Acc):
    """should_replay() is an awaitable application hook: this one really awaits."""

    async def should_replay(self, msg):
        await asyncio.sleep(0)
        return True


async def history(mode):
    w = World(acc_cls=AccSlowReplay if mode == "should_replay" else Acc)
    # StreamWriter.drain() suspends when the transport buffer is above the high-water mark
    # (typical while a backlog is retransmitted); the in-memory writer yields once instead
    w.link.drain_yields = mode == "drain"
    await w.start()
    await w.reconnect()
    await w.quiesce()
    assert w.I.connection_state == w.A.connection_state == ConnectionState.ACTIVE
    for _ in range(3):
        await w.A.app_send()  # a1 a2 a3 in flight
    w.link.break_()
    await w.reconnect()

    async def late_sender():
        # application task of the acceptor: sends a4 as soon as the retransmission started
        for _ in range(10000):
            if any(b"\x0143=Y" in f for f in w.link.queue["A"]):
                break
            await asyncio.sleep(0)
        await w.A.app_send()

    t = asyncio.ensure_future(late_sender())
    for _ in range(50):
        w.link.deliver("I")  # frames one by one, both directions
        await settle()
        if t.done():
            break
        w.link.deliver("A")
        await settle()
    await t
    assert w.A.accepted == ["a1", "a2", "a3", "a4"], w.A.accepted
    await w.quiesce()
    errs = w.check()
    await w.stop()
    return errs


def main():
    bad = False
    print("control (a4 sent, no suspension in the replay loop):", run(history("none")) or "holds")
    for mode in ("drain", "should_replay"):
        errs = run(history(mode))
        if errs:
            bad = True
            print(f"C07 VIOLATED (replay loop suspends in {mode}, a4 sent meanwhile):", errs)
    if bad:
        raise SystemExit(1)
    print("not reproduced")


if __name__ == "__main__":
    main()
