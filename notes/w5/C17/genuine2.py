"""genuine2: a SUSPENDED order is replaced; the exchange answers REPLACED with
OrdStatus=SUSPENDED (the order is still suspended) -> order object stuck in
PENDING_REPLACE for ever, even after resume and complete fill.

Run:  cd WT && PYTHONPATH=WT /venv/bin/python _mutant/genuine2.py
Exit 1 = property C17 violated on the unmodified tree.
"""
import sys
from asyncfix import FIXMessage, FMsg, FTag
from asyncfix.protocol import FIXNewOrderSingle, FOrdStatus, FExecType, FOrdSide


def er(clord, et, st, cum, leaves, orig=None, price=None, qty=None):
    """Execution report as a FIX 4.4 exchange would send it (required tags only
    plus the optional ones passed explicitly)."""
    m = FIXMessage(FMsg.EXECUTIONREPORT)
    m[FTag.ClOrdID] = clord
    if orig:
        m[FTag.OrigClOrdID] = orig
    m[FTag.OrderID] = "X1"
    m[FTag.ExecID] = "e1"
    m[FTag.ExecType] = et
    m[FTag.OrdStatus] = st
    m[FTag.Side] = "1"
    m[FTag.Symbol] = "T"
    m[FTag.CumQty] = cum
    m[FTag.LeavesQty] = leaves
    m[FTag.AvgPx] = 0
    if price is not None:
        m[FTag.Price] = price
    if qty is not None:
        m[FTag.OrderQty] = qty
    return m


def live_order():
    """Order sent and acknowledged (NEW) by the exchange: px 100, qty 10."""
    o = FIXNewOrderSingle("root", "T", FOrdSide.BUY, 100.0, 10.0)
    o.new_req()
    o.process_execution_report(er(o.clord_id, FExecType.NEW, FOrdStatus.NEW, 0, 10))
    assert o.status == FOrdStatus.NEW
    return o


bad = []


def check(cond, msg):
    if not cond:
        bad.append(msg)


def finish():
    if bad:
        print("PROPERTY VIOLATED:")
        for b in bad:
            print("  -", b)
        sys.exit(1)
    print("ok (property holds)")
    sys.exit(0)

o = live_order()
o.process_execution_report(
    er(o.clord_id, FExecType.SUSPENDED, FOrdStatus.SUSPENDED, 0, 10)
)
assert o.status == FOrdStatus.SUSPENDED
check(o.can_replace(), "suspended order says it cannot be replaced")  # it says it can
req = o.replace_req(price=101.0)
orig = req[FTag.OrigClOrdID]
o.process_execution_report(
    er(o.clord_id, FExecType.PENDING_REPLACE, FOrdStatus.PENDING_REPLACE, 0, 10, orig=orig)
)
# replace accepted, order remains suspended at the exchange (SUSPENDED has higher
# OrdStatus precedence than NEW)
o.process_execution_report(
    er(o.clord_id, FExecType.REPLACED, FOrdStatus.SUSPENDED, 0, 10, orig=orig,
       price=101.0, qty=10.0)
)
print("after REPLACED:", o)
check(o.status == FOrdStatus.SUSPENDED,
      f"after accepted replace: status {o.status.name}, exchange SUSPENDED "
      "(nothing is in flight, no request is outstanding)")
# exchange resumes the order, then fills it completely
o.process_execution_report(er(o.clord_id, FExecType.NEW, FOrdStatus.NEW, 0, 10))
check(o.status == FOrdStatus.NEW, f"after resume: status {o.status.name}, exchange NEW")
o.process_execution_report(er(o.clord_id, FExecType.TRADE, FOrdStatus.FILLED, 10, 0))
print("after fill:", o)
check(o.status == FOrdStatus.FILLED, f"after full fill: status {o.status.name}, exchange FILLED")
check(o.is_finished(), "exchange finished the order (FILLED) but is_finished() is False")
finish()
