r"""genuine5: a root that ends in "--" + a NON-ASCII decimal digit (e.g. Arabic-Indic
U+0663) does not end in the library's chaining suffix (the library only ever
appends ASCII str(int)), yet RE_CLORD_ROOT's \d matches it and strips it.

Run:  cd WT && PYTHONPATH=WT /venv/bin/python _mutant/genuine5.py
Exit 1 = property C17 violated on the unmodified tree.
"""
import sys
from asyncfix import FIXMessage, FMsg, FTag
from asyncfix.protocol import FIXNewOrderSingle, FOrdStatus, FExecType, FOrdSide


def er(clord, et, st, cum, leaves, orig=None, price=None, qty=None):
    """Execution report as a FIX 4.4 exchange would send it (required tags only
    plus the optional ones passed explicitly)."""
    m = FIXMessage(FMsg.EXECUTIONREPORT)
    m[FTag.ClOrdID] = clord
    if orig:
        m[FTag.OrigClOrdID] = orig
    m[FTag.OrderID] = "X1"
    m[FTag.ExecID] = "e1"
    m[FTag.ExecType] = et
    m[FTag.OrdStatus] = st
    m[FTag.Side] = "1"
    m[FTag.Symbol] = "T"
    m[FTag.CumQty] = cum
    m[FTag.LeavesQty] = leaves
    m[FTag.AvgPx] = 0
    if price is not None:
        m[FTag.Price] = price
    if qty is not None:
        m[FTag.OrderQty] = qty
    return m


def live_order():
    """Order sent and acknowledged (NEW) by the exchange: px 100, qty 10."""
    o = FIXNewOrderSingle("root", "T", FOrdSide.BUY, 100.0, 10.0)
    o.new_req()
    o.process_execution_report(er(o.clord_id, FExecType.NEW, FOrdStatus.NEW, 0, 10))
    assert o.status == FOrdStatus.NEW
    return o


bad = []


def check(cond, msg):
    if not cond:
        bad.append(msg)


def finish():
    if bad:
        print("PROPERTY VIOLATED:")
        for b in bad:
            print("  -", b)
        sys.exit(1)
    print("ok (property holds)")
    sys.exit(0)

root_a = "ord"
root_b = "ord--٣"          # 'ord--٣' ; codec encodes utf-8, so it is transmittable
oa = FIXNewOrderSingle(root_a, "T", FOrdSide.BUY, 100.0, 10.0)
ob = FIXNewOrderSingle(root_b, "T", FOrdSide.BUY, 100.0, 10.0)
ida = oa.new_req()[FTag.ClOrdID]
idb = ob.new_req()[FTag.ClOrdID]
print(repr(ida), repr(idb), repr(ob.clord_id_root))
check(ob.clord_id_root == root_b,
      f"clord_id_root {ob.clord_id_root!r} is not the root given at initialization {root_b!r}")
check(idb.startswith(root_b), f"ClOrdID {idb!r} of the order is not built on its root {root_b!r}")
check(ida != idb, f"two orders with different legal roots {root_a!r} / {root_b!r} use the same ClOrdID {ida!r}")
finish()
