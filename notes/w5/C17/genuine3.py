"""genuine3: a SUSPENDED order expires (or is filled) at the exchange; the report is
ignored, the order stays SUSPENDED, not finished, and still offers cancel/replace.

Run:  cd WT && PYTHONPATH=WT /venv/bin/python _mutant/genuine3.py
Exit 1 = property C17 violated on the unmodified tree.
"""
import sys
from asyncfix import FIXMessage, FMsg, FTag
from asyncfix.protocol import FIXNewOrderSingle, FOrdStatus, FExecType, FOrdSide


def er(clord, et, st, cum, leaves, orig=None, price=None, qty=None):
    """Execution report as a FIX 4.4 exchange would send it (required tags only
    plus the optional ones passed explicitly)."""
    m = FIXMessage(FMsg.EXECUTIONREPORT)
    m[FTag.ClOrdID] = clord
    if orig:
        m[FTag.OrigClOrdID] = orig
    m[FTag.OrderID] = "X1"
    m[FTag.ExecID] = "e1"
    m[FTag.ExecType] = et
    m[FTag.OrdStatus] = st
    m[FTag.Side] = "1"
    m[FTag.Symbol] = "T"
    m[FTag.CumQty] = cum
    m[FTag.LeavesQty] = leaves
    m[FTag.AvgPx] = 0
    if price is not None:
        m[FTag.Price] = price
    if qty is not None:
        m[FTag.OrderQty] = qty
    return m


def live_order():
    """Order sent and acknowledged (NEW) by the exchange: px 100, qty 10."""
    o = FIXNewOrderSingle("root", "T", FOrdSide.BUY, 100.0, 10.0)
    o.new_req()
    o.process_execution_report(er(o.clord_id, FExecType.NEW, FOrdStatus.NEW, 0, 10))
    assert o.status == FOrdStatus.NEW
    return o


bad = []


def check(cond, msg):
    if not cond:
        bad.append(msg)


def finish():
    if bad:
        print("PROPERTY VIOLATED:")
        for b in bad:
            print("  -", b)
        sys.exit(1)
    print("ok (property holds)")
    sys.exit(0)

o = live_order()
o.process_execution_report(
    er(o.clord_id, FExecType.SUSPENDED, FOrdStatus.SUSPENDED, 0, 10)
)
# end of day: the exchange expires the (still suspended) day order
changed = o.process_execution_report(
    er(o.clord_id, FExecType.EXPIRED, FOrdStatus.EXPIRED, 0, 0)
)
print(o, "changed=", changed)
check(o.status == FOrdStatus.EXPIRED, f"status {o.status.name}, exchange EXPIRED")
check(o.is_finished(), "exchange finished the order (EXPIRED) but is_finished() is False")
check(not o.can_cancel(), "finished order still says it can be cancelled")
check(not o.can_replace(), "finished order still says it can be replaced")
finish()
