"""genuine1: REPLACED execution report without the optional Price / OrderQty tags.

Run:  cd WT && PYTHONPATH=WT /venv/bin/python _mutant/genuine1.py
Exit 1 = property C17 violated on the unmodified tree.
"""
import sys
from asyncfix import FIXMessage, FMsg, FTag
from asyncfix.protocol import FIXNewOrderSingle, FOrdStatus, FExecType, FOrdSide


def er(clord, et, st, cum, leaves, orig=None, price=None, qty=None):
    """Execution report as a FIX 4.4 exchange would send it (required tags only
    plus the optional ones passed explicitly)."""
    m = FIXMessage(FMsg.EXECUTIONREPORT)
    m[FTag.ClOrdID] = clord
    if orig:
        m[FTag.OrigClOrdID] = orig
    m[FTag.OrderID] = "X1"
    m[FTag.ExecID] = "e1"
    m[FTag.ExecType] = et
    m[FTag.OrdStatus] = st
    m[FTag.Side] = "1"
    m[FTag.Symbol] = "T"
    m[FTag.CumQty] = cum
    m[FTag.LeavesQty] = leaves
    m[FTag.AvgPx] = 0
    if price is not None:
        m[FTag.Price] = price
    if qty is not None:
        m[FTag.OrderQty] = qty
    return m


def live_order():
    """Order sent and acknowledged (NEW) by the exchange: px 100, qty 10."""
    o = FIXNewOrderSingle("root", "T", FOrdSide.BUY, 100.0, 10.0)
    o.new_req()
    o.process_execution_report(er(o.clord_id, FExecType.NEW, FOrdStatus.NEW, 0, 10))
    assert o.status == FOrdStatus.NEW
    return o


bad = []


def check(cond, msg):
    if not cond:
        bad.append(msg)


def finish():
    if bad:
        print("PROPERTY VIOLATED:")
        for b in bad:
            print("  -", b)
        sys.exit(1)
    print("ok (property holds)")
    sys.exit(0)

o = live_order()
req = o.replace_req(price=101.0, qty=12.0)
# exchange accepts the replace: it now holds px=101 qty=12 leaves=12.  Tags 44 and
# 38 are optional in ExecutionReport(8) and this exchange does not echo them.
o.process_execution_report(
    er(o.clord_id, FExecType.REPLACED, FOrdStatus.NEW, 0, 12, orig=req[FTag.OrigClOrdID])
)
ex = dict(status=FOrdStatus.NEW, price=101.0, qty=12.0, leaves=12.0, cum=0.0)
print(o)
check(o.status == ex["status"], f"status {o.status} != {ex['status']}")
check(o.price == ex["price"], f"price {o.price} != exchange price {ex['price']}")
check(o.qty == ex["qty"], f"qty {o.qty} != exchange qty {ex['qty']}")
check(o.leaves_qty == ex["leaves"], f"leaves {o.leaves_qty} != {ex['leaves']}")
check(o.leaves_qty <= o.qty, f"leaves_qty {o.leaves_qty} > qty {o.qty} (self-inconsistent)")
finish()
