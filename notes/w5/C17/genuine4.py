"""genuine4: exchange behaviour that IS in the FIX 4.4 order state change matrices but
is not in the action list of the quantifier (done-for-day A.1.b, stopped F.1.x,
trade cancel G.1.x).  The STATEMENT ("an exchange that follows the FIX 4.4 order
state change matrices") literally covers them.

Run:  cd WT && PYTHONPATH=WT /venv/bin/python _mutant/genuine4.py
Exit 1 = property C17 violated on the unmodified tree.
"""
import sys
from asyncfix import FIXMessage, FMsg, FTag
from asyncfix.protocol import FIXNewOrderSingle, FOrdStatus, FExecType, FOrdSide


def er(clord, et, st, cum, leaves, orig=None, price=None, qty=None):
    """Execution report as a FIX 4.4 exchange would send it (required tags only
    plus the optional ones passed explicitly)."""
    m = FIXMessage(FMsg.EXECUTIONREPORT)
    m[FTag.ClOrdID] = clord
    if orig:
        m[FTag.OrigClOrdID] = orig
    m[FTag.OrderID] = "X1"
    m[FTag.ExecID] = "e1"
    m[FTag.ExecType] = et
    m[FTag.OrdStatus] = st
    m[FTag.Side] = "1"
    m[FTag.Symbol] = "T"
    m[FTag.CumQty] = cum
    m[FTag.LeavesQty] = leaves
    m[FTag.AvgPx] = 0
    if price is not None:
        m[FTag.Price] = price
    if qty is not None:
        m[FTag.OrderQty] = qty
    return m


def live_order():
    """Order sent and acknowledged (NEW) by the exchange: px 100, qty 10."""
    o = FIXNewOrderSingle("root", "T", FOrdSide.BUY, 100.0, 10.0)
    o.new_req()
    o.process_execution_report(er(o.clord_id, FExecType.NEW, FOrdStatus.NEW, 0, 10))
    assert o.status == FOrdStatus.NEW
    return o


bad = []


def check(cond, msg):
    if not cond:
        bad.append(msg)


def finish():
    if bad:
        print("PROPERTY VIOLATED:")
        for b in bad:
            print("  -", b)
        sys.exit(1)
    print("ok (property holds)")
    sys.exit(0)

# (a) part-filled day order, done for day (matrix A.1.b): ignored
o = live_order()
o.process_execution_report(er(o.clord_id, FExecType.TRADE, FOrdStatus.PARTIALLY_FILLED, 2, 8))
o.process_execution_report(er(o.clord_id, FExecType.DONE_FOR_DAY, FOrdStatus.DONE_FOR_DAY, 2, 0))
print("a", o)
check(o.status == FOrdStatus.DONE_FOR_DAY, f"(a) status {o.status.name}, exchange DONE_FOR_DAY")
check(not o.can_cancel(), "(a) order done for day (LeavesQty=0) still says it can be cancelled")

# (b) stopped order (matrix F): NEW -> STOPPED is taken, but STOPPED has no row in the
# transition table so every later report (here: the complete fill) is ignored
o = live_order()
o.process_execution_report(er(o.clord_id, FExecType.STOPPED, FOrdStatus.STOPPED, 0, 10))
o.process_execution_report(er(o.clord_id, FExecType.TRADE, FOrdStatus.FILLED, 10, 0))
print("b", o)
check(o.status == FOrdStatus.FILLED, f"(b) status {o.status.name}, exchange FILLED")
check(o.is_finished(), "(b) exchange FILLED, is_finished() False")

# (c) trade cancel after complete fill (matrix G): order is live again at the exchange
o = live_order()
o.process_execution_report(er(o.clord_id, FExecType.TRADE, FOrdStatus.FILLED, 10, 0))
o.process_execution_report(er(o.clord_id, FExecType.TRADE_CANCEL, FOrdStatus.PARTIALLY_FILLED, 4, 6))
print("c", o)
check(o.status == FOrdStatus.PARTIALLY_FILLED,
      f"(c) status {o.status.name} with leaves_qty={o.leaves_qty}, exchange PARTIALLY_FILLED")
check(o.can_cancel(), "(c) order live at the exchange (leaves 6) cannot be cancelled")
finish()
