"""genuine1: legal values are rejected ('=' inside STRING/CHAR, leap second).

Run:  cd WT && PYTHONPATH=WT /venv/bin/python _mutant/genuine1.py     (exit 1 = violated)
"""
from _common import FIX44, TT44, FIXMessage, FIXSchema, Report

r = Report()
s = FIXSchema(FIX44)
nos = {11: "c1", 55: "IBM", 54: "1", 60: "20240101-10:00:00", 40: "1", 38: "10"}
r.expect(s, "control: NewOrderSingle", FIXMessage("D", nos), "ACCEPT")
# FIX 4.4 String: "can include any character or punctuation except the delimiter" (SOH)
r.expect(s, "Text(58) STRING 'px=10'", FIXMessage("D", {**nos, 58: "px=10"}), "ACCEPT")
r.expect(s, "ClOrdID(11) STRING 'a=b'", FIXMessage("D", {**nos, 11: "a=b"}), "ACCEPT")
r.expect(
    s,
    "News: Text inside group NoLinesOfText 'a=b'",
    FIXMessage("B", {148: "headline", 33: [{58: "a=b"}]}),
    "ACCEPT",
)
# CHAR without enumeration: any single character except the delimiter
tt = FIXSchema(TT44)
chars = [f for f in s._tag2field.values() if f.ftype == "CHAR" and not f.values]
if chars:
    try:
        ok = chars[0].validate_value("=")
    except Exception as exc:  # noqa
        ok = False
        print(f"FAIL {chars[0]} CHAR '=' rejected: {exc}")
        r.bad += 1
# UTCTimestamp: SS = 00-60 (60 only for a leap second)
r.expect(
    s,
    "TransactTime(60) leap second 20161231-23:59:60",
    FIXMessage("D", {**nos, 60: "20161231-23:59:60"}),
    "ACCEPT",
)
r.finish("messages built according to the dictionary do not validate")
