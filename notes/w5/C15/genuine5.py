"""genuine5: values outside the declared type are accepted.

Run:  cd WT && PYTHONPATH=WT /venv/bin/python _mutant/genuine5.py     (exit 1 = violated)
"""
from _common import FIX44, FIXMessage, FIXSchema, Report

r = Report()
s = FIXSchema(FIX44)
nos = {11: "c1", 55: "IBM", 54: "1", 60: "20240101-10:00:00", 40: "1", 38: "10"}
r.expect(s, "control: Currency(15)=USD", FIXMessage("D", {**nos, 15: "USD"}), "ACCEPT")
r.expect(s, "control: Currency(15)='U$D'", FIXMessage("D", {**nos, 15: "U$D"}), "REJECT")
# CURRENCY = 3 character ISO 4217 code
r.expect(s, "Currency(15)='U' (1 char)", FIXMessage("D", {**nos, 15: "U"}), "REJECT")
r.expect(s, "Currency(15)='U_D' (underscore)", FIXMessage("D", {**nos, 15: "U_D"}), "REJECT")
r.expect(s, "Currency(15)='ÄÖÜ' (non ASCII)", FIXMessage("D", {**nos, 15: "ÄÖÜ"}), "REJECT")
# EXCHANGE = ISO 10383 MIC
r.expect(s, "ExDestination(100)='é_'", FIXMessage("D", {**nos, 100: "é_"}), "REJECT")
# LENGTH: "int field representing the length in bytes. Value must be positive."
r.expect(s, "EncodedTextLen(354)=-5", FIXMessage("D", {**nos, 354: "-5", 355: "abc"}), "REJECT")
r.expect(s, "EncodedTextLen(354)=0", FIXMessage("D", {**nos, 354: "0", 355: "abc"}), "REJECT")
# COUNTRY = 2 character ISO 3166 code (value check called directly)
f = s["Country"]
for v in ("U", "_1", "ÄÖ"):
    try:
        f.validate_value(v)
        r.bad += 1
        print(f"FAIL Country(421)={v!r}: expected REJECT, got ACCEPT")
    except Exception as exc:  # noqa
        print(f"ok   Country(421)={v!r} rejected")
r.finish("value outside the declared type is accepted")
