"""genuine4: a repeating group with zero items satisfies 'required' and validates.

Run:  cd WT && PYTHONPATH=WT /venv/bin/python _mutant/genuine4.py     (exit 1 = violated)
"""
from _common import FIX44, FIXMessage, FIXSchema, Report

r = Report()
s = FIXSchema(FIX44)
r.expect(s, "control: News", FIXMessage("B", {148: "h", 33: [{58: "t"}]}), "ACCEPT")
r.expect(s, "control: News without NoLinesOfText", FIXMessage("B", {148: "h"}), "REJECT")
# required group present with no item: goes on the wire as 33=0; NUMINGROUP is positive
# (SchemaField.validate_value of NoLinesOfText itself rejects "0")
r.expect(s, "News, required NoLinesOfText = []", FIXMessage("B", {148: "h", 33: []}), "REJECT")
try:
    s["NoLinesOfText"].validate_value("0")
    print("     (value check accepts NoLinesOfText=0 ?!)")
except Exception as exc:  # noqa
    print(f"     (value check on its own: {str(exc)[:70]})")
# required nested group: MarketDataRequest NoRelatedSym (req) ; NewOrderList NoOrders
mdr = {262: "r1", 263: "0", 264: "1", 267: [{269: "0"}]}
r.expect(s, "control: MarketDataRequest", FIXMessage("V", {**mdr, 146: [{55: "IBM"}]}), "ACCEPT")
r.expect(s, "MarketDataRequest, required NoRelatedSym = []", FIXMessage("V", {**mdr, 146: []}), "REJECT")
# optional group, nested level, zero items
r.expect(
    s,
    "MarketDataRequest, nested NoLegs = [] inside NoRelatedSym item",
    FIXMessage("V", {**mdr, 146: [{55: "IBM", 555: []}]}),
    "REJECT",
)
r.finish("group with zero items (NumInGroup=0 / missing required group content) is accepted")
