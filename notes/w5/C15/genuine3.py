"""genuine3: header / trailer members are never checked structurally.

Run:  cd WT && PYTHONPATH=WT /venv/bin/python _mutant/genuine3.py     (exit 1 = violated)
"""
from _common import FIX44, TT44, FIXMessage, FIXSchema, Report

r = Report()
s = FIXSchema(FIX44)
hb = {112: "T1"}
r.expect(s, "control: Heartbeat", FIXMessage("0", hb), "ACCEPT")
r.expect(
    s,
    "control: valid NoHops group",
    FIXMessage("0", {**hb, 627: [{628: "HOP", 629: "20240101-10:00:00", 630: "7"}]}),
    "ACCEPT",
)
# plain field given as group
r.expect(s, "SenderCompID(49) given as group", FIXMessage("0", {**hb, 49: [{50: "x"}]}), "REJECT")
r.expect(s, "PossDupFlag(43) given as group", FIXMessage("0", {**hb, 43: [{43: "Q"}]}), "REJECT")
# group given as plain field
r.expect(s, "NoHops(627) given as plain field", FIXMessage("0", {**hb, 627: "1"}), "REJECT")
# group level faults inside the header group
r.expect(s, "NoHops item with foreign member 55", FIXMessage("0", {**hb, 627: [{628: "H", 55: "IBM"}]}), "REJECT")
r.expect(s, "NoHops item without first member 628", FIXMessage("0", {**hb, 627: [{629: "20240101-10:00:00"}]}), "REJECT")
r.expect(s, "NoHops item out of order", FIXMessage("0", {**hb, 627: [{628: "H", 630: "1", 629: "20240101-10:00:00"}]}), "REJECT")
r.expect(s, "NoHops HopSendingTime bad value", FIXMessage("0", {**hb, 627: [{628: "H", 629: "yesterday"}]}), "REJECT")
r.expect(s, "NoHops HopRefID(SEQNUM) = -1", FIXMessage("0", {**hb, 627: [{628: "H", 630: "-1"}]}), "REJECT")
# trailer
r.expect(s, "CheckSum(10) given as group", FIXMessage("0", {**hb, 10: [{55: "x"}]}), "REJECT")
r.expect(s, "CheckSum(10) with SOH inside", FIXMessage("0", {**hb, 10: "a\x01b"}), "REJECT")
r.expect(s, "Signature(89) given as group", FIXMessage("0", {**hb, 93: "1", 89: [{55: "x"}]}), "REJECT")
tt = FIXSchema(TT44)
r.expect(tt, "TT: SenderSubID(50) given as group", FIXMessage("0", {50: [{55: "x"}]}), "REJECT")
r.finish("single faults in header/trailer members are accepted")
