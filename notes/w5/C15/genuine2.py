"""genuine2: enumerated MULTIPLEVALUESTRING fields reject every multi-value.

Run:  cd WT && PYTHONPATH=WT /venv/bin/python _mutant/genuine2.py     (exit 1 = violated)
"""
from _common import FIX44, TT44, FIXMessage, FIXSchema, Report

r = Report()
nos = {11: "c1", 55: "IBM", 54: "1", 60: "20240101-10:00:00", 40: "1", 38: "10"}
s = FIXSchema(FIX44)
r.expect(s, "FIX44 ExecInst(18)='1'", FIXMessage("D", {**nos, 18: "1"}), "ACCEPT")
# MultipleValueString = space separated list of enumeration members
r.expect(s, "FIX44 ExecInst(18)='1 2'", FIXMessage("D", {**nos, 18: "1 2"}), "ACCEPT")
r.expect(
    s, "FIX44 OrderRestrictions(529)='1 2'", FIXMessage("D", {**nos, 529: "1 2"}), "ACCEPT"
)
# every enumerated multi-value field of both dictionaries, straight at the value check
for path in (FIX44, TT44):
    sc = FIXSchema(path)
    for f in sc._tag2field.values():
        if f.values and "MULTIPLE" in f.ftype.upper() and len(f.values) >= 2:
            a, b = list(f.values)[:2]
            try:
                f.validate_value(f"{a} {b}")
                print(f"ok   {path[-12:]} {f} '{a} {b}'")
            except Exception as exc:  # noqa
                r.bad += 1
                print(f"FAIL {path[-12:]} {f} '{a} {b}' rejected: {str(exc)[:60]}")
r.finish("valid multi-value of an enumerated MULTIPLEVALUESTRING field is rejected")
