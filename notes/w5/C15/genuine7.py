"""genuine7: dictionaries other than the two shipped ones (statement: "a FIX XML dictionary").

(a) required member of an OPTIONAL component is demanded although the component is absent
    (stock QuickFIX FIX44.xml: Instrument has Symbol required='Y', and e.g.
     SecurityListRequest references Instrument with required='N');
(b) a header that references a component (FIXT11 / FIX50 style <component name='HopGrp'>)
    makes every validate() die with TypeError, whatever the component order.
Both dictionaries are derived in memory from tests/FIX44.xml by a one-attribute / one-element edit.

Run:  cd WT && PYTHONPATH=WT /venv/bin/python _mutant/genuine7.py     (exit 1 = violated)
"""
import xml.etree.ElementTree as ET

from _common import FIX44, FIXMessage, FIXSchema, Report

r = Report()

# (a) Symbol required inside component Instrument, as in the stock QuickFIX dictionary
tree = ET.parse(FIX44)
root = tree.getroot()
instr = [c for c in root.find("components") if c.attrib["name"] == "Instrument"][0]
[f for f in instr if f.attrib["name"] == "Symbol"][0].set("required", "Y")
s = FIXSchema(tree)
slr = [m for m in root.find("messages") if m.attrib["name"] == "SecurityListRequest"][0]
ref = [e for e in slr if e.tag == "component" and e.attrib["name"] == "Instrument"][0]
print("     SecurityListRequest references Instrument with required =", ref.attrib["required"])
base = {320: "req1", 559: "4"}  # SecurityReqID, SecurityListRequestType=all securities
r.expect(s, "(a) control: with Symbol", FIXMessage("x", {**base, 55: "IBM"}), "ACCEPT")
r.expect(s, "(a) SecurityListRequest without the optional Instrument", FIXMessage("x", base), "ACCEPT")
nos = {11: "c1", 54: "1", 60: "20240101-10:00:00", 40: "1", 38: "10"}
r.expect(s, "(a) control: NewOrderSingle (Instrument required=Y) without Symbol", FIXMessage("D", nos), "REJECT")

# (b) header group moved into a component HopGrp
tree = ET.parse(FIX44)
root = tree.getroot()
header = root.find("header")
nohops = [e for e in header if e.tag == "group"][0]
header.remove(nohops)
ET.SubElement(header, "component", {"name": "HopGrp", "required": "N"})
comp = ET.Element("component", {"name": "HopGrp"})
comp.append(nohops)
root.find("components").insert(0, comp)
s = FIXSchema(tree)
r.expect(s, "(b) Heartbeat, header uses component HopGrp", FIXMessage("0", {112: "T"}), "ACCEPT")
r.expect(s, "(b) Heartbeat with unknown tag 9999", FIXMessage("0", {112: "T", 9999: "x"}), "REJECT")
r.finish("optional component / header component handling")
