"""genuine6: an unhashable msg_type escapes as TypeError instead of FIXMessageError.

Run:  cd WT && PYTHONPATH=WT /venv/bin/python _mutant/genuine6.py     (exit 1 = violated)
"""
from _common import FIX44, FIXMessage, FIXSchema, Report

r = Report()
s = FIXSchema(FIX44)
nos = {11: "c1", 55: "IBM", 54: "1", 60: "20240101-10:00:00", 40: "1", 38: "10"}
r.expect(s, "control: unknown msg_type 'ZZ'", FIXMessage("ZZ", nos), "REJECT")
r.expect(s, "control: msg_type None", FIXMessage(None, nos), "REJECT")
r.expect(s, "msg_type ['D'] (list)", FIXMessage(["D"], nos), "REJECT")
r.expect(s, "msg_type {'D'} (set)", FIXMessage({"D"}, nos), "REJECT")
r.finish("rejection is not the library's message error")
