"""Shared helper of the genuine*.py / demo1.py programs (not a finding itself)."""
import os
import sys

WT = os.path.dirname(os.path.dirname(os.path.abspath(__file__)))

import asyncfix  # noqa: E402

if not os.path.abspath(asyncfix.__file__).startswith(WT + os.sep):
    print(f"asyncfix imported from {asyncfix.__file__}; run with PYTHONPATH={WT}")
    sys.exit(2)

from asyncfix import FIXMessage  # noqa: E402
from asyncfix.errors import FIXMessageError  # noqa: E402
from asyncfix.protocol.schema import FIXSchema  # noqa: E402

FIX44 = os.path.join(WT, "tests", "FIX44.xml")
TT44 = os.path.join(WT, "tests", "TT-FIX44.xml")


def outcome(schema, msg):
    """-> ('ACCEPT'|'REJECT'|'OTHER', detail)."""
    try:
        schema.validate(msg)
        return "ACCEPT", ""
    except FIXMessageError as exc:
        return "REJECT", str(exc)[:110]
    except BaseException as exc:  # noqa
        return "OTHER", f"{type(exc).__name__}: {exc}"


class Report:
    def __init__(self):
        self.bad = 0

    def expect(self, schema, name, msg, want):
        got, detail = outcome(schema, msg)
        ok = got == want
        if not ok:
            self.bad += 1
        print(f"{'ok  ' if ok else 'FAIL'} {name}: expected {want}, got {got} {detail}")

    def finish(self, what):
        if self.bad:
            print(f"PROPERTY VIOLATED ({self.bad} case(s)): {what}")
            sys.exit(1)
        print("no violation observed")
        sys.exit(0)
