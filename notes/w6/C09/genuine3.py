"""C09 genuine violation 3: kill while receiving (after on_message, before the journal
write) duplicates an application message after the restart.

Run (from the worktree root WT):
    cd WT && PYTHONPATH=WT /venv/bin/python _mutant/genuine3.py
Exit 1 + message = property violated on the unmodified tree, exit 0 = holds.

History: initiator A, scripted acceptor B.  Logon/Logon, B sends order c1 (34=2).
A's on_message(c1) returns, then the process is killed (os._exit) at the entry of
Journaler.persist_msg(INBOUND) for that order.  A new connection object is built over
the same journal file, logs on, B (which has sent 1,2 and now Logon 3) services the
ResendRequest of A' by retransmitting 34=2 with PossDupFlag=Y.
"""
import asyncio, logging, os, subprocess, sys, tempfile

from asyncfix import FMsg, FTag
from asyncfix.codec import Codec
from asyncfix.connection import AsyncFIXConnection, ConnectionRole, ConnectionState
from asyncfix.journaler import Journaler
from asyncfix.message import FIXMessage, MessageDirection
from asyncfix.protocol import FIXProtocol44
from asyncfix.session import FIXSession

logging.disable(logging.CRITICAL)


class App(AsyncFIXConnection):
    def __init__(self, path):
        super().__init__(FIXProtocol44(), "A", "B", Journaler(path), "h", 1)

    async def on_message(self, msg):
        # the application acts on the order here (e.g. books it)
        print("DELIVERED", msg[11], "PossDup=" + msg.get(FTag.PossDupFlag, "N"), flush=True)

    async def on_connect(self):
        pass


class Peer:
    def __init__(self):
        self.codec = Codec(FIXProtocol44())
        self.s = FIXSession(1, "A", "B")
        self.rx = []

    def frame(self, msg, seq):
        msg[FTag.MsgSeqNum] = seq
        return self.codec.encode(msg, self.s, raw_seq_num=True).encode()

    def write(self, data):
        self.rx.append(data)

    async def drain(self):
        await asyncio.sleep(0)

    def close(self):
        pass

    async def wait_closed(self):
        pass


async def settle(n=50):
    for _ in range(n):
        await asyncio.sleep(0)


def attach(a, peer):
    r = asyncio.StreamReader()
    a._socket_reader, a._socket_writer = r, peer
    a._connection_state = ConnectionState.NETWORK_CONN_ESTABLISHED
    a._connection_role = ConnectionRole.INITIATOR
    a._aio_task_socket_read = asyncio.create_task(a.socket_read_task())
    return r


def logon_msg():
    return FIXMessage(FMsg.LOGON, {FTag.EncryptMethod: "0", FTag.HeartBtInt: "30"})


def order(**extra):
    m = FIXMessage("D", {11: "c1", 55: "X", 54: "1", 38: "1", 40: "1"})
    for k, v in extra.items():
        m[k] = v
    return m


async def child(path):
    a, p = App(path), Peer()
    r = attach(a, p)
    await a.send_msg(logon_msg())
    r.feed_data(p.frame(logon_msg(), 1))
    await settle()
    assert a.connection_state == ConnectionState.ACTIVE
    orig = a._journaler.persist_msg

    def killer(msg, session, direction):
        if direction == MessageDirection.INBOUND:
            os._exit(77)  # kill -9 after on_message(c1) returned, before the journal write
        return orig(msg, session, direction)

    a._journaler.persist_msg = killer
    r.feed_data(p.frame(order(), 2))
    await settle()
    os._exit(3)


async def after_restart(path):
    a, p = App(path), Peer()
    print("RESTORED", a._session.next_num_in, a._session.next_num_out, flush=True)
    r = attach(a, p)
    await a.send_msg(logon_msg())
    r.feed_data(p.frame(logon_msg(), 3))
    await settle()
    rr = [d for d in p.rx if b"\x0135=2\x01" in d]
    print("RESENDREQUESTS", len(rr), flush=True)
    if rr:  # B retransmits 2 (PossDup) and gap fills its Logon 3
        m = order()
        m[FTag.PossDupFlag] = "Y"
        m[FTag.OrigSendingTime] = "20240101-00:00:00.000"
        r.feed_data(p.frame(m, 2))
        gf = FIXMessage(FMsg.SEQUENCERESET, {FTag.GapFillFlag: "Y", FTag.PossDupFlag: "Y", FTag.NewSeqNo: "4"})
        r.feed_data(p.frame(gf, 3))
        await settle()
    a._aio_task_socket_read.cancel()


def main():
    if len(sys.argv) > 1:
        asyncio.run(child(sys.argv[1]) if sys.argv[2] == "child" else after_restart(sys.argv[1]))
        return
    path = os.path.join(tempfile.mkdtemp(), "a.db")
    c1 = subprocess.run([sys.executable, __file__, path, "child"], capture_output=True, text=True)
    assert c1.returncode == 77, (c1.returncode, c1.stdout, c1.stderr)
    c2 = subprocess.run([sys.executable, __file__, path, "restart"], capture_output=True, text=True)
    out = c1.stdout + c2.stdout
    print(out.strip())
    n = out.count("DELIVERED c1")
    if n != 1:
        print(f"VIOLATION: application message c1 was handed to on_message {n} times across the kill / restart "
              "(second time as PossDup retransmission) - the property promises no duplicated application message "
              "for a kill at any point while receiving")
        sys.exit(1)
    sys.exit(0)


if __name__ == "__main__":
    main()
