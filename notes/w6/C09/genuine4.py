"""C09 genuine violation 4: a connection object that LOADED its session keeps the journal
file write-locked until its first message; a second restart cannot build a connection.

Run (from the worktree root WT):
    cd WT && PYTHONPATH=WT /venv/bin/python _mutant/genuine4.py      (takes ~5 s: sqlite busy timeout)
Exit 1 + message = property violated on the unmodified tree, exit 0 = holds.

History: incarnation 1 creates the session in a journal FILE and exchanges Logons.
Incarnation 2 is built over the same file (new Journaler, session is loaded), its tasks
are started with connect(), but it never gets to send / receive anything (peer is down) -
a quiescent point.  It is "stopped" the only way the API offers: disconnect() / dropping
every reference (socket_read_task / heartbeat_timer_task run forever and keep the object
and its Journaler alive, there is no public stop()).  Incarnation 3 is then built over
the same journal file.
"""
import asyncio, gc, logging, os, sqlite3, sys, tempfile, time

from asyncfix import FMsg, FTag
from asyncfix.connection import AsyncFIXConnection, ConnectionRole, ConnectionState
from asyncfix.journaler import Journaler
from asyncfix.message import FIXMessage
from asyncfix.protocol import FIXProtocol44

logging.disable(logging.CRITICAL)


class App(AsyncFIXConnection):
    def __init__(self, path):
        super().__init__(FIXProtocol44(), "A", "B", Journaler(path), "h", 1)

    async def on_message(self, msg):
        pass

    async def on_connect(self):
        pass


class NullWriter:
    def write(self, data):
        pass

    async def drain(self):
        await asyncio.sleep(0)

    def close(self):
        pass

    async def wait_closed(self):
        pass


async def main():
    path = os.path.join(tempfile.mkdtemp(), "a.db")
    # incarnation 1: creates the session, sends its Logon (journaled), is discarded
    a1 = App(path)
    a1._socket_reader, a1._socket_writer = asyncio.StreamReader(), NullWriter()
    a1._connection_state = ConnectionState.NETWORK_CONN_ESTABLISHED
    await a1.send_msg(FIXMessage(FMsg.LOGON, {FTag.EncryptMethod: "0", FTag.HeartBtInt: "30"}))
    live = (a1._session.next_num_in, a1._session.next_num_out)
    await a1.disconnect(ConnectionState.DISCONNECTED_BROKEN_CONN)
    del a1
    gc.collect()

    # incarnation 2: loads the session, tasks started, no traffic at all
    a2 = App(path)
    assert (a2._session.next_num_in, a2._session.next_num_out) == live
    await a2.connect()  # base class: starts socket_read_task / heartbeat_timer_task
    await asyncio.sleep(0.1)
    in_tx = a2._journaler.conn.in_transaction
    await a2.disconnect(ConnectionState.DISCONNECTED_BROKEN_CONN)
    del a2  # application drops it; the two endless tasks still reference it
    gc.collect()

    # incarnation 3
    t0 = time.time()
    try:
        a3 = App(path)
    except sqlite3.OperationalError as e:
        print(f"incarnation 2 left an open write transaction after create_or_load(): in_transaction={in_tx}")
        print(f"VIOLATION: new connection object over the same journal can not be created after a restart at a "
              f"quiescent point: sqlite3.OperationalError: {e} (after {time.time() - t0:.1f}s, event loop blocked)")
        os._exit(1)
    restored = (a3._session.next_num_in, a3._session.next_num_out)
    print("restored", restored, "live", live)
    os._exit(0 if restored == live else 1)


asyncio.run(main())
