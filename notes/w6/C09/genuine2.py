"""C09 genuine violation 2: a Logon refused with an in-sequence Logout is not counted.

Run (from the worktree root WT):
    cd WT && PYTHONPATH=WT /venv/bin/python _mutant/genuine2.py
Exit 1 + message = property violated on the unmodified tree, exit 0 = holds.

History (endpoint = initiator A, scripted conformant acceptor B):
  session 1: Logon/Logon, one order from B (B used 1,2).  Connection closed.
  session 2: A sends Logon, B refuses it with Logout 34=3 (in sequence, e.g. "outside of
             trading hours", explicitly allowed by the FIX session spec) and closes.
  restart  : A is discarded, a new connection object is built on the same journal file.
  session 3: A' sends Logon, B answers Logon 34=4.  Every frame B ever sent (1,2,3,4)
             has been received by A / A' - nothing was lost.
"""
import asyncio, logging, os, sys, tempfile

from asyncfix import FMsg, FTag
from asyncfix.codec import Codec
from asyncfix.connection import AsyncFIXConnection, ConnectionRole, ConnectionState
from asyncfix.journaler import Journaler
from asyncfix.message import FIXMessage
from asyncfix.protocol import FIXProtocol44
from asyncfix.session import FIXSession

logging.disable(logging.CRITICAL)


class App(AsyncFIXConnection):
    def __init__(self, path):
        super().__init__(FIXProtocol44(), "A", "B", Journaler(path), "h", 1)
        self.got = []
        self.logouts = []

    async def on_message(self, msg):
        self.got.append(msg)

    async def on_logout(self, msg):
        self.logouts.append(msg)

    async def on_connect(self):
        pass


class Peer:
    def __init__(self):
        self.codec = Codec(FIXProtocol44())
        self.s = FIXSession(1, "A", "B")
        self.next_out = 1
        self.rx = []

    def frame(self, msg):
        msg[FTag.MsgSeqNum] = self.next_out
        self.next_out += 1
        return self.codec.encode(msg, self.s, raw_seq_num=True).encode()

    def write(self, data):
        self.rx.append(data)

    async def drain(self):
        await asyncio.sleep(0)

    def close(self):
        pass

    async def wait_closed(self):
        pass

    def received(self):
        out = []
        for d in self.rx:
            for f in d.split(b"8=FIX.4.4\x01")[1:]:
                fl = dict(x.split(b"=", 1) for x in f.split(b"\x01") if b"=" in x)
                out.append((fl[b"35"].decode(), int(fl[b"34"]), fl.get(b"7")))
        return out


async def settle(n=50):
    for _ in range(n):
        await asyncio.sleep(0)


def attach(a, peer):
    r = asyncio.StreamReader()
    a._socket_reader, a._socket_writer = r, peer
    a._connection_state = ConnectionState.NETWORK_CONN_ESTABLISHED
    a._connection_role = ConnectionRole.INITIATOR
    if a._aio_task_socket_read is not None:
        a._aio_task_socket_read.cancel()
    a._aio_task_socket_read = asyncio.create_task(a.socket_read_task())
    return r


def logon_msg():
    return FIXMessage(FMsg.LOGON, {FTag.EncryptMethod: "0", FTag.HeartBtInt: "30"})


async def main():
    path = os.path.join(tempfile.mkdtemp(), "a.db")
    a, p = App(path), Peer()
    # session 1
    r = attach(a, p)
    await a.send_msg(logon_msg())
    r.feed_data(p.frame(logon_msg()))
    r.feed_data(p.frame(FIXMessage("D", {11: "c1", 55: "X", 54: "1", 38: "1", 40: "1"})))
    await settle()
    assert a.connection_state == ConnectionState.ACTIVE and len(a.got) == 1
    r.feed_eof()
    await settle()
    # session 2: Logon refused by Logout (in sequence: 34=3)
    r = attach(a, p)
    await a.send_msg(logon_msg())
    r.feed_data(p.frame(FIXMessage(FMsg.LOGOUT, {FTag.Text: "outside of trading hours"})))
    r.feed_eof()
    await settle()
    assert a.connection_state <= ConnectionState.DISCONNECTED_BROKEN_CONN
    live = (a._session.next_num_in, a._session.next_num_out)
    a._aio_task_socket_read.cancel()
    # restart over the same journal
    a2 = App(path)
    restored = (a2._session.next_num_in, a2._session.next_num_out)
    p.rx.clear()
    r = attach(a2, p)
    await a2.send_msg(logon_msg())
    r.feed_data(p.frame(logon_msg()))  # 34=4
    await settle()
    rec = p.received()
    a2._aio_task_socket_read.cancel()
    print(f"old object (in,out)={live}, restored={restored}, B has sent 1..{p.next_out - 1} and all were received")
    print(f"frames of the new incarnation: {[(t, n) for t, n, _ in rec]}, state={a2.connection_state.name}")
    rr = [x for x in rec if x[0] == "2"]
    if rr:
        print(f"VIOLATION: ResendRequest(BeginSeqNo={rr[0][2].decode()}) after restart + Logon although nothing was lost: "
              f"the refusing Logout 34=3 was received but never counted / journaled (next_num_in stayed {live[0]}, "
              f"on_logout calls: {len(a.logouts)})")
        sys.exit(1)
    sys.exit(0)


asyncio.run(main())
