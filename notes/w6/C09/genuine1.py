"""C09 genuine violation 1: kill between the two journal writes of an inbound GapFill.

Run (from the worktree root WT):
    cd WT && PYTHONPATH=WT /venv/bin/python _mutant/genuine1.py
Exit 1 + message = property violated on the unmodified tree, exit 0 = holds.

History: session 1 normal (peer Logon 1, order 2).  Session 2: the peer logs on with
MsgSeqNum 8 (it had written Heartbeats 3..7 into the dead connection), the endpoint
asks ResendRequest(3,0), the peer answers SequenceReset-GapFill 34=3 36=9.
The child process is killed (os._exit) when _finalize_message is about to call
Journaler.store_seq_num, i.e. exactly between the two journal operations
persist_msg(INBOUND) and store_seq_num.  The parent then builds a new connection
object over the same journal file and logs on again (peer Logon = 9, nothing lost).
Control: killed one step earlier (before persist_msg) the restart is transparent.
Variant (same window): reset-mode SequenceReset 34=2 36=10 while 6 is expected (MsgSeqNum
of a reset is ignored by the spec): the restored counter falls back to 3 and the orders
3..5, already delivered, are requested and delivered again.
"""
import asyncio, logging, os, subprocess, sys, tempfile

from asyncfix import FMsg, FTag
from asyncfix.codec import Codec
from asyncfix.connection import AsyncFIXConnection, ConnectionRole, ConnectionState
from asyncfix.journaler import Journaler
from asyncfix.message import FIXMessage
from asyncfix.protocol import FIXProtocol44
from asyncfix.session import FIXSession

logging.disable(logging.CRITICAL)


class App(AsyncFIXConnection):
    def __init__(self, path):
        super().__init__(FIXProtocol44(), "A", "B", Journaler(path), "h", 1)
        self.got = []

    async def on_message(self, msg):
        self.got.append(msg)

    async def on_connect(self):
        pass


class Peer:
    """Scripted counterparty B (frames built with the library codec)."""

    def __init__(self):
        self.codec = Codec(FIXProtocol44())
        self.s = FIXSession(1, "A", "B")
        self.rx = []  # frames written by the endpoint

    def frame(self, msg, seq):
        msg[FTag.MsgSeqNum] = seq
        return self.codec.encode(msg, self.s, raw_seq_num=True).encode()

    # transport writer interface used by the endpoint
    def write(self, data):
        self.rx.append(data)

    async def drain(self):
        await asyncio.sleep(0)

    def close(self):
        pass

    async def wait_closed(self):
        pass

    def sent_types(self):
        out = []
        for d in self.rx:
            for f in d.split(b"8=FIX.4.4\x01")[1:]:
                fl = dict(x.split(b"=", 1) for x in f.split(b"\x01") if b"=" in x)
                out.append((fl[b"35"].decode(), int(fl[b"34"]), fl.get(b"7")))
        return out


async def settle(n=50):
    for _ in range(n):
        await asyncio.sleep(0)


def attach(a, peer):
    r = asyncio.StreamReader()
    a._socket_reader, a._socket_writer = r, peer
    a._connection_state = ConnectionState.NETWORK_CONN_ESTABLISHED
    a._connection_role = ConnectionRole.INITIATOR
    if a._aio_task_socket_read is not None:
        a._aio_task_socket_read.cancel()
    a._aio_task_socket_read = asyncio.create_task(a.socket_read_task())
    return r


def logon_msg():
    return FIXMessage(FMsg.LOGON, {FTag.EncryptMethod: "0", FTag.HeartBtInt: "30"})


async def child(path, kill_at):
    a, p = App(path), Peer()
    # session 1
    r = attach(a, p)
    await a.send_msg(logon_msg())
    r.feed_data(p.frame(logon_msg(), 1))
    r.feed_data(p.frame(FIXMessage("D", {11: "c1", 55: "X", 54: "1", 38: "1", 40: "1"}), 2))
    await settle()
    assert len(a.got) == 1 and a._session.next_num_in == 3
    r.feed_eof()
    await settle()
    # session 2: peer Logon 8 -> ResendRequest(3,0) -> GapFill 3 -> 9
    r = attach(a, p)
    await a.send_msg(logon_msg())
    r.feed_data(p.frame(logon_msg(), 8))
    await settle()
    assert ("2", 3, b"3") in p.sent_types(), p.sent_types()

    j = a._journaler
    if kill_at == "store_seq_num":
        def killer(*args, **kw):
            print("LIVE", a._session.next_num_in, flush=True)
            os._exit(77)  # kill -9 between persist_msg(INBOUND) and store_seq_num
        j.store_seq_num = killer
    else:
        orig = j.persist_msg
        def killer(*args, **kw):
            print("LIVE", a._session.next_num_in, flush=True)
            os._exit(77)  # kill -9 after set_seq_num, before persist_msg(INBOUND)
        j.persist_msg = killer
    gf = FIXMessage(FMsg.SEQUENCERESET, {FTag.GapFillFlag: "Y", FTag.PossDupFlag: "Y", FTag.NewSeqNo: "9"})
    r.feed_data(p.frame(gf, 3))
    await settle()
    os._exit(3)  # kill point was not reached


async def child_reset(path):
    """Variant: reset-mode SequenceReset whose own MsgSeqNum (ignored in reset mode) is low."""
    a, p = App(path), Peer()
    r = attach(a, p)
    await a.send_msg(logon_msg())
    r.feed_data(p.frame(logon_msg(), 1))
    for seq in (2, 3, 4, 5):
        r.feed_data(p.frame(FIXMessage("D", {11: f"c{seq}", 55: "X", 54: "1", 38: "1", 40: "1"}), seq))
    await settle()
    assert len(a.got) == 4 and a._session.next_num_in == 6

    def killer(*args, **kw):
        print("LIVE", a._session.next_num_in, flush=True)
        os._exit(77)
    a._journaler.store_seq_num = killer
    r.feed_data(p.frame(FIXMessage(FMsg.SEQUENCERESET, {FTag.NewSeqNo: "10"}), 2))
    await settle()
    os._exit(3)


async def after_restart_reset(path):
    a, p = App(path), Peer()
    restored = a._session.next_num_in
    r = attach(a, p)
    await a.send_msg(logon_msg())
    r.feed_data(p.frame(logon_msg(), 10))
    await settle()
    rr = [x for x in p.sent_types() if x[0] == "2"]
    if rr:  # conformant peer retransmits what was asked for: 3,4,5 as PossDup, gap fill to 11
        for seq in range(int(rr[0][2]), 6):
            m = FIXMessage("D", {11: f"c{seq}", 55: "X", 54: "1", 38: "1", 40: "1"})
            m[FTag.PossDupFlag] = "Y"
            m[FTag.OrigSendingTime] = "20240101-00:00:00.000"
            r.feed_data(p.frame(m, seq))
        await settle()
    a._aio_task_socket_read.cancel()
    return restored, rr, [m[11] for m in a.got]


async def after_restart(path):
    a, p = App(path), Peer()
    restored = a._session.next_num_in
    r = attach(a, p)
    await a.send_msg(logon_msg())
    r.feed_data(p.frame(logon_msg(), 9))  # peer continues with 9, nothing was lost
    await settle()
    a._aio_task_socket_read.cancel()
    return restored, p.sent_types()


def main():
    if len(sys.argv) > 1:
        asyncio.run(child_reset(sys.argv[2]) if sys.argv[1] == "reset" else child(sys.argv[2], sys.argv[1]))
        return
    bad = False
    for kill_at in ("persist_msg", "store_seq_num"):
        path = os.path.join(tempfile.mkdtemp(), "a.db")
        cp = subprocess.run([sys.executable, __file__, kill_at, path], capture_output=True, text=True)
        assert cp.returncode == 77, (cp.returncode, cp.stdout, cp.stderr)
        live = int(cp.stdout.split()[-1])
        restored, sent = asyncio.run(after_restart(path))
        rr = [x for x in sent if x[0] == "2"]
        print(f"killed before {kill_at}: old object next_num_in={live}, restored next_num_in={restored}, "
              f"frames after restart={[(t, n) for t, n, _ in sent]}")
        if restored != live or rr:
            bad = True
            print(f"  VIOLATION: restored inbound counter {restored} != {live} held (and already committed) by the "
                  f"killed object; ResendRequest {rr} sent after restart although nothing was lost")
    # variant: reset-mode SequenceReset 34=2 36=10 received when 6 is expected (orders 2..5 already delivered)
    path = os.path.join(tempfile.mkdtemp(), "a.db")
    cp = subprocess.run([sys.executable, __file__, "reset", path], capture_output=True, text=True)
    assert cp.returncode == 77, (cp.returncode, cp.stdout, cp.stderr)
    live = int(cp.stdout.split()[-1])
    restored, rr, again = asyncio.run(after_restart_reset(path))
    print(f"reset 34=2 36=10, killed before store_seq_num: old object next_num_in={live}, restored={restored}, "
          f"ResendRequests={[(n, b.decode()) for _, n, b in rr]}, orders delivered AGAIN after restart={again}")
    if restored != live or again:
        bad = True
        print("  VIOLATION: counter fell back to the MsgSeqNum of the reset; already delivered orders are delivered twice")
    sys.exit(1 if bad else 0)


if __name__ == "__main__":
    main()
