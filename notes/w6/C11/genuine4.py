"""C11 genuine violation 4 (minor, literal): SequenceReset-GapFill with a too low MsgSeqNum is
silently tolerated, the connection is not disconnected.

Run:  cd WT && PYTHONPATH=WT /venv/bin/python _mutant/genuine4.py ; echo rc=$?
(exit 1 = property violated on the unmodified tree, exit 0 = not reproduced)

History (real sockets, AsyncFIXDummyServer, unmodified library): peer logs on (34=1), sends
News 34=2..4 (inbound counter = 5), then SequenceReset(GapFillFlag=Y, 34=2, NewSeqNo=50) without
PossDupFlag.  Every other message type with 34=2 is answered with Logout "MsgSeqNum is too low"
and a disconnect (that is what the property promises for ANY message with a too low
MsgSeqNum; FIX session layer: GapFill with MsgSeqNum < expected and no PossDupFlag=Y is a
serious error -> disconnect).  Here nothing happens, the session stays ACTIVE.
"""
import asyncio
import logging
import os
import socket
import sys

from asyncfix import FIXMessage, FMsg, FTag
from asyncfix.codec import Codec
from asyncfix.connection import ConnectionState
from asyncfix.connection_server import AsyncFIXDummyServer
from asyncfix.journaler import Journaler
from asyncfix.protocol import FIXProtocol44
from asyncfix.session import FIXSession

logging.disable(logging.CRITICAL)
codec = Codec(FIXProtocol44())


def free_port():
    s = socket.socket()
    s.bind(("127.0.0.1", 0))
    p = s.getsockname()[1]
    s.close()
    return p


class Srv(AsyncFIXDummyServer):
    def __init__(self, *a, **k):
        super().__init__(*a, **k)
        self.events = []

    async def on_connect(self):
        self.events.append("on_connect")

    async def on_disconnect(self):
        self.events.append("on_disconnect")

    async def on_logon(self, is_healthy):
        self.events.append(f"on_logon({is_healthy})")

    async def on_message(self, msg):
        self.events.append(f"on_message({msg.msg_type} 34={msg[34]})")


def frame(msg, sess):
    return codec.encode(msg, sess).encode()


async def session(low_msg):
    port = free_port()
    srv = Srv(FIXProtocol44(), "ACC", "INI", Journaler(), "127.0.0.1", port, 30)
    asyncio.create_task(srv.connect())
    await asyncio.sleep(0.3)
    peer = FIXSession("peer", "ACC", "INI")
    peer.next_num_out = peer.next_num_in = 1
    r, w = await asyncio.open_connection("127.0.0.1", port)
    w.write(frame(FIXMessage(FMsg.LOGON, {FTag.EncryptMethod: "0", FTag.HeartBtInt: "30"}), peer))
    await asyncio.sleep(1.5)
    for _ in range(3):
        w.write(frame(FIXMessage(FMsg.NEWS, {FTag.Headline: "x"}), peer))
    await asyncio.sleep(0.3)
    assert srv.connection_state == ConnectionState.ACTIVE and srv._session.next_num_in == 5
    w.write(codec.encode(low_msg, peer, raw_seq_num=True).encode())
    await asyncio.sleep(1.0)
    return srv


async def main():
    ref = await session(FIXMessage(FMsg.HEARTBEAT, {FTag.MsgSeqNum: 2}))
    print("Heartbeat 34=2 (expected 5)        ->", ref.connection_state.name, ref.events[2:])
    srv = await session(
        FIXMessage(FMsg.SEQUENCERESET, {FTag.GapFillFlag: "Y", FTag.MsgSeqNum: 2, FTag.NewSeqNo: 50})
    )
    print("GapFill   34=2 (expected 5) 36=50  ->", srv.connection_state.name, srv.events[2:],
          "next_num_in", srv._session.next_num_in)
    assert ref.connection_state <= ConnectionState.DISCONNECTED_BROKEN_CONN
    if srv.connection_state > ConnectionState.DISCONNECTED_BROKEN_CONN:
        print(
            "VIOLATION (C11): message with too low MsgSeqNum (SequenceReset-GapFill, no PossDupFlag) "
            f"left the connection {srv.connection_state.name}, no Logout, no disconnect"
        )
        return 1
    print("not reproduced")
    return 0


async def _runner():
    # leave from inside the loop: asyncio.run() teardown would wait for the open server
    rc = await asyncio.wait_for(main(), 30)
    sys.stdout.flush()
    os._exit(rc)


try:
    asyncio.run(_runner())
finally:
    sys.stdout.flush()
    os._exit(2)
