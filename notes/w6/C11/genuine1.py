"""C11 genuine violation 1: a disconnect that was decided is never carried out / reported.

Run:  cd WT && PYTHONPATH=WT /venv/bin/python _mutant/genuine1.py ; echo rc=$?
(exit 1 = property violated on the unmodified tree, exit 0 = not reproduced)

History (real sockets, AsyncFIXDummyServer, unmodified library):
  1. peer logs on (Logon 34=1), session ACTIVE
  2. the library sends its own TestRequest (send_test_req(), what heartbeat_timer_task does)
  3. peer answers in ONE write:  TestRequest(34=2)  +  Heartbeat(34=3, TestReqID=<wrong>)
     and closes its socket in the ordinary way (process exit)
  4. library answers the TestRequest (1st write -> peer's kernel resets the connection),
     then decides to disconnect because of the wrong TestReqID:
     disconnect(logout_message=...) -> send_msg(Logout) -> drain() raises ConnectionResetError
     -> disconnect() is left half way (reader dropped, socket not closed, state not changed,
     on_disconnect() not called) and the OSError is swallowed by the `except Exception`
     of _process_message().
Result: state stays ACTIVE for ever, on_disconnect() is reported 0 times, sends of the
application are still accepted (they consume MsgSeqNums), the dummy server refuses every new
connection ("Multiple connections are not allowed").
"""
import asyncio
import logging
import os
import socket
import sys

from asyncfix import FIXMessage, FMsg, FTag
from asyncfix.codec import Codec
from asyncfix.connection import ConnectionState
from asyncfix.connection_server import AsyncFIXDummyServer
from asyncfix.journaler import Journaler
from asyncfix.protocol import FIXProtocol44
from asyncfix.session import FIXSession

logging.disable(logging.CRITICAL)
codec = Codec(FIXProtocol44())


def free_port():
    s = socket.socket()
    s.bind(("127.0.0.1", 0))
    p = s.getsockname()[1]
    s.close()
    return p


class Srv(AsyncFIXDummyServer):
    def __init__(self, *a, **k):
        super().__init__(*a, **k)
        self.events = []

    async def on_connect(self):
        self.events.append("on_connect")

    async def on_disconnect(self):
        self.events.append("on_disconnect")

    async def on_logon(self, is_healthy):
        self.events.append(f"on_logon({is_healthy})")

    async def on_logout(self, msg):
        self.events.append("on_logout")

    async def on_message(self, msg):
        self.events.append(f"on_message({msg.msg_type})")


def frame(msg, sess):
    return codec.encode(msg, sess).encode()


async def main():
    port = free_port()
    srv = Srv(FIXProtocol44(), "ACC", "INI", Journaler(), "127.0.0.1", port, 30)
    asyncio.create_task(srv.connect())
    await asyncio.sleep(0.3)

    peer = FIXSession("peer", "ACC", "INI")
    peer.next_num_out = peer.next_num_in = 1
    r, w = await asyncio.open_connection("127.0.0.1", port)
    w.write(frame(FIXMessage(FMsg.LOGON, {FTag.EncryptMethod: "0", FTag.HeartBtInt: "30"}), peer))
    await asyncio.sleep(1.5)  # socket_read_task polls for the new connection once a second
    assert srv.connection_state == ConnectionState.ACTIVE, srv.connection_state

    await srv.send_test_req()
    await asyncio.sleep(0.2)
    await r.read(65536)  # Logon reply + TestRequest

    w.write(
        frame(FIXMessage(FMsg.TESTREQUEST, {FTag.TestReqID: "PEER1"}), peer)
        + frame(FIXMessage(FMsg.HEARTBEAT, {FTag.TestReqID: "12345"}), peer)
    )
    await w.drain()
    w.close()  # ordinary close

    await asyncio.sleep(3)
    n_disc = srv.events.count("on_disconnect")
    print("events:", srv.events)
    print("state :", srv.connection_state.name, "| on_disconnect reported", n_disc, "times")

    out0 = srv._session.next_num_out
    try:
        await srv.send_msg(FIXMessage(FMsg.NEWS, {FTag.Headline: "x"}))
        res = "accepted"
    except Exception as exc:
        res = repr(exc)
    print(f"application send afterwards: {res}; next_num_out {out0} -> {srv._session.next_num_out}")

    try:
        r2, w2 = await asyncio.open_connection("127.0.0.1", port)
        got = await asyncio.wait_for(r2.read(100), 3)
        print("new connection of the peer:", "closed at once by server" if got == b"" else got)
    except Exception as exc:
        print("new connection of the peer:", repr(exc))

    if srv.connection_state > ConnectionState.DISCONNECTED_BROKEN_CONN or n_disc != 1:
        print(
            "VIOLATION (C11): Heartbeat with wrong TestReqID made the library send Logout / "
            "decide to disconnect, but the connection is not disconnected "
            f"(state={srv.connection_state.name}) and on_disconnect() was reported {n_disc} times"
        )
        return 1
    print("not reproduced")
    return 0


async def _runner():
    # leave from inside the loop: asyncio.run() teardown would wait for the open server
    rc = await asyncio.wait_for(main(), 30)
    sys.stdout.flush()
    os._exit(rc)


try:
    asyncio.run(_runner())
finally:
    sys.stdout.flush()
    os._exit(2)
