"""C11 genuine violation 3: integrity defect from a peer that does not read -> the connection
is never disconnected (disconnect() hangs in the Logout drain for ever).

Run:  cd WT && PYTHONPATH=WT /venv/bin/python _mutant/genuine3.py ; echo rc=$?
(exit 1 = property violated on the unmodified tree, exit 0 = not reproduced)

History (real sockets, AsyncFIXDummyServer, unmodified library):
  1. peer logs on, session ACTIVE
  2. peer stops reading its socket (stalled consumer); the application keeps publishing
     (News with 60 kB text) until the TCP buffers are full and send_msg() waits in drain()
     (about 4 MB)
  3. peer sends News with MsgSeqNum=1 (too low)
  4. _process_message -> disconnect(logout_message="MsgSeqNum is too low ...") ->
     send_msg(Logout) -> `await self._socket_writer.drain()` never returns: _is_disconnecting
     stays True, the socket is not closed, state stays ACTIVE, on_disconnect() never comes.
     Nothing can rescue it: disconnect() dropped _socket_reader first, so socket_read_task and
     heartbeat_timer_task only sleep from now on (no watchdog), every other disconnect() call is
     a no-op because of _is_disconnecting.
  (same hang without Logout: close() + `await wait_closed()` waits for the write buffer too)
"""
import asyncio
import logging
import os
import socket
import sys

from asyncfix import FIXMessage, FMsg, FTag
from asyncfix.codec import Codec
from asyncfix.connection import ConnectionState
from asyncfix.connection_server import AsyncFIXDummyServer
from asyncfix.journaler import Journaler
from asyncfix.protocol import FIXProtocol44
from asyncfix.session import FIXSession

logging.disable(logging.CRITICAL)
codec = Codec(FIXProtocol44())
WAIT = 8  # seconds given to the library to get disconnected


def free_port():
    s = socket.socket()
    s.bind(("127.0.0.1", 0))
    p = s.getsockname()[1]
    s.close()
    return p


class Srv(AsyncFIXDummyServer):
    def __init__(self, *a, **k):
        super().__init__(*a, **k)
        self.events = []

    async def on_connect(self):
        self.events.append("on_connect")

    async def on_disconnect(self):
        self.events.append("on_disconnect")

    async def on_logon(self, is_healthy):
        self.events.append(f"on_logon({is_healthy})")

    async def on_logout(self, msg):
        self.events.append("on_logout")

    async def on_message(self, msg):
        self.events.append(f"on_message({msg.msg_type} 34={msg[34]})")


def frame(msg, sess, raw=False):
    return codec.encode(msg, sess, raw_seq_num=raw).encode()


async def main():
    port = free_port()
    srv = Srv(FIXProtocol44(), "ACC", "INI", Journaler(), "127.0.0.1", port, 2)
    asyncio.create_task(srv.connect())
    await asyncio.sleep(0.3)

    peer = FIXSession("peer", "ACC", "INI")
    peer.next_num_out = peer.next_num_in = 1
    r, w = await asyncio.open_connection("127.0.0.1", port)
    w.write(frame(FIXMessage(FMsg.LOGON, {FTag.EncryptMethod: "0", FTag.HeartBtInt: "2"}), peer))
    await asyncio.sleep(1.5)
    assert srv.connection_state == ConnectionState.ACTIVE, srv.connection_state
    # from here the peer never reads `r` again

    sent = 0

    async def publisher():
        nonlocal sent
        big = "x" * 60000
        while True:
            await srv.send_msg(FIXMessage(FMsg.NEWS, {FTag.Headline: big}))
            sent += 1

    asyncio.create_task(publisher())
    await asyncio.sleep(1.5)
    print(f"application publisher is waiting in drain() after {sent} messages")

    w.write(frame(FIXMessage(FMsg.NEWS, {FTag.Headline: "x", FTag.MsgSeqNum: 1}), peer, raw=True))
    await asyncio.sleep(WAIT)

    n_disc = srv.events.count("on_disconnect")
    print("events:", srv.events)
    print(
        f"{WAIT}s after the too-low message (heartbeat period is 2s): state",
        srv.connection_state.name,
        "| _is_disconnecting", srv._is_disconnecting,
        "| socket closing", srv._socket_writer.transport.is_closing() if srv._socket_writer else None,
    )
    if srv.connection_state > ConnectionState.DISCONNECTED_BROKEN_CONN or n_disc != 1:
        print(
            "VIOLATION (C11): message with too low MsgSeqNum did not leave the connection "
            f"disconnected (state={srv.connection_state.name}, on_disconnect reported {n_disc} times, "
            "socket still open)"
        )
        return 1
    print("not reproduced")
    return 0


async def _runner():
    # leave from inside the loop: asyncio.run() teardown would wait for the open server
    rc = await asyncio.wait_for(main(), 40)
    sys.stdout.flush()
    os._exit(rc)


try:
    asyncio.run(_runner())
finally:
    sys.stdout.flush()
    os._exit(2)
