"""C11 genuine violation 2: inbound messages are processed and handed to the application
after disconnect() has sent the Logout and closed the socket.

Run:  cd WT && PYTHONPATH=WT /venv/bin/python _mutant/genuine2.py ; echo rc=$?
(exit 1 = property violated on the unmodified tree, exit 0 = not reproduced)

disconnect() changes connection_state only AFTER `await socket_writer.wait_closed()`; while it
is suspended there (always at least one loop iteration) the state is still ACTIVE and
_socket_writer is still set.  socket_read_task is parked in `reader.read()` of the old reader
(disconnect() only drops the attribute): bytes which were delivered to the StreamReader in the
same loop iteration in which another task (application calling disconnect() at end of day,
or heartbeat_timer_task) starts the disconnect are decoded and processed as if nothing happened.

History (real sockets, AsyncFIXDummyServer, unmodified library):
  peer logs on; peer streams News(34=2) + TestRequest(34=3); an application task calls
  `await conn.disconnect(DISCONNECTED_WCONN_TODAY, "bye")` in the loop iteration in which these
  bytes arrive (the script spins with sleep(0) until the reader has bytes - only to make the
  interleaving deterministic, no library code is patched).
Observed: Logout "bye" is written and the socket closed, THEN on_message(News) is called, the
TestRequest is answered (Heartbeat allocates MsgSeqNum 3 and is journaled as sent, never
reaches the wire), inbound counter goes 2 -> 4, and only then on_disconnect() comes.
"""
import asyncio
import logging
import os
import socket
import sys

from asyncfix import FIXMessage, FMsg, FTag
from asyncfix.codec import Codec
from asyncfix.connection import ConnectionState
from asyncfix.connection_server import AsyncFIXDummyServer
from asyncfix.journaler import Journaler
from asyncfix.message import MessageDirection
from asyncfix.protocol import FIXProtocol44
from asyncfix.session import FIXSession

logging.disable(logging.CRITICAL)
codec = Codec(FIXProtocol44())


def free_port():
    s = socket.socket()
    s.bind(("127.0.0.1", 0))
    p = s.getsockname()[1]
    s.close()
    return p


class Srv(AsyncFIXDummyServer):
    def __init__(self, *a, **k):
        super().__init__(*a, **k)
        self.events = []

    async def on_connect(self):
        self.events.append("on_connect")

    async def on_disconnect(self):
        self.events.append("on_disconnect")

    async def on_logon(self, is_healthy):
        self.events.append(f"on_logon({is_healthy})")

    async def on_logout(self, msg):
        self.events.append("on_logout")

    async def on_message(self, msg):
        self.events.append(f"on_message({msg.msg_type} 34={msg[34]})")


def frame(msg, sess):
    return codec.encode(msg, sess).encode()


async def main():
    port = free_port()
    srv = Srv(FIXProtocol44(), "ACC", "INI", Journaler(), "127.0.0.1", port, 30)
    asyncio.create_task(srv.connect())
    await asyncio.sleep(0.3)

    peer = FIXSession("peer", "ACC", "INI")
    peer.next_num_out = peer.next_num_in = 1
    r, w = await asyncio.open_connection("127.0.0.1", port)
    w.write(frame(FIXMessage(FMsg.LOGON, {FTag.EncryptMethod: "0", FTag.HeartBtInt: "30"}), peer))
    await asyncio.sleep(1.5)
    assert srv.connection_state == ConnectionState.ACTIVE, srv.connection_state
    in0 = srv._session.next_num_in

    # the Logout frame is written by the writer of the connection: record the moment
    wr = srv._socket_writer
    orig_close = wr.close

    def close_spy():
        srv.events.append("-- Logout written, socket close() called by disconnect()")
        orig_close()

    wr.close = close_spy

    async def application_end_of_day():
        rd = srv._socket_reader
        while not rd._buffer:  # timing only: bytes arrived in this loop iteration
            await asyncio.sleep(0)
        srv.events.append("-- application calls disconnect(WCONN_TODAY, 'bye')")
        await srv.disconnect(ConnectionState.DISCONNECTED_WCONN_TODAY, "bye")
        srv.events.append("-- disconnect() returned")

    asyncio.create_task(application_end_of_day())
    await asyncio.sleep(0.05)
    w.write(
        frame(FIXMessage(FMsg.NEWS, {FTag.Headline: "x"}), peer)
        + frame(FIXMessage(FMsg.TESTREQUEST, {FTag.TestReqID: "T1"}), peer)
    )
    await asyncio.sleep(1)

    for e in srv.events:
        print("   ", e)
    data = await r.read(65536)
    wire = [f.split(b"\x01")[2].decode() for f in data.split(b"8=FIX")[1:]]
    print("frames that reached the peer:", wire)
    journal_out = [
        (codec.decode(m)[0].msg_type, codec.decode(m)[0][34])
        for m in srv._journaler.recover_messages(srv._session, MessageDirection.OUTBOUND, 1, 99)
    ]
    print("outbound journal:", journal_out)
    print(f"inbound counter {in0} -> {srv._session.next_num_in}, state {srv.connection_state.name}")

    ev = srv.events
    i_close = next((i for i, e in enumerate(ev) if "close() called" in e), None)
    late = [e for e in ev[i_close + 1:] if e.startswith("on_message")] if i_close is not None else []
    if late:
        print(
            "VIOLATION (C11): after disconnect() had sent Logout and closed the socket the "
            f"application still got {late}; inbound counter advanced to {srv._session.next_num_in}; "
            "a Heartbeat was journaled as sent after the Logout"
        )
        return 1
    print("not reproduced")
    return 0


async def _runner():
    # leave from inside the loop: asyncio.run() teardown would wait for the open server
    rc = await asyncio.wait_for(main(), 30)
    sys.stdout.flush()
    os._exit(rc)


try:
    asyncio.run(_runner())
finally:
    sys.stdout.flush()
    os._exit(2)
