"""C03 genuine1: a read that ends 1..5 bytes into a valid frame loses that frame
when the frame before it is skipped because of its header (foreign BeginString,
BodyLength not the 2nd field).

Run (unmodified tree):
    cd WT && PYTHONPATH=WT /venv/bin/python _mutant/genuine1.py
exit 1 + message = property violated, exit 0 = not reproduced.
"""
import asyncio
import logging
import sys
from unittest.mock import AsyncMock, MagicMock

from asyncfix.connection import AsyncFIXConnection, ConnectionState
from asyncfix.journaler import Journaler
from asyncfix.protocol import FIXProtocol44

logging.disable(logging.CRITICAL)
SOH = b"\x01"


def frame(fields, begin=b"FIX.4.4"):
    body = SOH.join(fields) + SOH
    s = b"8=" + begin + SOH + b"9=" + str(len(body)).encode() + SOH + body
    return s + b"10=" + (b"%03d" % (sum(s) % 256)) + SOH


def std(mt, seq, extra=(), begin=b"FIX.4.4"):
    return frame(
        [b"35=" + mt, b"49=PEER", b"56=ME", b"34=%d" % seq,
         b"52=20260922-10:00:00.000", *extra],
        begin,
    )


def order(seq):
    return std(b"D", seq, [b"11=id%d" % seq, b"55=X", b"54=1", b"38=1", b"40=1",
                           b"60=20260922-10:00:00"])


class Conn(AsyncFIXConnection):
    def __init__(self):
        super().__init__(FIXProtocol44(), "ME", "PEER", journaler=Journaler(),
                         host="h", port="1", heartbeat_period=30,
                         logger=logging.getLogger("g1"))
        self.delivered = []

    async def on_message(self, msg):
        self.delivered.append((str(msg.msg_type), msg[34]))


async def deliver(chunks):
    """Same set-up as tests/test_connection.py::fix_connection_socket."""
    c = Conn()
    c._connection_state = ConnectionState.NETWORK_CONN_ESTABLISHED
    c._socket_reader = MagicMock()
    c._socket_reader.read = AsyncMock(side_effect=list(chunks) + [asyncio.CancelledError])
    c._socket_writer = MagicMock()
    c._socket_writer.wait_closed = AsyncMock()
    c._socket_writer.drain = AsyncMock()
    sent = []
    c._socket_writer.write = lambda b: sent.append(
        "35=" + b.split(b"\x0135=")[1].split(SOH)[0].decode()
    )
    await asyncio.wait_for(c.socket_read_task(), 10)
    return c.delivered, "sent:", sent, c._session.next_num_in, c._connection_state.name


async def main():
    logon = std(b"A", 1, [b"98=0", b"108=30"])
    # well formed frame (BodyLength / CheckSum correct) of another FIX version
    foreign = std(b"0", 2, begin=b"FIX.4.2")
    # BodyLength is not the 2nd field (MsgType first), CheckSum correct
    body = SOH.join([b"49=PEER", b"56=ME", b"34=2", b"52=20260922-10:00:00.000"]) + SOH
    s = b"8=FIX.4.4" + SOH + b"35=0" + SOH + b"9=" + str(len(body)).encode() + SOH + body
    no9 = s + b"10=" + (b"%03d" % (sum(s) % 256)) + SOH

    failed = False
    for name, skipped in (("foreign BeginString FIX.4.2", foreign),
                          ("BodyLength not 2nd field", no9)):
        head = logon + skipped
        stream = head + order(2) + order(3)
        ref = await deliver([stream])
        print(f"[{name}] one read          -> {ref}")
        for k in range(0, 8):
            cut = len(head) + k
            got = await deliver([stream[:cut], stream[cut:]])
            mark = "" if got == ref else "   <-- DIFFERENT"
            print(f"[{name}] read ends {k} bytes into next frame -> {got}{mark}")
            failed |= got != ref
    # realistic numbering: the skipped frame has used 34=2, a TestRequest 34=3 follows.
    #  One read: gap is seen -> ResendRequest(35=2) + Heartbeat(35=0) answer are sent;
    #  read ending inside the TestRequest marker: nothing is sent at all.
    head = logon + foreign
    stream = head + std(b"1", 3, [b"112=PING"])
    ref = await deliver([stream])
    got = await deliver([stream[: len(head) + 3], stream[len(head) + 3 :]])
    print(f"[TestRequest after FIX.4.2 frame] one read -> {ref}")
    print(f"[TestRequest after FIX.4.2 frame] read ends 3 bytes into it -> {got}")
    failed |= got != ref
    if failed:
        print("VIOLATION: same byte stream, other read boundaries: the valid frames "
              "34=2 / 34=3 are not handed over (34=2 is lost, session goes to "
              "RESENDREQ_AWAITING)")
        sys.exit(1)
    print("not reproduced")


asyncio.run(main())
