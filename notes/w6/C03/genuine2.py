"""C03 genuine2: all frames are legal FIX 4.4. A News(35=B) frame carries an
blob of two encapsulated FIX.4.2 messages in RawData(96) (data fields are length prefixed by
RawDataLength(95) and may contain SOH). The library can't decode such a frame and
drops it, whatever the reads are - but a read that ends 1..5 bytes into the NEXT
(ordinary) frame additionally loses that frame.

Run (unmodified tree):
    cd WT && PYTHONPATH=WT /venv/bin/python _mutant/genuine2.py
exit 1 + message = property violated, exit 0 = not reproduced.
"""
import asyncio
import logging
import sys
from unittest.mock import AsyncMock, MagicMock

from asyncfix.connection import AsyncFIXConnection, ConnectionState
from asyncfix.journaler import Journaler
from asyncfix.protocol import FIXProtocol44

logging.disable(logging.CRITICAL)
SOH = b"\x01"


def frame(fields, begin=b"FIX.4.4"):
    body = SOH.join(fields) + SOH
    s = b"8=" + begin + SOH + b"9=" + str(len(body)).encode() + SOH + body
    return s + b"10=" + (b"%03d" % (sum(s) % 256)) + SOH


def std(mt, seq, extra=(), begin=b"FIX.4.4"):
    return frame(
        [b"35=" + mt, b"49=PEER", b"56=ME", b"34=%d" % seq,
         b"52=20260922-10:00:00.000", *extra],
        begin,
    )


def order(seq):
    return std(b"D", seq, [b"11=id%d" % seq, b"55=X", b"54=1", b"38=1", b"40=1",
                           b"60=20260922-10:00:00"])


class Conn(AsyncFIXConnection):
    def __init__(self):
        super().__init__(FIXProtocol44(), "ME", "PEER", journaler=Journaler(),
                         host="h", port="1", heartbeat_period=30,
                         logger=logging.getLogger("g2"))
        self.delivered = []

    async def on_message(self, msg):
        self.delivered.append((str(msg.msg_type), msg[34]))


async def deliver(chunks):
    """Same set-up as tests/test_connection.py::fix_connection_socket."""
    c = Conn()
    c._connection_state = ConnectionState.NETWORK_CONN_ESTABLISHED
    c._socket_reader = MagicMock()
    c._socket_reader.read = AsyncMock(side_effect=list(chunks) + [asyncio.CancelledError])
    c._socket_writer = MagicMock()
    c._socket_writer.wait_closed = AsyncMock()
    c._socket_writer.drain = AsyncMock()
    sent = []
    c._socket_writer.write = lambda b: sent.append(
        "35=" + b.split(b"\x0135=")[1].split(SOH)[0].decode()
    )
    await asyncio.wait_for(c.socket_read_task(), 10)
    return c.delivered, "sent:", sent, c._session.next_num_in, c._connection_state.name


async def main():
    logon = std(b"A", 1, [b"98=0", b"108=30"])
    # two tunnelled messages of another (FIX.4.2) session, sent on as one blob
    inner = std(b"0", 7, begin=b"FIX.4.2") + std(b"0", 8, begin=b"FIX.4.2")
    news = std(b"B", 2, [b"148=tunnel", b"33=1", b"58=see RawData",
                         b"95=%d" % len(inner), b"96=" + inner])
    failed = False
    head = logon + news
    # a) observation at on_message (frame after it carries the next unused MsgSeqNum
    #    as seen by the library, which never counted the dropped News frame)
    stream = head + order(2) + order(3)
    ref = await deliver([stream])
    print(f"[orders] one read -> {ref}")
    for k in range(0, 8):
        cut = len(head) + k
        got = await deliver([stream[:cut], stream[cut:]])
        mark = "" if got == ref else "   <-- DIFFERENT"
        print(f"[orders] read ends {k} bytes into next frame -> {got}{mark}")
        failed |= got != ref
    # b) peer numbering (News was 34=2): TestRequest 34=3 follows
    stream = head + std(b"1", 3, [b"112=PING"])
    ref = await deliver([stream])
    print(f"[TestRequest] one read -> {ref}")
    for k in range(0, 8):
        cut = len(head) + k
        got = await deliver([stream[:cut], stream[cut:]])
        mark = "" if got == ref else "   <-- DIFFERENT"
        print(f"[TestRequest] read ends {k} bytes into it -> {got}{mark}")
        failed |= got != ref
    if failed:
        print("VIOLATION: same stream of legal frames, other read boundaries: the "
              "frame after the News frame is lost (no on_message / no ResendRequest, "
              "no Heartbeat answer)")
        sys.exit(1)
    print("not reproduced")


asyncio.run(main())
