"""C10 genuine violation 3 (weaker: loss, not a permanent stall): a valid frame whose
LAST byte (the SOH that ends the CheckSum field) is deleted or substituted swallows
the complete, unharmed valid frame that follows it - with every segmentation,
also when everything arrives in one read.

Run (from the worktree root WT):
    cd WT && PYTHONPATH=WT /venv/bin/python _mutant/genuine3.py
Exit code 1 + message = property violated on the unmodified tree, 0 = not reproduced.

Live reader = AsyncFIXConnection.socket_read_task with a mocked socket (as in
tests/test_connection.py), _process_message replaced by a recorder.
Stream: mutate(A) + B + C, A/B/C valid frames. Expected deliveries: [B, C].
"""
import asyncio
import logging
import sys
from unittest.mock import AsyncMock, MagicMock, patch

logging.disable(logging.CRITICAL)

from asyncfix.connection import AsyncFIXConnection, ConnectionState  # noqa: E402
from asyncfix.journaler import Journaler  # noqa: E402
from asyncfix.protocol import FIXProtocol44  # noqa: E402

SOH = b"\x01"


def frame(fields) -> bytes:
    body = b"".join(f + SOH for f in fields)
    b = b"8=FIX.4.4" + SOH + b"9=%d" % len(body) + SOH + body
    return b + b"10=%03d\x01" % (sum(b) % 256)


HDR = [b"49=ACCEPTOR", b"56=INITIATOR", b"52=20230919-07:13:26.808"]
A = frame([b"35=0", b"34=2"] + HDR)
B = frame([b"35=D", b"34=3"] + HDR + [b"11=ord1", b"55=IBM", b"54=1", b"38=100"])
C = frame([b"35=1", b"34=4"] + HDR + [b"112=T1"])


async def live_reader(chunks):
    conn = AsyncFIXConnection(
        FIXProtocol44(), "INITIATOR", "ACCEPTOR", journaler=Journaler(),
        host="localhost", port="64444", heartbeat_period=30,
        logger=logging.getLogger("g3"),
    )
    conn._connection_state = ConnectionState.ACTIVE
    conn._socket_reader = MagicMock()
    conn._socket_reader.read = AsyncMock(side_effect=list(chunks) + [asyncio.CancelledError])
    conn._socket_writer = MagicMock()
    delivered = []

    async def record(msg, raw):
        delivered.append(raw)

    with patch.object(conn, "_process_message", side_effect=record):
        await asyncio.wait_for(conn.socket_read_task(), 5)
    return delivered


async def main():
    assert await live_reader([A + B + C]) == [A, B, C]
    last = len(A) - 1
    mutants = [("deletion", A[:last])] + [
        ("substitution by 0x%02x" % s, A[:last] + bytes([s]))
        for s in (0x00, 0x02, 0x30, 0x7C, 0xFF)
    ]
    bad = []
    for name, mut in mutants:
        stream = mut + B + C
        results = [await live_reader([stream])]
        for cut in range(1, len(stream), 7):
            results.append(await live_reader([stream[:cut], stream[cut:]]))
        n_lost = sum(1 for r in results if B not in r)
        if n_lost:
            bad.append(f"{name} of the last byte of A: B delivered in "
                       f"{len(results) - n_lost} of {len(results)} segmentations "
                       f"(one read delivers {[x[x.index(b'35='):][:4] for x in results[0]]})")
    if bad:
        print("C10 VIOLATED: the valid frame B behind a frame with a corrupted final "
              "SOH is consumed together with it and never delivered:")
        for b in bad:
            print("  -", b)
        sys.exit(1)
    print("not reproduced")


asyncio.run(main())
