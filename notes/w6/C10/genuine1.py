"""C10 genuine violation 1: BodyLength is never compared with the bytes of the frame.

Run (from the worktree root WT):
    cd WT && PYTHONPATH=WT /venv/bin/python _mutant/genuine1.py
Exit code 1 + message = property violated on the unmodified tree, 0 = not reproduced.

Codec.decode() uses 9=BodyLength only to guess whether a frame without a CheckSum
field is still incomplete. Once a '<SOH>10=ddd<SOH>' is in the buffer the frame end
is taken from it and the value of tag 9 is not looked at any more. CheckSum is a
byte sum mod 256, hence blind to 0x00 bytes and to a moved frame end, so:
  (a) inserting one 0x00 byte into any field value of a valid frame,
  (b) deleting one 0x00 byte of a valid frame (binary data field),
  (c) ONE substituted byte which turns '<SOH>11=' into '<SOH>10=' (frame cut short),
  (d) any BodyLength value together with a correct CheckSum
are all returned as messages although BodyLength contradicts the bytes.
"""
import logging
import sys

logging.disable(logging.CRITICAL)

from asyncfix.codec import Codec  # noqa: E402
from asyncfix.protocol import FIXProtocol44  # noqa: E402

SOH = b"\x01"
codec = Codec(FIXProtocol44())


def trailer(b: bytes) -> bytes:
    return b + b"10=%03d\x01" % (sum(b) % 256)


def frame(fields, body_length=None) -> bytes:
    body = b"".join(f + SOH for f in fields)
    n = len(body) if body_length is None else body_length
    return trailer(b"8=FIX.4.4\x019=%d\x01" % n + body)


def body_length_ok(raw: bytes) -> bool:
    """BodyLength = bytes after the 9= field up to and including SOH before 10=."""
    f = raw.split(SOH)
    declared = int(f[1][2:])
    start = len(f[0]) + 1 + len(f[1]) + 1
    end = raw.rindex(b"\x0110=") + 1
    return declared == end - start


HDR = [b"35=D", b"49=A", b"56=B", b"34=2", b"52=20230919-07:13:26.808"]
failures = []

# ---- (a) single-byte insertion of 0x00, every position of a valid frame
A = frame(HDR + [b"11=ord1", b"55=IBM", b"54=1", b"38=100", b"58=hello world"])
m, n, raw = codec.decode(A)
assert m is not None and n == len(A) and body_length_ok(A)
accepted = []
for pos in range(1, len(A)):  # inside the frame (not before / after it)
    mut = A[:pos] + b"\x00" + A[pos:]
    m, n, raw = codec.decode(mut + A)  # followed by valid traffic
    if m is not None and raw != A:
        assert not body_length_ok(raw)
        accepted.append((pos, m))
if accepted:
    pos, m = accepted[-1]
    failures.append(
        f"(a) insertion of one 0x00 byte: {len(accepted)} of {len(A) - 1} positions "
        f"are returned as a message, e.g. pos {pos}: 58={m[58]!r} 9={m[9]} "
        f"(real body length is {int(m[9]) + 1})"
    )

# ---- (b) single-byte deletion of a 0x00 byte (valid frame with binary RawData)
B = frame(HDR + [b"95=4", b"96=\x02\x00\x00\x07"])
m, n, raw = codec.decode(B)
assert m is not None and body_length_ok(B)
pos = B.index(b"\x00")
mut = B[:pos] + B[pos + 1 :]
m, n, raw = codec.decode(mut + A)
if m is not None:
    failures.append(
        f"(b) deletion of one 0x00 byte at pos {pos}: returned as a message, "
        f"96={m[96]!r} (3 bytes, 95={m[95]}), 9={m[9]} but body has {int(m[9]) - 1}"
    )

# ---- (c) single-byte substitution '1' -> '0' cuts the frame at a false trailer
pre = HDR
rest = [b"55=IBM", b"54=1", b"38=100"]
C = frame(pre + [b"11=000"] + rest)  # only to learn the header bytes
head = C[: C.index(b"11=000")]
clordid = b"%03d" % (sum(head) % 256)  # a 3 digit ClOrdID, legal value
C = frame(pre + [b"11=" + clordid] + rest)
m, n, raw = codec.decode(C)
assert m is not None and n == len(C) and body_length_ok(C) and m[11] == clordid.decode()
pos = C.index(b"\x0111=") + 2
mut = C[:pos] + b"0" + C[pos + 1 :]
assert sum(1 for x, y in zip(mut, C) if x != y) == 1 and len(mut) == len(C)
m, n, raw = codec.decode(mut + A)
if m is not None:
    failures.append(
        f"(c) substitution of ONE byte at pos {pos} ('11=' -> '10='): returned as a "
        f"message of {len(raw)} bytes (sent: {len(C)}), tags {list(m.tags)}: Symbol / "
        f"Side / OrderQty are gone, 9={m[9]} but the returned frame has a body of "
        f"{raw.rindex(SOH + b'10=') + 1 - raw.index(b'35=')} bytes"
    )

# ---- (d) grammar-aware: wrong BodyLength, consistent CheckSum
for bl in (0, 5, 999999):
    D = frame(HDR + [b"112=X"], body_length=bl)
    m, n, raw = codec.decode(D + A)
    if m is not None:
        failures.append(f"(d) frame with 9={bl} (body is {len(D) - 20 - len(str(bl))}"
                        f" bytes) and matching CheckSum is returned as a message")

if failures:
    print("C10 VIOLATED: frames whose BodyLength is inconsistent with their bytes "
          "are returned as messages by Codec.decode(silent=True):")
    for f in failures:
        print("  -", f)
    sys.exit(1)
print("not reproduced")
