"""C10 genuine violation 2: a frame with a garbled header takes the NEXT valid frame
with it when the TCP segment boundary falls into the first 5 bytes of that frame.

Run (from the worktree root WT):
    cd WT && PYTHONPATH=WT /venv/bin/python _mutant/genuine2.py
Exit code 1 + message = property violated on the unmodified tree, 0 = not reproduced.

History on a live reader (AsyncFIXConnection.socket_read_task, socket mocked as in
tests/test_connection.py, _process_message replaced by a recorder):
    read #1:  <frame with 8=FIX.4.2 (wrong BeginString)> + b"8=FI"
    read #2:  b"X.4.4<SOH>9=..."  rest of valid Heartbeat B  + valid TestRequest C
B is valid, complete and unharmed on the wire but is never delivered; the same
bytes in one read (or cut anywhere else) deliver B and C.
"""
import asyncio
import logging
import sys
from unittest.mock import AsyncMock, MagicMock, patch

logging.disable(logging.CRITICAL)

from asyncfix.connection import AsyncFIXConnection, ConnectionState  # noqa: E402
from asyncfix.journaler import Journaler  # noqa: E402
from asyncfix.protocol import FIXProtocol44  # noqa: E402

SOH = b"\x01"


def frame(fields, begin=b"FIX.4.4") -> bytes:
    body = b"".join(f + SOH for f in fields)
    b = b"8=" + begin + SOH + b"9=%d" % len(body) + SOH + body
    return b + b"10=%03d\x01" % (sum(b) % 256)


HDR = [b"49=ACCEPTOR", b"56=INITIATOR", b"52=20230919-07:13:26.808"]
A = frame([b"35=0", b"34=2"] + HDR, begin=b"FIX.4.2")  # malformed: wrong BeginString
B = frame([b"35=0", b"34=3"] + HDR)
C = frame([b"35=1", b"34=4"] + HDR + [b"112=T1"])


async def live_reader(chunks):
    conn = AsyncFIXConnection(
        FIXProtocol44(), "INITIATOR", "ACCEPTOR", journaler=Journaler(),
        host="localhost", port="64444", heartbeat_period=30,
        logger=logging.getLogger("g2"),
    )
    conn._connection_state = ConnectionState.ACTIVE
    conn._socket_reader = MagicMock()
    conn._socket_reader.read = AsyncMock(side_effect=list(chunks) + [asyncio.CancelledError])
    conn._socket_writer = MagicMock()
    delivered = []

    async def record(msg, raw):
        delivered.append(raw)

    with patch.object(conn, "_process_message", side_effect=record):
        await asyncio.wait_for(conn.socket_read_task(), 5)
    return delivered, conn._msg_buffer


async def main():
    stream = A + B + C
    whole, _ = await live_reader([stream])
    assert whole == [B, C], whole  # one read: B and C are delivered
    lost = []
    for cut in range(1, len(stream)):
        got, buf = await live_reader([stream[:cut], stream[cut:]])
        if B not in got:
            lost.append((cut - len(A), got == [C], len(buf)))
    if lost:
        print("C10 VIOLATED: valid frame B that follows a frame with wrong BeginString "
              "is never delivered by the live reader when the read boundary is")
        print("  ", [x[0] for x in lost], "bytes into B (C still delivered:",
              all(x[1] for x in lost), ", receive buffer empty:",
              all(x[2] == 0 for x in lost), ");")
        print("   every other boundary and the unsplit stream deliver [B, C].")
        sys.exit(1)
    print("not reproduced")


asyncio.run(main())
