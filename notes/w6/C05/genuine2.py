"""C05 genuine violation 2: the connection never re-reads the stored outbound counter.

Run (unmodified tree):
    cd WT && PYTHONPATH=WT /venv/bin/python _mutant/genuine2.py
exit 1 + message = property violated, exit 0 = property holds.

History (public API only): a connection object runs a session (Logon 34=1, order
34=2) and is disconnected. Between the sessions the operator sets the next outbound
number to 10 through the journal (Journaler.sessions() + Journaler.set_seq_num(), the
only public way to set a number other than 1). The journal reports next=10. The same
connection object reconnects (this is what socket_read_task does for an initiator):
its Logon leaves with 34=3, and the journal is silently moved back to 4.
"""
import asyncio
import logging
import sys
from unittest.mock import AsyncMock, MagicMock

from asyncfix import FIXMessage, FMsg
from asyncfix.codec import Codec
from asyncfix.connection import AsyncFIXConnection, ConnectionRole, ConnectionState
from asyncfix.journaler import Journaler
from asyncfix.protocol import FIXProtocol44
from asyncfix.session import FIXSession

logging.disable(logging.CRITICAL)


class Conn(AsyncFIXConnection):
    async def on_message(self, msg):
        pass

    async def on_connect(self):
        pass


def seqnum(frame: bytes) -> int:
    return int(dict(f.split(b"=", 1) for f in frame.split(b"\x01") if f)[b"34"])


async def main():
    j = Journaler()
    conn = Conn(FIXProtocol44(), "S", "T", j, "localhost", 1)
    conn._connection_role = ConnectionRole.INITIATOR
    wire = []

    def connect():
        w = MagicMock()
        w.write.side_effect = wire.append
        w.drain = AsyncMock()
        w.wait_closed = AsyncMock()
        conn._socket_writer = w
        conn._socket_reader = MagicMock()
        conn._connection_state = ConnectionState.NETWORK_CONN_ESTABLISHED

    peer_codec, peer = Codec(FIXProtocol44()), FIXSession(0, "S", "T")
    peer.next_num_out = 1

    async def logon():
        await conn.send_msg(FIXMessage(FMsg.LOGON, {98: 0, 108: 30}))
        raw = peer_codec.encode(FIXMessage(FMsg.LOGON, {98: 0, 108: 30}), peer).encode()
        msg, _, raw = peer_codec.decode(raw)
        await conn._process_message(msg, raw)
        assert conn.connection_state == ConnectionState.ACTIVE

    # first session
    connect()
    await logon()
    await conn.send_msg(FIXMessage("D", {11: "order-1"}))
    await conn.disconnect(ConnectionState.DISCONNECTED_BROKEN_CONN)
    assert [seqnum(f) for f in wire] == [1, 2]

    # operator: counterparty wants us to continue with 10
    handle = j.sessions()[("T", "S")]
    j.set_seq_num(handle, next_num_out=10)
    stored_start = j.create_or_load("T", "S").next_num_out
    print("stored next outbound number before the 2nd session:", stored_start)

    # second session, same connection object
    connect()
    await logon()
    first = seqnum(wire[2])
    stored_after = j.create_or_load("T", "S").next_num_out
    print("first new message of the 2nd session left with 34 =", first)
    print("stored next outbound number after it:", stored_after)

    if first != stored_start:
        print(
            f"C05 VIOLATED: numbering did not start from the stored counter "
            f"({stored_start}), message left with {first}; stored counter went "
            f"back from {stored_start} to {stored_after}"
        )
        sys.exit(1)
    print("C05 holds")


asyncio.run(main())
