"""C05 genuine violation 1: a MsgType that can't be utf-8 encoded consumes a MsgSeqNum.

Run (unmodified tree):
    cd WT && PYTHONPATH=WT /venv/bin/python _mutant/genuine1.py
exit 1 + message = property violated, exit 0 = property holds.

History: initiator logs on (34=1), sends an order (34=2), then the application
calls send_msg() with a message whose MsgType holds a lone surrogate (e.g. text
obtained with errors="surrogateescape"). The send fails with UnicodeEncodeError,
nothing is journaled, nothing is written - but the number 3 is gone: the next
order leaves with 34=4.
"""
import asyncio
import logging
import sys
from unittest.mock import AsyncMock, MagicMock

from asyncfix import FIXMessage, FMsg, FTag
from asyncfix.codec import Codec
from asyncfix.connection import AsyncFIXConnection, ConnectionRole, ConnectionState
from asyncfix.journaler import Journaler
from asyncfix.message import MessageDirection
from asyncfix.protocol import FIXProtocol44
from asyncfix.session import FIXSession

logging.disable(logging.CRITICAL)


class Conn(AsyncFIXConnection):
    async def on_message(self, msg):
        pass

    async def on_connect(self):
        pass


def seqnum(frame: bytes) -> int:
    return int(dict(f.split(b"=", 1) for f in frame.split(b"\x01") if f)[b"34"])


async def main():
    j = Journaler()
    conn = Conn(FIXProtocol44(), "S", "T", j, "localhost", 1)
    conn._connection_role = ConnectionRole.INITIATOR
    wire = []
    w = MagicMock()
    w.write.side_effect = wire.append
    w.drain = AsyncMock()
    w.wait_closed = AsyncMock()
    conn._socket_writer = w
    conn._socket_reader = MagicMock()
    conn._connection_state = ConnectionState.NETWORK_CONN_ESTABLISHED

    # logon handshake
    await conn.send_msg(FIXMessage(FMsg.LOGON, {98: 0, 108: 30}))
    peer_codec, peer = Codec(FIXProtocol44()), FIXSession(0, "S", "T")
    peer.next_num_out = 1
    raw = peer_codec.encode(FIXMessage(FMsg.LOGON, {98: 0, 108: 30}), peer).encode()
    msg, _, raw = peer_codec.decode(raw)
    await conn._process_message(msg, raw)
    assert conn.connection_state == ConnectionState.ACTIVE

    await conn.send_msg(FIXMessage("D", {11: "order-1"}))
    assert [seqnum(f) for f in wire] == [1, 2]

    # control: the same text in a field value is refused WITHOUT consuming a number
    try:
        await conn.send_msg(FIXMessage("D", {11: "bad-\udcff"}))
    except Exception as exc:
        print("field value  :", type(exc).__name__, "next_num_out =", conn._session.next_num_out)
    assert conn._session.next_num_out == 3 and len(wire) == 2

    # the failing input: same text as MsgType
    try:
        await conn.send_msg(FIXMessage("U\udcff", {11: "x"}))
        print("unexpected: message was sent")
    except Exception as exc:
        print("MsgType      :", type(exc).__name__, "next_num_out =", conn._session.next_num_out)

    stored = j.create_or_load("T", "S").next_num_out
    mem_after_failure = conn._session.next_num_out
    wire_after_failure = len(wire)

    await conn.send_msg(FIXMessage("D", {11: "order-2"}))
    nums = [seqnum(f) for f in wire]
    rows = [r[0] for r in j.get_all_msgs(direction=MessageDirection.OUTBOUND)]
    print("wire MsgSeqNum of new messages:", nums)
    print("journal outbound keys         :", rows)

    problems = []
    if wire_after_failure == 2 and mem_after_failure != 3:
        problems.append(
            f"failed send wrote nothing and journaled nothing, but next_num_out is "
            f"{mem_after_failure} while the stored counter says {stored}"
        )
    if nums != list(range(1, len(nums) + 1)):
        problems.append(f"new messages are not numbered consecutively: {nums}")
    if j.recover_msg(conn._session, MessageDirection.OUTBOUND, 3) is None and 4 in rows:
        problems.append("journal has outbound row 4 but no row 3 (hole)")
    if problems:
        print("C05 VIOLATED:")
        for p in problems:
            print("  -", p)
        sys.exit(1)
    print("C05 holds")


asyncio.run(main())
