"""C07 violation: send_msg() accepts (numbers, journals, writes) an application
message with a 19 digit tag, the decoder of the peer refuses tags longer than 18
digits and skips the frame silently; the retransmission can never be produced
(decode(silent=False) of the journal row asserts inside _resend_range), so this
message AND every later one are lost, the peer stays RESENDREQ_AWAITING for ever,
also after connection loss + reconnect + Logon.

Real localhost TCP sockets, unmodified library.
Run:  cd WT && PYTHONPATH=WT /venv/bin/python _mutant/genuine2.py
exit 1 = property violated, exit 0 = not reproduced
"""
import asyncio
import logging
import os
import sys

import asyncfix
from asyncfix import FIXMessage, FMsg, FTag
from asyncfix.connection import ConnectionState
from asyncfix.connection_client import AsyncFIXClient
from asyncfix.connection_server import AsyncFIXDummyServer
from asyncfix.journaler import Journaler
from asyncfix.protocol import FIXProtocol44

logging.disable(logging.CRITICAL)
SRV_PORT, PROXY_PORT = 45741, 45742
BIG_TAG = int(os.environ.get("BIG_TAG", 10**18))  # 19 digits; BIG_TAG=999999999999999999 (18) is delivered fine


class Proxy:
    def __init__(self):
        self.writers, self.tasks = [], []

    async def start(self):
        self.server = await asyncio.start_server(self.accept, "127.0.0.1", PROXY_PORT)

    async def accept(self, cr, cw):
        sr, sw = await asyncio.open_connection("127.0.0.1", SRV_PORT)
        self.writers = [cw, sw]
        self.tasks = [
            asyncio.create_task(self.pipe(cr, sw)),
            asyncio.create_task(self.pipe(sr, cw)),
        ]

    async def pipe(self, r, w):
        try:
            while True:
                data = await r.read(65536)
                if not data:
                    break
                w.write(data)
                await w.drain()
        except (OSError, asyncio.CancelledError):
            pass
        finally:
            w.close()

    async def cut(self):
        for t in self.tasks:
            t.cancel()
        for w in self.writers:
            w.close()
        await asyncio.sleep(0.2)


class App:
    def setup(self):
        self.received = []
        self.accepted = []

    async def on_connect(self):
        if self.connection_role.name == "INITIATOR":
            await self.send_msg(
                FIXMessage(FMsg.LOGON, {FTag.EncryptMethod: 0, FTag.HeartBtInt: 30})
            )

    async def on_message(self, msg):
        self.received.append(msg[FTag.ClOrdID])

    async def order(self, ident, extra=None):
        tags = {FTag.ClOrdID: ident, FTag.Symbol: "X"}
        tags.update(extra or {})
        await self.send_msg(FIXMessage(FMsg.NEWORDERSINGLE, tags))  # raises if refused
        self.accepted.append(ident)


class Client(App, AsyncFIXClient):
    pass


class Server(App, AsyncFIXDummyServer):
    pass


async def wait_for(cond, timeout=10):
    for _ in range(int(timeout / 0.01)):
        if cond():
            return True
        await asyncio.sleep(0.01)
    return False


async def main():
    assert asyncfix.__file__.startswith("/tmp/w6_c07/"), asyncfix.__file__
    srv = Server(FIXProtocol44(), "ACPT", "INIT", Journaler(), "127.0.0.1", SRV_PORT)
    cli = Client(FIXProtocol44(), "INIT", "ACPT", Journaler(), "127.0.0.1", PROXY_PORT)
    srv.setup()
    cli.setup()
    asyncio.create_task(srv.connect())
    await asyncio.sleep(0.2)
    proxy = Proxy()
    await proxy.start()
    await cli.connect()
    active = lambda: (  # noqa
        cli.connection_state == ConnectionState.ACTIVE
        and srv.connection_state == ConnectionState.ACTIVE
    )
    assert await wait_for(active), "first logon failed"

    await cli.order("before")
    await cli.order("bigtag", {BIG_TAG: "user defined field"})
    await cli.order("after1")
    await srv.order("reverse1")
    await asyncio.sleep(1.0)
    print("no loss yet: acceptor got", srv.received, "state", srv.connection_state.name)

    for attempt in (1, 2):
        await proxy.cut()
        assert await wait_for(
            lambda: cli.connection_state <= 3 and srv.connection_state <= 3
        ), "loss not seen"
        await cli.connect()
        await asyncio.sleep(1.0)
        try:
            await cli.order(f"after-reconnect{attempt}")
        except asyncfix.errors.FIXError as exc:
            print("send refused:", exc)
        await asyncio.sleep(1.0)
        print(f"reconnect {attempt}: states", cli.connection_state.name,
              srv.connection_state.name, " acceptor got", srv.received)

    print("accepted by initiator send():", cli.accepted)
    print("received by acceptor app    :", srv.received)
    print("initiator next out:", cli._session.next_num_out,
          " acceptor next in:", srv._session.next_num_in)
    bad = srv.received != cli.accepted or not active()
    if bad:
        print("VIOLATION: accepted messages are lost for good / acceptor never ACTIVE")
        return 1
    print("not reproduced")
    return 0


async def _run():
    rc = await main()
    sys.stdout.flush()
    os._exit(rc)  # the dummy server never stops serving


asyncio.run(_run())
