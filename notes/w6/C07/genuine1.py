"""C07 violation: an application send() that runs while a ResendRequest is being
serviced is accepted, written between the retransmissions, dropped by the peer
(still RESENDREQ_AWAITING) and nobody asks for it again: both ends are ACTIVE and
quiet, the message is not delivered, counters differ.

Real localhost TCP sockets, unmodified library, well behaved application.
Two independent ways for the servicing coroutine to suspend are shown:
  drain   - nothing special: 24 MB backlog, StreamWriter.drain() blocks while the
            socket is full and the sending task of the application gets its turn
  replay  - small backlog, should_replay() (async application hook) awaits once

Run:  cd WT && PYTHONPATH=WT /venv/bin/python _mutant/genuine1.py [drain|replay]
exit 1 = property violated, exit 0 = not reproduced
"""
import asyncio
import logging
import os
import sys

import asyncfix
from asyncfix import FIXMessage, FMsg, FTag
from asyncfix.connection import ConnectionState
from asyncfix.connection_client import AsyncFIXClient
from asyncfix.connection_server import AsyncFIXDummyServer
from asyncfix.journaler import Journaler
from asyncfix.protocol import FIXProtocol44

logging.disable(logging.CRITICAL)
MODE = sys.argv[1] if len(sys.argv) > 1 else "drain"
SRV_PORT, PROXY_PORT = 45731, 45732


class Proxy:
    """TCP relay; hold() = frames stay in flight, cut() = connection loss."""

    def __init__(self):
        self.holding = False
        self.writers = []
        self.tasks = []

    async def start(self):
        self.server = await asyncio.start_server(self.accept, "127.0.0.1", PROXY_PORT)

    async def accept(self, cr, cw):
        sr, sw = await asyncio.open_connection("127.0.0.1", SRV_PORT)
        self.writers = [cw, sw]
        self.tasks = [
            asyncio.create_task(self.pipe(cr, sw)),
            asyncio.create_task(self.pipe(sr, cw)),
        ]

    async def pipe(self, r, w):
        try:
            while True:
                data = await r.read(65536)
                if not data:
                    break
                if not self.holding:
                    w.write(data)
                    await w.drain()
        except (OSError, asyncio.CancelledError):
            pass
        finally:
            w.close()

    async def cut(self):
        for t in self.tasks:
            t.cancel()
        for w in self.writers:
            w.close()
        self.holding = False
        await asyncio.sleep(0.2)


class App:
    def setup(self):
        self.received = []
        self.accepted = []
        self.replay_yields = False
        self.logged_on = asyncio.Event()

    async def on_logon(self, is_healthy):
        if is_healthy:
            self.logged_on.set()

    async def on_connect(self):
        if self.connection_role.name == "INITIATOR":
            await self.send_msg(
                FIXMessage(FMsg.LOGON, {FTag.EncryptMethod: 0, FTag.HeartBtInt: 30})
            )

    async def on_message(self, msg):
        self.received.append(msg[FTag.ClOrdID])

    async def should_replay(self, msg):
        if self.replay_yields:
            await asyncio.sleep(0)  # e.g. looks the order up somewhere
        return True

    async def order(self, ident, size=10):
        m = FIXMessage(
            FMsg.NEWORDERSINGLE, {FTag.ClOrdID: ident, FTag.Text: "x" * size}
        )
        await self.send_msg(m)  # raises when the message is refused
        self.accepted.append(ident)


class Client(App, AsyncFIXClient):
    pass


class Server(App, AsyncFIXDummyServer):
    pass


async def wait_for(cond, timeout=120):
    for _ in range(int(timeout / 0.01)):
        if cond():
            return True
        await asyncio.sleep(0.01)
    return False


async def main():
    assert asyncfix.__file__.startswith("/tmp/w6_c07/"), asyncfix.__file__
    srv = Server(FIXProtocol44(), "ACPT", "INIT", Journaler(), "127.0.0.1", SRV_PORT)
    cli = Client(FIXProtocol44(), "INIT", "ACPT", Journaler(), "127.0.0.1", PROXY_PORT)
    srv.setup()
    cli.setup()
    cli.replay_yields = MODE == "replay"
    srv_task = asyncio.create_task(srv.connect())
    await asyncio.sleep(0.2)
    proxy = Proxy()
    await proxy.start()

    await cli.connect()
    active = lambda: (  # noqa
        cli.connection_state == ConnectionState.ACTIVE
        and srv.connection_state == ConnectionState.ACTIVE
    )
    assert await wait_for(active), "first logon failed"

    # frames of the initiator stay in flight, then the connection is lost
    proxy.holding = True
    n, size = (400, 60000) if MODE == "drain" else (300, 10)
    for i in range(n):
        await cli.order(f"backlog{i}", size)
    await asyncio.sleep(0.3)
    await proxy.cut()
    assert await wait_for(
        lambda: cli.connection_state <= 3 and srv.connection_state <= 3
    ), "loss not seen"

    # application task: one request as soon as the session is logged on again
    during = []

    async def on_reconnect():
        await cli.logged_on.wait()
        st = cli.connection_state
        await cli.order("after-logon")
        if st == ConnectionState.RESENDREQ_HANDLING:
            during.append("after-logon")

    cli.logged_on.clear()
    t = asyncio.create_task(on_reconnect())
    await cli.connect()  # reconnect + Logon, acceptor answers with ResendRequest
    await t
    # quiescence: nothing in flight any more, heartbeat interval (30 s) is far away
    last = None
    for _ in range(600):
        await asyncio.sleep(0.25)
        cur = (len(srv.received), cli._session.next_num_out, srv._session.next_num_in)
        if cur == last and cli.connection_state == ConnectionState.ACTIVE:
            break
        last = cur
    await asyncio.sleep(1.0)

    print("mode", MODE)
    print("states:", cli.connection_state.name, srv.connection_state.name)
    print("accepted by initiator send():", len(cli.accepted),
          " received by acceptor app:", len(srv.received))
    print("accepted while ResendRequest was serviced:", during)
    missing = [x for x in cli.accepted if x not in srv.received]
    print("accepted but not delivered:", missing)
    print("initiator next out:", cli._session.next_num_out,
          " acceptor next in:", srv._session.next_num_in)
    bad = (
        missing
        or srv.received != cli.accepted
        or cli._session.next_num_out != srv._session.next_num_in
    )
    srv_task.cancel()
    if bad and active():
        print("VIOLATION: both ACTIVE and quiet, accepted message(s) not delivered,"
              " counters differ")
        return 1
    print("not reproduced" if not bad else "inconclusive (not both ACTIVE)")
    return 0


async def _run():
    rc = await main()
    sys.stdout.flush()
    os._exit(rc)  # the dummy server never stops serving


asyncio.run(_run())
