"""genuine5: one journaled message with a 19 digit tag cuts the whole reply short.

Run:  cd /tmp/w6_c06 && PYTHONPATH=/tmp/w6_c06 /venv/bin/python _mutant/genuine5.py
Exit 1 = property C06 violated on the unmodified tree, exit 0 = not reproduced.
"""
import asyncio, logging, sys
from unittest.mock import MagicMock, AsyncMock
from asyncfix import FIXMessage, FMsg, FTag
from asyncfix.connection import AsyncFIXConnection, ConnectionState, ConnectionRole
from asyncfix.journaler import Journaler
from asyncfix.message import MessageDirection
from asyncfix.protocol import FIXProtocol44
from asyncfix.codec import Codec
from asyncfix.session import FIXSession

logging.disable(logging.CRITICAL)


class Conn(AsyncFIXConnection):
    async def on_message(self, msg):
        pass

    async def on_connect(self):
        pass


def mk():
    """ACTIVE initiator connection, in-memory journal, writes captured in c.wire."""
    c = Conn(FIXProtocol44(), "ME", "PEER", journaler=Journaler(), host="h", port=1)
    c.wire = []
    w = MagicMock()
    w.write.side_effect = lambda b: c.wire.append(b)
    w.drain = AsyncMock()
    w.wait_closed = AsyncMock()
    c._socket_writer = w
    c._socket_reader = MagicMock()
    c._connection_state = ConnectionState.ACTIVE
    c._connection_role = ConnectionRole.INITIATOR
    c._connection_was_active = True
    c.peer_codec = Codec(FIXProtocol44())
    c.peer_sess = FIXSession(99, "ME", "PEER")
    c.peer_sess.next_num_out = 1
    c.peer_sess.next_num_in = 1
    return c


async def feed_resend_request(c, begin, end):
    """Counterparty sends ResendRequest(begin, end) with the expected MsgSeqNum."""
    c.peer_sess.next_num_out = c._session.next_num_in
    rr = FIXMessage(FMsg.RESENDREQUEST, {FTag.BeginSeqNo: begin, FTag.EndSeqNo: end})
    raw = c.peer_codec.encode(rr, c.peer_sess).encode()
    d, _, r = c._codec.decode(raw)
    await c._process_message(d, r)


def fields(raw):
    return [f for f in raw.decode().split("\x01") if f]


def body(raw):
    """Application part of a frame: everything but framing / standard header."""
    hdr = ("8=", "9=", "35=", "49=", "56=", "34=", "52=", "43=", "122=", "10=")
    return [f for f in fields(raw) if not f.startswith(hdr)]


def pretty(raw):
    return raw.replace(b"\x01", b"|").decode()


async def main():
    c = mk()
    await c.send_msg(FIXMessage(FMsg.NEWORDERSINGLE, {11: "a"}))
    # accepted by FIXMessage, encoded, journaled and written to the socket
    await c.send_msg(FIXMessage(FMsg.NEWORDERSINGLE, {11: "b", "1234567890123456789": "v"}))
    await c.send_msg(FIXMessage(FMsg.NEWORDERSINGLE, {11: "c"}))
    n = len(c.wire)
    await feed_resend_request(c, 1, 0)
    covered = 1
    for r in c.wire[n:]:
        print("reply :", pretty(r))
        f = dict(x.split("=", 1) for x in fields(r))
        assert int(f["34"]) == covered
        covered = int(f["36"]) if f["35"] == "4" else covered + 1
    print("numbers covered by the reply: 1 ..", covered - 1, "(requested 1 .. 3)")
    if covered != 4:
        print(
            "VIOLATION: MsgSeqNum", covered, ".. 3 neither resent nor gap filled"
            " (AssertionError 'invalid tag' from Codec.decode(silent=False))"
        )
        return 1
    print("OK")
    return 0


sys.exit(asyncio.run(main()))
