"""genuine1: retransmission of a message with a nested repeating group has a rearranged body.

Run:  cd /tmp/w6_c06 && PYTHONPATH=/tmp/w6_c06 /venv/bin/python _mutant/genuine1.py
Exit 1 = property C06 violated on the unmodified tree, exit 0 = not reproduced.
"""
import asyncio, logging, sys
from unittest.mock import MagicMock, AsyncMock
from asyncfix import FIXMessage, FMsg, FTag
from asyncfix.connection import AsyncFIXConnection, ConnectionState, ConnectionRole
from asyncfix.journaler import Journaler
from asyncfix.message import MessageDirection
from asyncfix.protocol import FIXProtocol44
from asyncfix.codec import Codec
from asyncfix.session import FIXSession

logging.disable(logging.CRITICAL)


class Conn(AsyncFIXConnection):
    async def on_message(self, msg):
        pass

    async def on_connect(self):
        pass


def mk():
    """ACTIVE initiator connection, in-memory journal, writes captured in c.wire."""
    c = Conn(FIXProtocol44(), "ME", "PEER", journaler=Journaler(), host="h", port=1)
    c.wire = []
    w = MagicMock()
    w.write.side_effect = lambda b: c.wire.append(b)
    w.drain = AsyncMock()
    w.wait_closed = AsyncMock()
    c._socket_writer = w
    c._socket_reader = MagicMock()
    c._connection_state = ConnectionState.ACTIVE
    c._connection_role = ConnectionRole.INITIATOR
    c._connection_was_active = True
    c.peer_codec = Codec(FIXProtocol44())
    c.peer_sess = FIXSession(99, "ME", "PEER")
    c.peer_sess.next_num_out = 1
    c.peer_sess.next_num_in = 1
    return c


async def feed_resend_request(c, begin, end):
    """Counterparty sends ResendRequest(begin, end) with the expected MsgSeqNum."""
    c.peer_sess.next_num_out = c._session.next_num_in
    rr = FIXMessage(FMsg.RESENDREQUEST, {FTag.BeginSeqNo: begin, FTag.EndSeqNo: end})
    raw = c.peer_codec.encode(rr, c.peer_sess).encode()
    d, _, r = c._codec.decode(raw)
    await c._process_message(d, r)


def fields(raw):
    return [f for f in raw.decode().split("\x01") if f]


def body(raw):
    """Application part of a frame: everything but framing / standard header."""
    hdr = ("8=", "9=", "35=", "49=", "56=", "34=", "52=", "43=", "122=", "10=")
    return [f for f in fields(raw) if not f.startswith(hdr)]


def pretty(raw):
    return raw.replace(b"\x01", b"|").decode()


async def main():
    c = mk()
    # PositionMaintenanceRequest(35=AL), FIX 4.4 PositionQty component:
    #   NoPositions(702) -> PosType(703) LongQty(704) NestedParties(539 -> 524 525 538)
    m = FIXMessage("AL", {710: "req1", 709: 1, 712: 1, 715: "20260922"})
    m.set_group(
        702,
        [
            {703: "TQ", 704: 10, 539: [{524: "p1", 525: "D", 538: 1}]},
            {703: "TA", 704: 5, 539: [{524: "p2", 525: "D", 538: 4}]},
        ],
    )
    m[60] = "20260922-10:00:00"
    await c.send_msg(m)
    original = c.wire[-1]
    n = len(c.wire)
    await feed_resend_request(c, 1, 0)
    reply = c.wire[n:]
    print("original :", pretty(original))
    for r in reply:
        print("reply    :", pretty(r))
    if len(reply) == 1 and body(reply[0]) == body(original):
        print("OK: body identical")
        return 0
    print("VIOLATION: retransmitted body differs from the journaled original")
    print("  original body:", "|".join(body(original)))
    print("  resent body  :", "|".join(body(reply[0])) if reply else None)
    return 1


sys.exit(asyncio.run(main()))
