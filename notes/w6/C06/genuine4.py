"""genuine4: session-level Reject(35=3) is retransmitted instead of gap filled.

Run:  cd /tmp/w6_c06 && PYTHONPATH=/tmp/w6_c06 /venv/bin/python _mutant/genuine4.py
Exit 1 = property C06 violated on the unmodified tree, exit 0 = not reproduced.
"""
import asyncio, logging, sys
from unittest.mock import MagicMock, AsyncMock
from asyncfix import FIXMessage, FMsg, FTag
from asyncfix.connection import AsyncFIXConnection, ConnectionState, ConnectionRole
from asyncfix.journaler import Journaler
from asyncfix.message import MessageDirection
from asyncfix.protocol import FIXProtocol44
from asyncfix.codec import Codec
from asyncfix.session import FIXSession

logging.disable(logging.CRITICAL)


class Conn(AsyncFIXConnection):
    async def on_message(self, msg):
        pass

    async def on_connect(self):
        pass


def mk():
    """ACTIVE initiator connection, in-memory journal, writes captured in c.wire."""
    c = Conn(FIXProtocol44(), "ME", "PEER", journaler=Journaler(), host="h", port=1)
    c.wire = []
    w = MagicMock()
    w.write.side_effect = lambda b: c.wire.append(b)
    w.drain = AsyncMock()
    w.wait_closed = AsyncMock()
    c._socket_writer = w
    c._socket_reader = MagicMock()
    c._connection_state = ConnectionState.ACTIVE
    c._connection_role = ConnectionRole.INITIATOR
    c._connection_was_active = True
    c.peer_codec = Codec(FIXProtocol44())
    c.peer_sess = FIXSession(99, "ME", "PEER")
    c.peer_sess.next_num_out = 1
    c.peer_sess.next_num_in = 1
    return c


async def feed_resend_request(c, begin, end):
    """Counterparty sends ResendRequest(begin, end) with the expected MsgSeqNum."""
    c.peer_sess.next_num_out = c._session.next_num_in
    rr = FIXMessage(FMsg.RESENDREQUEST, {FTag.BeginSeqNo: begin, FTag.EndSeqNo: end})
    raw = c.peer_codec.encode(rr, c.peer_sess).encode()
    d, _, r = c._codec.decode(raw)
    await c._process_message(d, r)


def fields(raw):
    return [f for f in raw.decode().split("\x01") if f]


def body(raw):
    """Application part of a frame: everything but framing / standard header."""
    hdr = ("8=", "9=", "35=", "49=", "56=", "34=", "52=", "43=", "122=", "10=")
    return [f for f in fields(raw) if not f.startswith(hdr)]


def pretty(raw):
    return raw.replace(b"\x01", b"|").decode()


async def main():
    c = mk()
    await c.send_msg(FIXMessage(FMsg.NEWORDERSINGLE, {11: "a"}))
    # session-level Reject of a malformed inbound message (RefSeqNum, Text)
    await c.send_msg(FIXMessage(FMsg.REJECT, {45: 7, 373: 1, 58: "Required tag missing"}))
    await c.send_msg(FIXMessage(FMsg.NEWORDERSINGLE, {11: "b"}))
    assert FMsg.REJECT in FIXProtocol44.session_message_types
    n = len(c.wire)
    await feed_resend_request(c, 1, 0)
    resent = []
    for r in c.wire[n:]:
        print("reply :", pretty(r))
        f = fields(r)
        if "35=3" in f:
            resent.append(r)
    if resent:
        print(
            "VIOLATION: session message Reject(35=3) MsgSeqNum=2 was retransmitted"
            " with PossDupFlag=Y, property: session-level messages are never"
            " retransmitted, their numbers are gap filled"
        )
        return 1
    print("OK")
    return 0


sys.exit(asyncio.run(main()))
