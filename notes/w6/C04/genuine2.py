"""C04 genuine violation 2: MsgSeqNum written with non-ASCII digits is accepted by int(),
delivered to the application, but can not be journaled: stored inbound counter is not
advanced and the same number is delivered a second time after a reload of the session.

Run:  cd WT && PYTHONPATH=WT /venv/bin/python _mutant/genuine2.py
exit 1 = property violated on the unmodified tree, exit 0 = not reproduced.
"""
import asyncio
import logging
import os
import sys
import tempfile

import asyncfix
from asyncfix import FIXMessage, FMsg, FTag
from asyncfix.connection import AsyncFIXConnection, ConnectionState
from asyncfix.journaler import Journaler
from asyncfix.protocol import FIXProtocol44

SOH = "\x01"
KEY = ("ACCEPTOR", "INITIATOR")


def frame(msgtype, seq, fields=()):
    body = [f"35={msgtype}", "49=ACCEPTOR", "56=INITIATOR", f"34={seq}",
            "52=20240101-00:00:00.000"]
    body += [f"{t}={v}" for t, v in fields]
    b = SOH.join(body) + SOH
    m = (f"8=FIX.4.4{SOH}9={len(b.encode())}{SOH}" + b).encode()  # utf-8 on the wire
    return m + f"10={sum(m) % 256:03d}{SOH}".encode()


class W:
    def __init__(self):
        self.out = []

    def write(self, d):
        self.out.append(d)

    async def drain(self):
        pass

    def close(self):
        pass

    async def wait_closed(self):
        pass


class Conn(AsyncFIXConnection):
    def __init__(self, journaler, sink):
        log = logging.getLogger("g2")
        log.setLevel(logging.CRITICAL)
        log.propagate = False
        super().__init__(FIXProtocol44(), "INITIATOR", "ACCEPTOR", journaler=journaler,
                         host="x", port=1, logger=log)
        self.delivered = sink

    async def on_message(self, msg):
        self.delivered.append((int(msg[FTag.MsgSeqNum]), msg[FTag.ClOrdID]))

    async def on_connect(self):
        pass


async def feed(c, raw):
    """the same as socket_read_task does for one frame."""
    m, _, r = c._codec.decode(raw)
    assert m is not None
    try:
        await c._process_message(m, r)
    except Exception as exc:  # socket_read_task logs and goes on
        print("    _process_message raised:", repr(exc)[:90])


async def logon(c, peer_seq):
    c._socket_writer = W()
    c._connection_state = ConnectionState.NETWORK_CONN_ESTABLISHED
    await c.send_msg(FIXMessage(FMsg.LOGON, {FTag.EncryptMethod: 0, FTag.HeartBtInt: 30}))
    await feed(c, frame("A", peer_seq, [(98, 0), (108, 30)]))


async def main():
    print("asyncfix from", asyncfix.__file__)
    path = os.path.join(tempfile.mkdtemp(), "j.db")
    delivered = []
    bad = []

    j = Journaler(path)
    c = Conn(j, delivered)
    await logon(c, 1)
    assert c._connection_state == ConnectionState.ACTIVE
    await feed(c, frame("D", 2, [(11, "first")]))
    # MsgSeqNum 3 spelled with ARABIC-INDIC DIGIT THREE (int('٣') == 3)
    await feed(c, frame("D", "٣", [(11, "second")]))
    mem = c._session.next_num_in
    st = j.sessions()[KEY].next_num_in
    rows = [r[0] for r in j.get_all_msgs(direction=asyncfix.message.MessageDirection.INBOUND)]
    print(f"session 1: delivered={delivered} memory next={mem} stored next={st} journal rows={rows}")
    if delivered[-1][0] == 3 and st != mem:
        bad.append(f"message 34=U+0663 was delivered as number 3, expected number in memory {mem} "
                   f"but stored inbound counter says {st}; not journaled")
    del c, j

    # process restart: same journal file, peer continues with 4 (its Logon)
    j = Journaler(path)
    c = Conn(j, delivered)
    await logon(c, 4)
    rr = [m for m in (c._codec.decode(d)[0] for d in c._socket_writer.out)
          if m.msg_type == FMsg.RESENDREQUEST]
    print(f"session 2: state={c._connection_state.name} ResendRequest BeginSeqNo="
          f"{[m[FTag.BeginSeqNo] for m in rr]}")
    # honest peer resends 3 (now spelled normally), gap fills its Logon
    raw3 = frame("D", 3, [(43, "Y"), (122, "20240101-00:00:00.000"), (11, "second")])
    await feed(c, raw3)
    await feed(c, frame("4", 4, [(123, "Y"), (36, 5)]))
    print(f"session 2: delivered={delivered}")
    nums = [n for n, _ in delivered]
    if nums.count(3) > 1:
        bad.append(f"number 3 (ClOrdID 'second') handed to the application twice: {delivered}")

    if bad:
        print("\nPROPERTY C04 VIOLATED:")
        for b in bad:
            print(" -", b)
        sys.exit(1)
    print("not reproduced")


asyncio.run(main())
