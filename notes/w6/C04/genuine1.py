"""C04 genuine violation 1: SequenceReset with a number sqlite cannot store moves the
inbound counter to the MsgSeqNum of a reset that is never honoured.

Run:  cd WT && PYTHONPATH=WT /venv/bin/python _mutant/genuine1.py
exit 1 = property violated on the unmodified tree, exit 0 = not reproduced.
"""
import asyncio
import logging
import sys

import asyncfix
from asyncfix import FIXMessage, FMsg, FTag
from asyncfix.connection import AsyncFIXConnection, ConnectionState
from asyncfix.journaler import Journaler
from asyncfix.protocol import FIXProtocol44

SOH = "\x01"
KEY = ("ACCEPTOR", "INITIATOR")


def frame(msgtype, seq, fields=()):
    body = [f"35={msgtype}", "49=ACCEPTOR", "56=INITIATOR", f"34={seq}",
            "52=20240101-00:00:00.000"]
    body += [f"{t}={v}" for t, v in fields]
    b = SOH.join(body) + SOH
    m = (f"8=FIX.4.4{SOH}9={len(b.encode())}{SOH}" + b).encode()
    return m + f"10={sum(m) % 256:03d}{SOH}".encode()


class W:
    def __init__(self):
        self.out = []

    def write(self, d):
        self.out.append(d)

    async def drain(self):
        pass

    def close(self):
        pass

    async def wait_closed(self):
        pass


class Conn(AsyncFIXConnection):
    def __init__(self):
        log = logging.getLogger("g1")
        log.setLevel(logging.CRITICAL)
        log.propagate = False
        super().__init__(FIXProtocol44(), "INITIATOR", "ACCEPTOR", journaler=Journaler(),
                         host="x", port=1, logger=log)
        self.delivered = []

    async def on_message(self, msg):
        self.delivered.append(msg[FTag.MsgSeqNum])

    async def on_connect(self):
        pass


async def feed(c, raw):
    m, _, r = c._codec.decode(raw)
    assert m is not None
    await c._process_message(m, r)


async def logged_on(expected):
    c = Conn()
    c._socket_writer = W()
    c._connection_state = ConnectionState.NETWORK_CONN_ESTABLISHED
    c._journaler.set_seq_num(c._session, next_num_in=expected, next_num_out=1)
    await c.send_msg(FIXMessage(FMsg.LOGON, {FTag.EncryptMethod: 0, FTag.HeartBtInt: 30}))
    await feed(c, frame("A", expected, [(98, 0), (108, 30)]))
    assert c._connection_state == ConnectionState.ACTIVE
    return c


def stored(c):
    return c._journaler.sessions()[KEY].next_num_in


async def main():
    print("asyncfix from", asyncfix.__file__)
    bad = []

    # (a) reset mode SequenceReset, own MsgSeqNum 2**64, NewSeqNo = expected + 2
    c = await logged_on(5)
    e = c._session.next_num_in  # 6
    await feed(c, frame("4", 2**64, [(36, e + 2)]))
    mem = c._session.next_num_in
    print(f"(a) expected {e}; SequenceReset 34=2**64 36={e + 2} -> in memory {mem}, stored {stored(c)}")
    if mem not in (e, e + 2):
        bad.append(f"(a) expected number became {mem}: neither unchanged ({e}) nor NewSeqNo "
                   f"({e + 2}), it is the MsgSeqNum of the reset")
    await feed(c, frame("D", e, [(11, "x")]))  # the message the peer really sends next
    print(f"    next in-sequence message {e}: delivered={c.delivered} state={c._connection_state.name}")
    if not c.delivered:
        bad.append(f"(a) in-sequence message {e} is now refused as 'too low' and the session is closed")

    # (b) reset mode SequenceReset, own MsgSeqNum 100, NewSeqNo 2**63 + 5
    c = await logged_on(5)
    e = c._session.next_num_in
    await feed(c, frame("4", 100, [(36, 2**63 + 5)]))
    mem, st = c._session.next_num_in, stored(c)
    print(f"(b) expected {e}; SequenceReset 34=100 36=2**63+5 -> in memory {mem}, stored {st}")
    if st not in (e, 2**63 + 5) or mem != st:
        bad.append(f"(b) stored inbound counter is {st} (MsgSeqNum of the reset), in memory {mem}: "
                   f"after a reload {e}..{st - 1} are skipped without ResendRequest")

    # (c) GapFill at the expected number with NewSeqNo 2**63 + 5
    c = await logged_on(5)
    e = c._session.next_num_in
    await feed(c, frame("4", e, [(123, "Y"), (36, 2**63 + 5)]))
    mem, st = c._session.next_num_in, stored(c)
    print(f"(c) expected {e}; GapFill 34={e} 36=2**63+5 -> in memory {mem}, stored {st}")
    if mem != st:
        bad.append(f"(c) counter in memory {mem} != stored {st} (reset neither honoured nor ignored)")

    if bad:
        print("\nPROPERTY C04 VIOLATED:")
        for b in bad:
            print(" -", b)
        sys.exit(1)
    print("not reproduced")


asyncio.run(main())
