"""C14 genuine1: a send that fails AFTER MsgSeqNum allocation leaves the outbound
counter above "highest number sent + 1" (repair e4aa980 is incomplete for MsgType).

Run:  cd WT && PYTHONPATH=WT /venv/bin/python _mutant/genuine1.py
Exit 1 + message when the property is violated (unmodified tree), exit 0 otherwise.
"""
import asyncio
import logging
import sys

from asyncfix import FIXMessage, FMsg, FTag
from asyncfix.codec import Codec
from asyncfix.connection import AsyncFIXConnection, ConnectionRole, ConnectionState
from asyncfix.journaler import Journaler
from asyncfix.protocol import FIXProtocol44
from asyncfix.session import FIXSession

logging.disable(logging.CRITICAL)


class Writer:
    def __init__(self):
        self.wire = []

    def write(self, data):
        self.wire.append(bytes(data))

    async def drain(self):
        await asyncio.sleep(0)  # suspension point, lets the other sender run

    def close(self):
        pass

    async def wait_closed(self):
        pass


class Conn(AsyncFIXConnection):
    async def on_connect(self):
        pass

    async def on_message(self, msg):
        pass


def seq(frame: bytes) -> int:
    return int(frame.split(b"\x0134=")[1].split(b"\x01")[0])


async def main():
    j = Journaler()
    conn = Conn(FIXProtocol44(), "ME", "PEER", j, "h", 1)
    w = Writer()
    conn._socket_writer = w
    conn._socket_reader = object()
    conn._connection_role = ConnectionRole.INITIATOR
    conn._connection_state = ConnectionState.ACTIVE

    results = {}

    async def sender(name, msgs):
        for m in msgs:
            try:
                await conn.send_msg(m)
            except Exception as e:  # noqa
                results[name] = e

    good = [FIXMessage(FMsg.NEWORDERSINGLE, {11: f"a{i}"}) for i in range(2)]
    # MsgType which is a str, not empty, without SOH (passes every check made
    #  before allocation), but can't be written as utf-8
    bad = [FIXMessage(FMsg.NEWORDERSINGLE, {11: "b0"}), FIXMessage("\ud800", {11: "b1"})]
    await asyncio.gather(sender("A", good), sender("B", bad))

    sent = [seq(f) for f in w.wire]
    highest = max(sent)
    mem = conn._session.next_num_out
    print("numbers on the wire:", sent, "| exception of sender B:", repr(results.get("B")))
    print("in-memory next_num_out:", mem, "| journal:", j.sessions()[("PEER", "ME")].next_num_out)

    # a perfectly legal inbound message which makes the library store its counters
    codec = Codec(FIXProtocol44())
    ps = FIXSession(9, "ME", "PEER")
    ps.next_num_out = ps.next_num_in = 1
    gf = FIXMessage(FMsg.SEQUENCERESET, {FTag.MsgSeqNum: 1, FTag.GapFillFlag: "Y", FTag.NewSeqNo: 5})
    dec, _, raw = codec.decode(codec.encode(gf, ps).encode())
    await conn._process_message(dec, raw)
    stored = j.sessions()[("PEER", "ME")].next_num_out
    print("journal next outbound after inbound GapFill:", stored)

    problems = []
    if mem != highest + 1:
        problems.append(
            f"session.next_num_out={mem} but highest number sent={highest} (expected {highest + 1})"
        )
    if stored != highest + 1:
        problems.append(
            f"journal stores next outbound {stored}, highest number sent={highest}"
        )
    await conn.send_msg(FIXMessage(FMsg.NEWORDERSINGLE, {11: "a9"}))
    nxt = seq(w.wire[-1])
    if nxt != highest + 1:
        problems.append(f"next new message is sent with {nxt}: number {highest + 1} was consumed by the failed send")
    if problems:
        print("C14 VIOLATED:")
        for p in problems:
            print("  -", p)
        return 1
    print("ok: failed send did not consume a MsgSeqNum")
    return 0


if __name__ == "__main__":
    sys.exit(asyncio.run(main()))
