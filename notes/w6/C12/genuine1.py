"""C12 genuine violation 1: a Heartbeat with a WRONG TestReqID is accepted as the answer.

Run (unmodified tree):
    cd WT && PYTHONPATH=WT /venv/bin/python _mutant/genuine1.py
exit 1 = property violated, exit 0 = not reproduced.

The connection sends TestRequest(112=<id>); the peer answers with a Heartbeat whose
TestReqID is a different string ("+<id>", "0<id>", " <id>", "<id> ", "1_7...",
full-width digits).  Property: a Heartbeat echoing a wrong TestReqID ends the
session with a Logout.  Observed: TestRequest is taken as answered, session stays ACTIVE.
"""
import asyncio
import logging
import sys

from asyncfix import FIXMessage, FMsg, FTag
from asyncfix.codec import Codec
from asyncfix.connection import AsyncFIXConnection, ConnectionState
from asyncfix.journaler import Journaler
from asyncfix.protocol import FIXProtocol44

logging.disable(logging.CRITICAL)


class Writer:
    def __init__(self):
        self.frames = []

    def write(self, b):
        self.frames.append(b)

    async def drain(self):
        pass

    def close(self):
        pass

    async def wait_closed(self):
        pass


class Conn(AsyncFIXConnection):
    async def on_connect(self):
        pass

    async def on_message(self, msg):
        pass


def frame(seq, msg_type, fields: bytes) -> bytes:
    """Hand made frame of the peer (ACCEPTOR -> INITIATOR)."""
    body = (
        f"35={msg_type}\x0149=ACCEPTOR\x0156=INITIATOR\x0134={seq}\x01"
        f"52={Codec.current_datetime()}\x01"
    ).encode() + fields
    head = f"8=FIX.4.4\x019={len(body)}\x01".encode()
    return head + body + f"10={sum(head + body) % 256:03d}\x01".encode()


async def session():
    conn = Conn(FIXProtocol44(), "INITIATOR", "ACCEPTOR", Journaler(), "h", 1, 30)
    conn._connection_state = ConnectionState.NETWORK_CONN_ESTABLISHED
    conn._socket_reader = asyncio.StreamReader()
    conn._socket_writer = w = Writer()
    conn._aio_task_socket_read = asyncio.create_task(conn.socket_read_task())
    await conn.send_msg(FIXMessage(FMsg.LOGON, {FTag.EncryptMethod: 0, FTag.HeartBtInt: 30}))
    conn._socket_reader.feed_data(frame(1, "A", b"98=0\x01108=30\x01"))
    await asyncio.sleep(0.05)
    assert conn.connection_state == ConnectionState.ACTIVE
    return conn, w


async def main():
    bad = []
    spellings = {
        "plus sign": lambda i: "+" + i,
        "leading zero": lambda i: "0" + i,
        "leading blank": lambda i: " " + i,
        "trailing blank": lambda i: i + " ",
        "underscore": lambda i: i[0] + "_" + i[1:],
        "full-width digits": lambda i: "".join(chr(0xFF10 + int(c)) for c in i),
        "control: other number": lambda i: str(int(i) + 1),
        "control: text": lambda i: i + "x",
    }
    for name, fn in spellings.items():
        conn, w = await session()
        await conn.send_test_req()
        sent = Codec(FIXProtocol44()).decode(w.frames[-1])[0][FTag.TestReqID]
        wrong = fn(sent)
        assert wrong != sent
        n = len(w.frames)
        conn._socket_reader.feed_data(frame(2, "0", b"112=" + wrong.encode("utf-8") + b"\x01"))
        await asyncio.sleep(0.05)
        logout = any(b"\x0135=5\x01" in f for f in w.frames[n:])
        ended = conn.connection_state <= ConnectionState.DISCONNECTED_BROKEN_CONN
        ok = logout and ended
        print(
            f"{name:22s} sent 112={sent!r} answered 112={wrong!r}: "
            f"state={conn.connection_state.name} logout_sent={logout} "
            f"pending={conn._test_req_id}"
        )
        if not ok:
            bad.append(name)
        conn._aio_task_socket_read.cancel()
    if bad:
        print(
            "\nVIOLATION: Heartbeat with a wrong TestReqID was accepted as the answer "
            f"(no Logout, session ACTIVE, TestRequest cleared) for: {bad}"
        )
        return 1
    print("not reproduced")
    return 0


sys.exit(asyncio.run(main()))
