"""C12 genuine violation 2: a dead peer is never disconnected when the send path is congested.

Run (unmodified tree, uses real localhost sockets, takes ~15 s):
    cd WT && PYTHONPATH=WT /venv/bin/python _mutant/genuine2.py
exit 1 = property violated, exit 0 = not reproduced.

Peer: confirms the Logon, then goes dead (socket stays open, it neither reads nor
writes any more - what a hung counterparty / black-holed route looks like).
Application: keeps sending (market data style), its send_msg() blocks in drain()
as soon as the TCP buffers are full - normal asyncio back-pressure.
Property: the peer stays silent -> TestRequest after ~1 interval, disconnect within
about three intervals.
Observed: the watchdog task itself blocks for ever on the congested transport - in
send_test_req() -> drain(), or (when it gets that far) in disconnect() ->
wait_closed(), which waits for the unsent buffer to be flushed; state stays ACTIVE,
on_disconnect() is never called, the socket is not closed (control run without
application traffic: disconnect after ~3 intervals).
"""
import asyncio
import logging
import sys
import time

from asyncfix import FIXMessage, FMsg, FTag
from asyncfix.codec import Codec
from asyncfix.connection import ConnectionState
from asyncfix.connection_client import AsyncFIXClient
from asyncfix.journaler import Journaler
from asyncfix.protocol import FIXProtocol44
from asyncfix.session import FIXSession

HB = 1
WATCH = 10 * HB  # property promises ~3 intervals

logging.disable(logging.CRITICAL)


class App(AsyncFIXClient):
    disc = None

    async def on_connect(self):
        await self.send_msg(
            FIXMessage(FMsg.LOGON, {FTag.EncryptMethod: 0, FTag.HeartBtInt: HB})
        )

    async def on_message(self, msg):
        pass

    async def on_disconnect(self):
        self.disc = time.time()


async def dead_peer(reader, writer):
    codec = Codec(FIXProtocol44())
    sess = FIXSession(0, "INITIATOR", "ACCEPTOR")
    sess.next_num_out = 1
    await reader.read(4096)  # Logon of the initiator
    logon = FIXMessage(FMsg.LOGON, {FTag.EncryptMethod: 0, FTag.HeartBtInt: HB})
    writer.write(codec.encode(logon, sess).encode())
    await writer.drain()
    await asyncio.sleep(3600)  # dead from here on: no read, no write, no close


async def run(app_is_sending: bool):
    srv = await asyncio.start_server(dead_peer, "127.0.0.1", 0)
    port = srv.sockets[0].getsockname()[1]
    app = App(FIXProtocol44(), "INITIATOR", "ACCEPTOR", Journaler(), "127.0.0.1", port, HB)
    await app.connect()
    while app.connection_state != ConnectionState.ACTIVE:
        await asyncio.sleep(0.01)
    t0 = time.time()

    async def sender():
        try:
            while True:
                await app.send_msg(
                    FIXMessage(FMsg.NEWS, {FTag.Headline: "x", FTag.Text: "y" * 60000})
                )
        except Exception:
            pass

    task = asyncio.ensure_future(sender()) if app_is_sending else None
    while time.time() - t0 < WATCH and app.disc is None:
        await asyncio.sleep(0.1)
    after = None if app.disc is None else round(app.disc - t0, 1)
    print(
        f"application sending={app_is_sending}: state={app.connection_state.name} "
        f"disconnected after={after}s (HB={HB}s, watched {WATCH}s) "
        f"pending TestReqID={app._test_req_id}"
    )
    if after is None:
        where = [
            f"{f.f_code.co_name}:{f.f_lineno}" for f in app._aio_task_heartbeat.get_stack()
        ]
        print(f"   heartbeat_timer_task is suspended at: {where}")
    if task:
        task.cancel()
    app._aio_task_heartbeat.cancel()
    app._aio_task_socket_read.cancel()
    srv.close()
    return after


async def main():
    control = await run(False)
    congested = await run(True)
    if control is not None and congested is None:
        print(
            f"\nVIOLATION: silent peer was not disconnected within {WATCH} intervals "
            "(promised: about 3) - heartbeat_timer_task waits for the congested transport"
        )
        return 1
    print("not reproduced")
    return 0


sys.exit(asyncio.run(main()))
