"""C12 genuine violation 4: two TestRequests outstanding, then a correct peer is logged out.

Run (unmodified tree):
    cd WT && PYTHONPATH=WT /venv/bin/python _mutant/genuine4.py
exit 1 = property violated, exit 0 = not reproduced.

send_msg() refuses a hand made TestRequest ("You must send TestRequest via
send_test_req()") - but only while NO TestRequest is pending.  While the watchdog's
(or send_test_req()'s) TestRequest is unanswered the same call is accepted:
  step 1  TestRequest X of send_test_req() is pending
  step 2  send_msg(TestRequest 112=APP-1) is written too   -> two outstanding
  step 3  peer answers X; next TestRequest Y is sent (watchdog tick, HB=1)
  step 4  peer answers APP-1 (correct echo, in order)       -> taken as wrong answer
          to Y: Logout "Invalid TestRequest(TestReqID) received"
Property: at most one TestRequest is outstanding at a time; a peer that answers each
TestRequest with a Heartbeat echoing its TestReqID is never disconnected.
"""
import asyncio
import logging
import sys

from asyncfix import FIXMessage, FMsg, FTag
from asyncfix.codec import Codec
from asyncfix.connection import AsyncFIXConnection, ConnectionState
from asyncfix.errors import FIXConnectionError
from asyncfix.journaler import Journaler
from asyncfix.protocol import FIXProtocol44

logging.disable(logging.CRITICAL)


class Writer:
    def __init__(self):
        self.frames = []

    def write(self, b):
        self.frames.append(b)

    async def drain(self):
        pass

    def close(self):
        pass

    async def wait_closed(self):
        pass


class Conn(AsyncFIXConnection):
    async def on_connect(self):
        pass

    async def on_message(self, msg):
        pass


def frame(seq, msg_type, fields: bytes) -> bytes:
    body = (
        f"35={msg_type}\x0149=ACCEPTOR\x0156=INITIATOR\x0134={seq}\x01"
        f"52={Codec.current_datetime()}\x01"
    ).encode() + fields
    head = f"8=FIX.4.4\x019={len(body)}\x01".encode()
    return head + body + f"10={sum(head + body) % 256:03d}\x01".encode()


def test_req_ids(frames):
    out = []
    for f in frames:
        if b"\x0135=1\x01" in f:
            i = f.index(b"\x01112=") + 5
            out.append(f[i : f.index(b"\x01", i)])
    return out


async def main():
    conn = Conn(FIXProtocol44(), "INITIATOR", "ACCEPTOR", Journaler(), "h", 1, 1)
    conn._connection_state = ConnectionState.NETWORK_CONN_ESTABLISHED
    conn._socket_reader = asyncio.StreamReader()
    conn._socket_writer = w = Writer()
    conn._aio_task_socket_read = asyncio.create_task(conn.socket_read_task())
    await conn.send_msg(FIXMessage(FMsg.LOGON, {FTag.EncryptMethod: 0, FTag.HeartBtInt: 1}))
    conn._socket_reader.feed_data(frame(1, "A", b"98=0\x01108=1\x01"))
    await asyncio.sleep(0.05)
    assert conn.connection_state == ConnectionState.ACTIVE

    # control: nothing pending -> refused
    try:
        await conn.send_msg(FIXMessage(FMsg.TESTREQUEST, {FTag.TestReqID: "APP-0"}))
        print("control: hand made TestRequest accepted while nothing is pending (?)")
    except FIXConnectionError as e:
        print("control: refused while nothing is pending:", str(e)[:60], "...")

    await conn.send_test_req()  # step 1 (what the watchdog does)
    accepted = True
    try:  # step 2
        await conn.send_msg(FIXMessage(FMsg.TESTREQUEST, {FTag.TestReqID: "APP-1"}))
    except FIXConnectionError:
        accepted = False
    ids = test_req_ids(w.frames)
    print("TestRequests on the wire, none answered yet:", ids)
    two_outstanding = accepted and len(ids) == 2

    # step 3: peer answers the first one, watchdog (HB=1) sends the next one
    conn._socket_reader.feed_data(frame(2, "0", b"112=" + ids[0] + b"\x01"))
    await asyncio.sleep(0.05)
    await conn.send_test_req()
    # step 4: peer answers APP-1, correctly and in order
    n = len(w.frames)
    conn._socket_reader.feed_data(frame(3, "0", b"112=APP-1\x01"))
    await asyncio.sleep(0.05)
    logout = [f for f in w.frames[n:] if b"\x0135=5\x01" in f]
    print(
        f"after the peer echoed APP-1: state={conn.connection_state.name}, "
        f"Logout sent={bool(logout)}"
    )
    conn._aio_task_socket_read.cancel()
    if two_outstanding:
        print("\nVIOLATION: two TestRequests outstanding at the same time", end="")
        if logout:
            print(" and the peer that echoed every TestReqID was logged out", end="")
        print()
        return 1
    print("not reproduced")
    return 0


sys.exit(asyncio.run(main()))
