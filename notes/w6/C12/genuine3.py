"""C12 genuine violation 3: TestRequest is answered with a DIFFERENT TestReqID (single-byte text).

Run (unmodified tree):
    cd WT && PYTHONPATH=WT /venv/bin/python _mutant/genuine3.py
exit 1 = property violated, exit 0 = not reproduced.

Peer sends TestRequest whose TestReqID (FIX String: any character except SOH) holds
non ASCII single-byte characters, e.g. ISO-8859-1 b"PING-\xe9".  Property: every
inbound TestRequest is answered with a Heartbeat carrying the same TestReqID.
Observed: the Heartbeat carries other bytes (b"PING-\xc3\xa9"): a peer that compares
what it sent with what comes back sees a wrong TestReqID.
"""
import asyncio
import logging
import sys

from asyncfix import FIXMessage, FMsg, FTag
from asyncfix.codec import Codec
from asyncfix.connection import AsyncFIXConnection, ConnectionState
from asyncfix.journaler import Journaler
from asyncfix.protocol import FIXProtocol44

logging.disable(logging.CRITICAL)


class Writer:
    def __init__(self):
        self.frames = []

    def write(self, b):
        self.frames.append(b)

    async def drain(self):
        pass

    def close(self):
        pass

    async def wait_closed(self):
        pass


class Conn(AsyncFIXConnection):
    async def on_connect(self):
        pass

    async def on_message(self, msg):
        pass


def frame(seq, msg_type, fields: bytes) -> bytes:
    body = (
        f"35={msg_type}\x0149=ACCEPTOR\x0156=INITIATOR\x0134={seq}\x01"
        f"52={Codec.current_datetime()}\x01"
    ).encode() + fields
    head = f"8=FIX.4.4\x019={len(body)}\x01".encode()
    return head + body + f"10={sum(head + body) % 256:03d}\x01".encode()


async def main():
    bad = []
    for tid in [b"PING-1", "PING-é".encode("utf-8"), b"PING-\xe9", b"\xa7\xb1", b"ID\xc3"]:
        conn = Conn(FIXProtocol44(), "INITIATOR", "ACCEPTOR", Journaler(), "h", 1, 30)
        conn._connection_state = ConnectionState.NETWORK_CONN_ESTABLISHED
        conn._socket_reader = asyncio.StreamReader()
        conn._socket_writer = w = Writer()
        conn._aio_task_socket_read = asyncio.create_task(conn.socket_read_task())
        await conn.send_msg(
            FIXMessage(FMsg.LOGON, {FTag.EncryptMethod: 0, FTag.HeartBtInt: 30})
        )
        conn._socket_reader.feed_data(frame(1, "A", b"98=0\x01108=30\x01"))
        await asyncio.sleep(0.05)
        assert conn.connection_state == ConnectionState.ACTIVE
        n = len(w.frames)
        conn._socket_reader.feed_data(frame(2, "1", b"112=" + tid + b"\x01"))
        await asyncio.sleep(0.05)
        hb = [f for f in w.frames[n:] if b"\x0135=0\x01" in f]
        echoed = None
        if hb:
            i = hb[0].index(b"\x01112=") + 5
            echoed = hb[0][i : hb[0].index(b"\x01", i)]
        print(f"TestRequest 112={tid!r}  ->  Heartbeat 112={echoed!r}")
        if echoed != tid:
            bad.append(tid)
        conn._aio_task_socket_read.cancel()
    if bad:
        print(f"\nVIOLATION: TestReqID not echoed as received for {bad}")
        return 1
    print("not reproduced")
    return 0


sys.exit(asyncio.run(main()))
