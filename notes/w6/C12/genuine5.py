"""C12 genuine violation 5: heartbeat interval 0 - a responsive peer is disconnected at once.

Run (unmodified tree, real time, ~3 s):
    cd WT && PYTHONPATH=WT /venv/bin/python _mutant/genuine5.py
exit 1 = property violated, exit 0 = not reproduced.

heartbeat_period=0 is accepted by the constructor (HeartBtInt=0 is a legal FIX value:
"no heartbeats").  The peer answers every TestRequest immediately with the right
TestReqID.  Property: such a peer is never disconnected by the watchdog, for any
heartbeat interval.  Observed: in its first tick on the ACTIVE session the watchdog
writes a TestRequest and disconnects in the same iteration
("tm - int(time.time()) > 0"), the answer can't even be read.
"""
import asyncio
import logging
import sys
import time

from asyncfix import FIXMessage, FMsg, FTag
from asyncfix.codec import Codec
from asyncfix.connection import AsyncFIXConnection, ConnectionState
from asyncfix.journaler import Journaler
from asyncfix.protocol import FIXProtocol44

logging.disable(logging.CRITICAL)
HB = 0


class Conn(AsyncFIXConnection):
    disc = None
    was_active = False

    async def on_state_change(self, connection_state):
        if connection_state == ConnectionState.ACTIVE:
            self.was_active = True

    async def on_connect(self):
        pass

    async def on_message(self, msg):
        pass

    async def on_disconnect(self):
        self.disc = time.time()


def frame(seq, msg_type, fields: bytes) -> bytes:
    body = (
        f"35={msg_type}\x0149=ACCEPTOR\x0156=INITIATOR\x0134={seq}\x01"
        f"52={Codec.current_datetime()}\x01"
    ).encode() + fields
    head = f"8=FIX.4.4\x019={len(body)}\x01".encode()
    return head + body + f"10={sum(head + body) % 256:03d}\x01".encode()


class RespondingPeer:
    """Writer end of the connection: answers each TestRequest at once."""

    def __init__(self, conn):
        self.conn = conn
        self.seq = 1
        self.log = []

    def write(self, b):
        self.log.append((time.time(), b))
        if b"\x0135=1\x01" in b and self.conn._socket_reader is not None:
            i = b.index(b"\x01112=") + 5
            tid = b[i : b.index(b"\x01", i)]
            self.seq += 1
            self.conn._socket_reader.feed_data(
                frame(self.seq, "0", b"112=" + tid + b"\x01")
            )

    async def drain(self):
        pass

    def close(self):
        pass

    async def wait_closed(self):
        pass


async def main():
    conn = Conn(FIXProtocol44(), "INITIATOR", "ACCEPTOR", Journaler(), "h", 1, HB)
    conn._connection_state = ConnectionState.NETWORK_CONN_ESTABLISHED
    conn._socket_reader = reader = asyncio.StreamReader()
    conn._socket_writer = peer = RespondingPeer(conn)
    conn._aio_task_socket_read = asyncio.create_task(conn.socket_read_task())
    conn._aio_task_heartbeat = asyncio.create_task(conn.heartbeat_timer_task())
    await conn.send_msg(FIXMessage(FMsg.LOGON, {FTag.EncryptMethod: 0, FTag.HeartBtInt: HB}))
    reader.feed_data(frame(1, "A", b"98=0\x01108=0\x01"))
    t0 = time.time()
    await asyncio.sleep(0.05)
    assert conn.was_active
    while time.time() - t0 < 3 and conn.disc is None:
        await asyncio.sleep(0.02)
    for t, b in peer.log[1:]:
        print(f"  +{t - t0:5.2f}s connection wrote 35={b.split(b'35=')[1][:1].decode()}")
    conn._aio_task_socket_read.cancel()
    conn._aio_task_heartbeat.cancel()
    if conn.disc is not None:
        print(
            f"  +{conn.disc - t0:5.2f}s on_disconnect, state={conn.connection_state.name}\n\n"
            "VIOLATION: heartbeat_period=0, peer answered every TestRequest at once and was "
            "disconnected by the watchdog"
        )
        return 1
    print("not reproduced")
    return 0


sys.exit(asyncio.run(main()))
