"""C04 - inbound application messages are delivered in order, once, never past a gap.

Explorer A (history BFS) over one real endpoint and a scripted, possibly
misbehaving peer with correct CompIDs.  Oracle R2 judges every transition.
"""
from mc import bfs, refs
from mc.world import World1, num_in, journal_rows, conn_key

NUMS_Q = (1, 2, 3, 4, 5, 7)
NUMS_T = (1, 2, 3, 4, 5, 6, 7, 12)
POOL = [("SRV", "CLI"), ("ACC", "INI"), ("S1", "T1"), ("EXCH", "FIRM")]
CFG = {"nums": NUMS_Q, "S": "SRV", "T": "CLI"}

SESSION_TYPES = {"A", "0", "1", "2", "4", "5"}


def menu(nums):
    evs = []
    for n in nums:
        evs.append(("app", n, "N"))
    for n in nums:
        evs.append(("app", n, "X"))  # application message whose on_message callback raises
    for n in nums:
        evs.append(("app", n, "P"))  # counterparty renders MsgSeqNum with a fixed width (000007): a legal FIX int
    for n in nums:
        evs.append(("hb", n))
        evs.append(("tr", n))
        evs.append(("app", n, "Y"))
        evs.append(("rr", n))
    for n in nums:
        for new in (n + 1, n + 3, n, n - 1):
            if new >= 1:
                evs.append(("gf", n, new))
        for new in (n + 1, n + 3, 2):
            evs.append(("rs", n, new))
    for n in nums:
        evs.append(("logon2", n))  # a Logon inside the established session (numbered below / at / above expectation)
    for n in nums:
        # SequenceReset whose NewSeqNo is unusable (zero, not a number, missing): never honoured
        for bad in ("0", "abc", "none", str(2 ** 63 + 5)):
            evs.append(("rsbad", n, bad))
        evs.append(("gfbad", n, "abc"))
    # a SequenceReset whose OWN number does not fit any counter (reset mode ignores it, but must not adopt it)
    evs.append(("rsown", 2 ** 64, 9))
    # MsgSeqNum spelled with non-ASCII digits (int() reads them): not a FIX int
    for n in nums[:4]:
        evs.append(("app", n, "U"))
    # de-duplicate keeping order
    seen, out = set(), []
    for e in evs:
        if e not in seen:
            seen.add(e)
            out.append(e)
    return out


def frame_of(ev, S, T, uid):
    k = ev[0]
    n = ev[1]
    if k == "logon":
        return refs.frame("A", n, T, S, [(98, 0), (108, 100000)])
    if k == "app":
        extra = [(43, "Y"), (122, "20240101-00:00:00.000")] if ev[2] == "Y" else []
        cid = f"boom{uid}" if ev[2] == "X" else f"id{uid}"
        spell = ("%06d" % n) if ev[2] == "P" else n
        if ev[2] == "U":
            spell = "".join(chr(0x0660 + int(ch)) for ch in str(n)).encode("utf-8")  # ARABIC-INDIC digits
        return refs.frame("D", spell, T, S, [(11, cid), (55, "X")], extra_header=extra)
    if k == "logon2":
        return refs.frame("A", n, T, S, [(98, 0), (108, 100000)])
    if k == "hb":
        return refs.frame("0", n, T, S)
    if k == "tr":
        return refs.frame("1", n, T, S, [(112, "TR1")])
    if k == "rr":
        return refs.frame("2", n, T, S, [(7, 1), (16, 0)])
    if k == "gf":
        return refs.frame("4", n, T, S, [(123, "Y"), (36, ev[2])])
    if k in ("rs", "rsown"):
        return refs.frame("4", n, T, S, [(36, ev[2])])
    if k in ("rsbad", "gfbad"):
        body = [(123, "Y")] if k == "gfbad" else []
        if ev[2] != "none":
            body.append((36, ev[2]))
        return refs.frame("4", n, T, S, body)
    raise ValueError(ev)


def rel(n, E):
    return "below" if n < E else ("at" if n == E else ("one_above" if n == E + 1 else "far_above"))


class Sim:
    def __init__(self, root):
        _, role, variant, S, T = root
        self.root = root
        self.w = World1(role, S=S, T=T)
        self.w.c.raise_filter = lambda m: str(m.get(11, "")).startswith("boom")
        if variant == "hookfail":
            # failing application callback: on_state_change raises for the resend states
            self.w.c.raise_on_state = {"RESENDREQ_AWAITING", "RESENDREQ_HANDLING"}
        self.w.connect()
        self.outstanding = None  # (E0, n0) of the ResendRequest the endpoint has out
        self.last_delivered = 0
        self.uid = 0
        self.dead = False
        self.w.take()
        self.gap_seen = False

    @classmethod
    def build(cls, hist):
        s = cls(hist[0])
        first = ("logon", 3) if hist[0][2] == "logon_gap" else ("logon", 1)
        v = s.apply(first)
        assert v is None or True
        s.root_violation = v
        for ev in hist[1:]:
            s.apply(ev)
        return s

    def enabled(self):
        if self.dead or getattr(self, "root_violation", None):
            return []
        return menu(CFG["nums"])

    def nontrivial(self):
        return self.gap_seen

    def key(self):
        c = self.w.c
        rows = tuple((d, seq) for (_, d, seq, _m) in journal_rows(self.w.j))
        return (self.root[1], self.root[2] == "hookfail", conn_key(c), rows, self.outstanding, self.last_delivered, self.dead)

    def close(self):
        self.w.close()

    def apply(self, ev):
        w, c = self.w, self.w.c
        self.uid += 1
        E = num_in(c)
        st = c.connection_state.name
        nd = len(c.delivered)
        fr = frame_of(ev, w.S, w.T, self.uid)
        kind, n = ev[0], ev[1]
        w.feed(fr)
        if w.livelock:
            return self._v("livelock", f"{kind}:{rel(n, E)}:{st}", "processing one frame never goes quiescent", ev, {})
        E2 = num_in(c)
        new = c.delivered[nd:]
        written = []
        for b in w.take():
            f, err = refs.try_parse(b)
            written.append(refs.fdict(f) if f else {"35": "?"})
        rrs = [f for f in written if f.get("35") == "2"]
        st2 = c.connection_state.name
        self.dead = c.connection_state.value <= 3
        if n > E:
            self.gap_seen = True
        det = {"event": ev, "expected_before": E, "expected_after": E2, "state_before": st, "state_after": st2,
               "delivered": [(t, s) for (t, s, _) in new], "written": [(f.get("35"), f.get("34"), f.get("7")) for f in written],
               "outstanding": self.outstanding}
        ctxs = f"{rel(n, E)}:{st}"
        if kind == "app" and ev[2] == "U":
            if new or E2 != E:
                return self._v("delivered_not_expected" if new else "counter_moved", "app_non_ascii_msgseqnum", "the application callback receives a message only when its MsgSeqNum is exactly the next expected inbound number", ev, det)
            self.dead = c.connection_state.value <= 3
            return None
        # 1. delivery only at the expected number, only the frame itself, once
        for (t, s, _b) in new:
            if kind != "app" or int(s) != n or len(new) > 1:
                return self._v("delivered_foreign", f"{kind}:{ctxs}", "the application callback receives a message only when its MsgSeqNum is exactly the next expected inbound number", ev, det)
            if n != E:
                return self._v("delivered_not_expected", f"app_pd{ev[2]}:{ctxs}", "the application callback receives a message only when its MsgSeqNum is exactly the next expected inbound number", ev, det)
            if n <= self.last_delivered:
                return self._v("delivered_twice", f"app:{ctxs}", "nothing is delivered twice", ev, det)
            self.last_delivered = n
        # 2. the expected number changes only by one per accepted message or to NewSeqNo of an honoured forward reset
        if E2 != E:
            ok = False
            if E2 == E + 1 and n == E and kind not in ("gf", "rs"):
                ok = True
            if kind == "gf" and n == E and ev[2] > E and E2 == ev[2]:
                ok = True
            if kind in ("rs", "rsown") and ev[2] > E and E2 == ev[2]:
                ok = True
            if kind in ("rsbad", "gfbad"):
                return self._v("counter_moved", f"{kind}:unusable_newseqno", "the expected number changes only by one per accepted message or to the NewSeqNo of an honoured forward SequenceReset", ev, det)
            if not ok:
                if kind == "rsown":
                    return self._v("counter_moved", "rs:own_number_adopted", "the expected number changes only by one per accepted message or to the NewSeqNo of an honoured forward SequenceReset", ev, det)
                if kind in ("gf", "rs"):
                    how = "backward" if E2 < E else ("not_newseqno" if E2 != ev[2] else f"numbered_{rel(n, E)}")
                    cause = f"{kind}:{how}"
                else:
                    cause = f"{kind}:{ctxs}"
                return self._v("counter_moved", cause, "the expected number changes only by one per accepted message or to the NewSeqNo of an honoured forward SequenceReset (a GapFill only when its own number is the expected one)", ev, det)
        # 3. ResendRequest discipline
        if self.outstanding and E2 > self.outstanding[1]:
            pass
        if n > E and kind not in ("rs", "rsbad", "gfbad", "rsown") and not self.dead:
            out = self.outstanding
            if out is not None and E <= out[1]:
                # the gap is closed only when the message that revealed it has been processed as well: until
                # then the peer is still answering the first request (EndSeqNo=0), a second one duplicates it
                if rrs:
                    return self._v("resend_request_repeated", f"{kind}:{ctxs}", "no further ResendRequest until that gap is closed", ev, det)
            else:
                if len(rrs) != 1:
                    return self._v("resend_request_count", f"{kind}:{len(rrs)}:{ctxs}", "a message numbered above the expected one triggers exactly one ResendRequest", ev, det)
                if str(rrs[0].get("7")) != str(E):
                    return self._v("resend_request_begin", f"{kind}:{ctxs}", "the ResendRequest starts at the expected number", ev, det)
            if rrs and (out is None or E >= out[1]):
                self.outstanding = (E, n)
        elif n > E and rrs and not self.dead:
            # Reset-mode frame numbered above expectation: demand nothing, but remember a request that was sent
            if self.outstanding is None or E >= self.outstanding[1]:
                self.outstanding = (E, n)
        elif rrs and n <= E and kind not in ("rs", "rsbad", "gfbad", "rsown"):
            return self._v("resend_request_spurious", f"{kind}:{ctxs}", "a ResendRequest is triggered by a message numbered above the expected one", ev, det)
        if self.outstanding and E2 > self.outstanding[1]:
            self.outstanding = None
        if self.dead:
            self.outstanding = None
        return None

    def _v(self, what, cause, clause, ev, det):
        return {"signature": f"{what}|{cause}", "clause": clause, "detail": det}


def roots():
    rs = [(("root", role, var, CFG["S"], CFG["T"]),) for role in ("acceptor", "initiator") for var in ("clean", "logon_gap")]
    return rs + [(("root", "acceptor", "hookfail", CFG["S"], CFG["T"]),)]


def run(ctx):
    CFG["S"], CFG["T"] = POOL[ctx.seed % len(POOL)]
    CFG["nums"] = NUMS_Q if ctx.quick else NUMS_T
    depth = 3 if ctx.quick else 4
    ctx.rule = ("BFS over inbound histories: every sequence up to the depth bound of frames from a peer with correct "
                "CompIDs (application PossDup N/Y, Heartbeat, TestRequest, ResendRequest, GapFill, Reset; absolute "
                "numbers below/at/above expectation) after a clean Logon and after a Logon that revealed a gap, both "
                "roles; canonical key = connection+session attributes, journal row numbers, monitor state; "
                "non-trivial = history contains a frame numbered above the expected number")
    ctx.bounds = {"depth": depth, "numbers": list(CFG["nums"]), "menu": len(menu(CFG["nums"])), "roots": 5}
    # root violations (the Logon itself)
    for r in roots():
        s = Sim.build(r)
        if s.root_violation:
            v = dict(s.root_violation)
            v["replay"] = {"hist": list(r)}
            ctx.merge_violations([v])
        s.close()
    st = bfs.explore(ctx, Sim, roots(), depth, max_states=(40000 if ctx.quick else 400000), label="C04")
    ctx.bounds.update(st)
    ctx.outcomes.update(v["signature"].split("|")[0] for v in ctx.violations.values())
    ctx.outcomes.add("ok")
    ctx.assumptions += ["peer frames are built by the independent reference encoder with correct CompIDs",
                        "one frame per read; frames are processed to quiescence before the next arrives"]


def replay(ctx, rep):
    hist = [tuple(e) if isinstance(e, list) else e for e in rep["hist"]]
    hist[0] = tuple(hist[0])
    CFG["nums"] = NUMS_T
    s = Sim.build(tuple(hist[:1]))
    out = []
    try:
        if s.root_violation:
            return [s.root_violation]
        for ev in hist[1:]:
            v = s.apply(tuple(ev))
            if v:
                out.append(v)
                break
    finally:
        s.close()
    return out
