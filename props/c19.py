"""C19 - field value validation matches the FIX datatype lexical spaces.

Explorer C (bounded exhaustive inputs) over ``SchemaField.validate_value`` of the
REAL field objects that ``FIXSchema`` builds from tests/FIX44.xml and
tests/TT-FIX44.xml, judged by the three-valued reference R9 below
(M = member: must be accepted, N = non-member: must be rejected with
FIXMessageError, U = the property sentence does not decide: only totality,
i.e. "True or FIXMessageError", is demanded).

The reference is written from the property sentence / FIX 4.4 datatype
definitions with explicit ASCII character classes; it shares no code with
schema.py (no int(), float(), strptime or ``re`` in the oracle).
"""
import os
import warnings
import xml.etree.ElementTree as ET

from asyncfix.errors import FIXMessageError
from asyncfix.protocol.schema import FIXSchema, SchemaField

DICTS = ("FIX44.xml", "TT-FIX44.xml")

CLAUSE_MEMBER = ("value validation accepts exactly the strings in that datatype's lexical space "
                 "(a member of the lexical space / an enumerated value must be accepted)")
CLAUSE_NONMEMBER = ("value validation accepts exactly the strings in that datatype's lexical space "
                    "(a string outside the lexical space / not enumerated must be rejected)")
CLAUSE_ERROR = "Every rejection is reported as the library's message error"

# --------------------------------------------------------------------------
# R9: lexical spaces, three-valued
# --------------------------------------------------------------------------
DIG = "0123456789"
UPPER = "ABCDEFGHIJKLMNOPQRSTUVWXYZ"
SOH = "\x01"
ARABIC = {ord(str(i)): chr(0x0660 + i) for i in range(10)}  # Arabic-Indic digits

INT_TYPES = ("INT", "SEQNUM", "NUMINGROUP", "DAYOFMONTH", "LENGTH")
FLOAT_TYPES = ("FLOAT", "QTY", "PRICE", "PRICEOFFSET", "AMT", "PERCENTAGE")
TEXT_TYPES = ("STRING", "CHAR", "BOOLEAN", "DATA")
MULTI_TYPES = ("MULTIPLEVALUESTRING", "MULTIPLESTRINGVALUE")  # FIX 4.4 name, and TT's spelling of it
CODE_TYPES = ("COUNTRY", "CURRENCY", "EXCHANGE")
TEMPORAL_TYPES = ("UTCTIMESTAMP", "UTCTIMEONLY", "UTCDATEONLY", "LOCALMKTDATE", "MONTHYEAR")

FAMILY = {}
for _t in INT_TYPES:
    FAMILY[_t] = "int"
for _t in FLOAT_TYPES:
    FAMILY[_t] = "float"
for _t in TEXT_TYPES:
    FAMILY[_t] = "text"
for _t in MULTI_TYPES:
    FAMILY[_t] = "multivalue"
for _t in CODE_TYPES:
    FAMILY[_t] = "code"
for _t in TEMPORAL_TYPES:
    FAMILY[_t] = "temporal"


def _digits(s):
    if not s:
        return False
    for c in s:
        if c not in DIG:
            return False
    return True


def _ival(s):
    """value of a non-empty ASCII digit string (no int(): keep the oracle free of it)."""
    v = 0
    for c in s:
        v = v * 10 + (ord(c) - 48)
    return v


def _nonascii_digit(s):
    for c in s:
        if ord(c) > 127 and c.isdigit():
            return True
    return False


def _printable(s):
    for c in s:
        if not (0x20 <= ord(c) <= 0x7E):
            return False
    return True


def num_cause(s, isfloat):
    """Cause class of a string that is NOT a FIX number, from the input only."""
    if _nonascii_digit(s):
        return "non_ascii_digit"
    if any(c.isspace() for c in s):
        return "whitespace"
    if "_" in s:
        return "underscore"
    if ("e" in s or "E" in s) and any(c in DIG for c in s) and all(c in DIG + "+-.eE" for c in s):
        return "exponent"
    if "+" in s:
        return "plus_sign"
    if s.lstrip("+-").lower() in ("inf", "infinity", "nan"):
        return "nonfinite_word"
    if all(c in DIG + "-." for c in s):
        if "-" in s[1:]:
            return "misplaced_minus"
        if "." in s and not isfloat:
            return "decimal_point"
        if s.count(".") > 1:
            return "multiple_points"
        return "no_digits"
    return "other_char"


def ref_int(dtype, tag, s):
    neg = s[0] == "-"
    body = s[1:] if neg else s
    if not _digits(body):
        if dtype == "LENGTH":
            return "U", "length_unspecified"
        return "N", num_cause(s, False)
    v = _ival(body)
    lead0 = len(body) > 1 and body[0] == "0"
    if dtype == "LENGTH":
        if not neg and not lead0 and v > 0:
            return "M", "positive"
        return "U", "length_unspecified"
    if dtype == "INT":
        if lead0:
            return "U", "leading_zero"
        if neg and v == 0:
            return "U", "minus_zero"
        return "M", ("negative" if neg else ("zero" if v == 0 else "positive"))
    if dtype in ("SEQNUM", "NUMINGROUP"):
        if neg:
            return "N", "negative"
        if v == 0:
            if tag == "16":  # EndSeqNo: 0 means "infinity" (FIX 4.4 ResendRequest)
                return ("M", "endseqno_zero") if s == "0" else ("U", "endseqno_zero_variant")
            return "N", "zero"
        if lead0:
            return "U", "leading_zero"
        return "M", "positive"
    if dtype == "DAYOFMONTH":
        if neg or v < 1 or v > 31:
            return "N", "out_of_range"
        if lead0:
            return "U", "leading_zero"
        return "M", "in_range"
    raise AssertionError(dtype)


def ref_float(s):
    neg = s[0] == "-"
    body = s[1:] if neg else s
    if body.count(".") <= 1 and body.replace(".", "") != "" and _digits(body.replace(".", "")):
        ip, dot, fp = body.partition(".")
        if dot and (ip == "" or fp == ""):
            return "U", "bare_point"  # .5  5.  -.5
        if len(ip) > 1 and ip[0] == "0":
            return "U", "leading_zero"
        if len(ip) >= 309:
            return "U", "beyond_double_range"  # lexically fine, but the tests pin "not isfinite" rejections
        if neg and _ival(ip + fp) == 0:
            return "U", "minus_zero"
        if dot:
            return "M", ("negative_decimal" if neg else "decimal")
        return "M", ("negative_integer" if neg else "integer")
    return "N", num_cause(s, True)


def ref_text(dtype, s):
    if dtype == "DATA":
        return ("M", "raw") if all(ord(c) < 128 for c in s) else ("U", "non_ascii")
    if dtype == "BOOLEAN":
        if s in ("Y", "N"):
            return "M", "Y_or_N"
        if SOH in s:
            return "N", "soh_delimiter"
        if len(s) > 1:
            return "N", "too_long"
        if s in ("y", "n"):
            return "N", "lowercase"
        return "N", "other_char"
    if SOH in s:
        return "N", "soh_delimiter"
    if dtype == "CHAR":
        if len(s) != 1:
            return "N", "too_long"
        if s == "=":
            return "U", "equals_sign"
        if 0x21 <= ord(s) <= 0x7E:
            return "M", "one_char"
        return "U", "blank_control_or_non_ascii"
    # STRING
    if "=" in s:
        return "U", "equals_sign"  # FIX allows it, an existing test pins the rejection
    if not _printable(s):
        return "U", "control_or_non_ascii"
    if s[0] == " " or s[-1] == " ":
        return "U", "outer_blank"
    return "M", "printable"


def ref_multi(s):
    if SOH in s:
        return "N", "soh_delimiter"
    if "=" in s or not _printable(s):
        return "U", "equals_or_non_printable"
    toks = s.split(" ")
    if all(toks):
        return "M", "space_separated_tokens"
    return "U", "blank_layout"


def ref_code(dtype, s):
    n = {"COUNTRY": 2, "CURRENCY": 3, "EXCHANGE": 4}[dtype]
    if SOH in s:
        return "N", "soh_delimiter"
    if len(s) > n:
        return "N", "too_long"
    if dtype == "EXCHANGE":
        if all(c in UPPER + DIG for c in s):
            return "M", "code"
        return "U", "content"
    if len(s) == n and all(c in UPPER for c in s):
        return "M", "code"
    return "U", "short_or_content"


MDAYS = (0, 31, 28, 31, 30, 31, 30, 31, 31, 30, 31, 30, 31)


def _dim(y, m):
    if m == 2 and (y % 4 == 0 and (y % 100 != 0 or y % 400 == 0)):
        return 29
    return MDAYS[m]


def _fits(s, pat):
    """pat: 'd' = one ASCII digit, anything else = that literal character."""
    if len(s) != len(pat):
        return False
    for c, p in zip(s, pat):
        if p == "d":
            if c not in DIG:
                return False
        elif c != p:
            return False
    return True


def _layout_cause(s, seps):
    if _nonascii_digit(s):
        return "non_ascii_digit"
    if any(c.isspace() for c in s):
        return "whitespace"
    if s and all(c in DIG or c in seps for c in s):
        return "part_width"  # right characters, wrong field widths (unpadded / extra / missing digits)
    return "other_char"


def _date_ref(y, m, d):
    """-> (verdict, cls) for numeric year/month/day of a correctly laid out date."""
    if m < 1 or m > 12:
        return "N", "calendar_month"
    if d < 1 or d > _dim(y, m):
        return "N", "calendar_day"
    if y == 0:
        # FIX 4.4: YYYY = 0000-9999 (stated for every date type); only Feb 29 of year 0000 is left open
        return ("U", "year_0000_feb29") if (m == 2 and d == 29) else ("M", "year_0000")
    return "M", "date"


# days that really ended with 23:59:60 UTC (IERS Bulletin C, 1972-2016)
LEAP_SECOND_DATES = frozenset(
    [(y, 6, 30) for y in (1972, 1981, 1982, 1983, 1985, 1992, 1993, 1994, 1997, 2012, 2015)]
    + [(y, 12, 31) for y in (1972, 1973, 1974, 1975, 1976, 1977, 1978, 1979, 1987, 1989, 1990, 1995, 1998, 2005,
                             2008, 2016)])


def _time_ref(h, mi, sec, date=None):
    """date: None for UTCTimeOnly, (y, m, d) for UTCTimestamp."""
    if h > 23:
        return "N", "calendar_hour"
    if mi > 59:
        return "N", "calendar_minute"
    if sec > 60:
        return "N", "calendar_second"
    if sec == 60:
        # FIX 4.4: SS = 00-60 (60 only if UTC leap second)
        if h == 23 and mi == 59 and (date is None or date in LEAP_SECOND_DATES):
            return "M", "leap_second"
        return "U", "second_60_not_a_leap_second"
    return "M", "time"


def _worst(*vs):
    """combine part verdicts: any N -> first N, else any U -> first U, else M."""
    for v in vs:
        if v[0] == "N":
            return v
    for v in vs:
        if v[0] == "U":
            return v
    return vs[0]


def ref_temporal(dtype, s):
    if dtype in ("UTCDATEONLY", "LOCALMKTDATE"):
        if not _fits(s, "dddddddd"):
            return "N", _layout_cause(s, "")
        return _date_ref(_ival(s[0:4]), _ival(s[4:6]), _ival(s[6:8]))
    if dtype == "MONTHYEAR":
        if _fits(s, "dddddd"):
            return _date_ref(_ival(s[0:4]), _ival(s[4:6]), 1)
        if _fits(s, "dddddddd"):
            y, m, d = _ival(s[0:4]), _ival(s[4:6]), _ival(s[6:8])
            if m < 1 or m > 12:
                return "N", "calendar_month"
            if d < 1 or d > 31:
                return "N", "calendar_day"
            if d > _dim(y, m):
                return "U", "day_beyond_month_length"  # FIX: DD = 01-31
            return _date_ref(y, m, d)
        if _fits(s, "ddddddwd"):
            base = _date_ref(_ival(s[0:4]), _ival(s[4:6]), 1)
            if base[0] == "N":
                return base
            if s[7] not in "12345":
                return "N", "week_code"
            if base[0] == "U" or base[1] == "year_0000":
                return base
            return "M", "week"
        return "N", _layout_cause(s, "w")
    # types with a time part and an optional fraction
    if dtype == "UTCTIMEONLY":
        pat, seps = "dd:dd:dd", ":."
    else:
        pat, seps = "dddddddd-dd:dd:dd", "-:."
    base, dot, frac = s.partition(".")
    if not _fits(base, pat):
        return "N", _layout_cause(s, seps)
    if dot:
        if frac == "":
            return "N", "dangling_point"
        if not _digits(frac):
            return "N", _layout_cause(s, seps)
    t = base[-8:]
    if dtype == "UTCTIMESTAMP":
        ymd = (_ival(base[0:4]), _ival(base[4:6]), _ival(base[6:8]))
        dv = _date_ref(*ymd)
        tv = _time_ref(_ival(t[0:2]), _ival(t[3:5]), _ival(t[6:8]), ymd)
        v = _worst(dv, tv)
        special = [x[1] for x in (dv, tv) if x[1] in ("year_0000", "leap_second")]
    else:
        v = _time_ref(_ival(t[0:2]), _ival(t[3:5]), _ival(t[6:8]))
        special = [v[1]] if v[1] == "leap_second" else []
    if v[0] == "N":
        return v
    if dot and len(frac) != 3:
        # FIX 4.4 knows whole seconds or exactly .sss; 6 digits is its own class because
        # test_field_type_validation__utctimestamp/__utctimeonly assert that ".123456" is accepted
        return "N", ("fraction_6_digits" if len(frac) == 6 else "fraction_width")
    if v[0] == "U":
        return v
    if special:
        return "M", special[0]
    return "M", ("time_millis" if dot else "time_seconds")


def ref_type(dtype, tag, s):
    """R9 for a field WITHOUT enumerated values. -> (verdict, class)."""
    if s == "":
        return "N", "empty"
    fam = FAMILY.get(dtype)
    if fam == "int":
        return ref_int(dtype, tag, s)
    if fam == "float":
        return ref_float(s)
    if fam == "text":
        return ref_text(dtype, s)
    if fam == "multivalue":
        return ref_multi(s)
    if fam == "code":
        return ref_code(dtype, s)
    if fam == "temporal":
        return ref_temporal(dtype, s)
    return "U", "datatype_not_in_fix44_table"


def ref_enum(dtype, enums, s):
    """R9 for a field WITH enumerated values (enums: set read from the XML by this module)."""
    if s == "":
        return "N", "empty"
    if s in enums:
        return "M", "enumerator"
    if dtype in MULTI_TYPES and " " in s:
        return "U", "multivalue_blank"  # FIX: space separated list; the sentence says "exactly the enumerated values"
    neg = s[0] == "-"
    body = s[1:] if neg else s
    if _digits(body) and len(body) > 1 and body[0] == "0":
        core = body.lstrip("0") or "0"
        if ("-" + core if neg else core) in enums:
            return "U", "leading_zero_of_enumerator"
    if s.swapcase() in enums or s.lower() in enums or s.upper() in enums:
        return "N", "case_flip"
    for e in enums:
        if len(e) > len(s) and e.startswith(s):
            return "N", "prefix_of_enumerator"
    for e in enums:
        if len(s) > len(e) and (s.startswith(e) or s.endswith(e)):
            return "N", "enumerator_plus_affix"
    return "N", "not_enumerated"


# --------------------------------------------------------------------------
# enumeration (simplest first)
# --------------------------------------------------------------------------
NUM_ALPHA = ["1", "0", "5", "2", "3", "9", "-", ".", "+", "_", " ", "e", "٣", "a"]
TEXT_ALPHA = ["A", "a", "1", "Y", "N", " ", "=", SOH, "@", "_", "y", "é", "٣"]
TEMP_ALPHA = ["0", "1", "2", "9", "-", ":", ".", "w", " ", "٣", "a", "+", "_", "W"]


def short_strings(alpha, maxlen):
    yield ""
    layer = [""]
    for _ in range(maxlen):
        nxt = []
        for p in layer:
            for a in alpha:
                nxt.append(p + a)
        for x in nxt:
            yield x
        layer = nxt


def single_edits(ex, alpha):
    n = len(ex)
    for i in range(n):
        yield ex[:i] + ex[i + 1:]
    for i in range(n):
        for a in alpha:
            if a != ex[i]:
                yield ex[:i] + a + ex[i + 1:]
    for i in range(n + 1):
        for a in alpha:
            yield ex[:i] + a + ex[i:]


def double_subst(ex, alpha):
    n = len(ex)
    for i in range(n):
        for a in alpha:
            if a == ex[i]:
                continue
            e1 = ex[:i] + a + ex[i + 1:]
            for j in range(i + 1, n):
                for b in alpha:
                    if b != ex[j]:
                        yield e1[:j] + b + e1[j + 1:]


def adjacent_double_subst(ex, alpha):
    """every pair of ADJACENT positions (so also the first two and the last two) replaced by every
    two-character string over alpha."""
    n = len(ex)
    for i in range(n - 1):
        for a in alpha:
            for b in alpha:
                if a != ex[i] or b != ex[i + 1]:
                    yield ex[:i] + a + b + ex[i + 2:]


AFFIX_ALPHA = ["w", "W", "0", "1", "5", "6", " ", "d"]


def affixes(ex, alpha, maxlen):
    """ex followed by / preceded by every 1..maxlen character string over alpha; and the same in place of
    the last / first k characters."""
    tails = [t for t in short_strings(alpha, maxlen) if t]
    for t in tails:
        yield ex + t
    for t in tails:
        yield t + ex
    for t in tails:
        if len(t) < len(ex):
            yield ex[:-len(t)] + t
            yield t + ex[len(t):]


def number_variants(quick):
    ints = list(range(0, 41)) + [59, 60, 99, 100, 127, 128, 255, 256, 999, 1000, 32767, 65535,
                                 2 ** 31 - 1, 2 ** 31, 2 ** 63, 10 ** 20]
    for v in ints:
        for sg in ("", "-"):
            b = sg + str(v)
            yield b
            yield sg + "0" + str(v)
            yield sg + "00" + str(v)
            yield "+" + str(v)
            yield " " + b
            yield b + " "
            yield "\t" + b
            yield b + "\n"
            yield b + ".0"
            yield b + "."
            yield b + "e0"
            yield b + "E1"
            yield b.translate(ARABIC)
            if len(str(v)) >= 2:
                yield sg + str(v)[0] + "_" + str(v)[1:]
            yield b + "_"
            yield "_" + b
            yield b + "L"
            yield b + "f"
            yield "0x" + str(v)
            yield "--" + str(v)
            yield str(v) + "-"
    # very long literals: the lexical space states no length limit (kept below Python's 4300-digit int limit)
    for n in (40, 308, 309, 310, 400, 3999):
        for body in ("1" * n, "9" * n, "1" + "0" * (n - 1)):
            for sg in ("", "-"):
                yield sg + body
                yield sg + body + ".5"
                yield sg + body + ".0"
        for sg in ("", "-"):
            yield sg + "0." + "1" * n
            yield sg + "1." + "0" * n
            yield sg + "1" * n + "." + "9" * n
    for b in ("0.0", "1.5", "10.25", "1.1231", "1.12310923810281", "123456789.123456789", "0.000001",
              "1.10", "00.5", "0.50", "000", "0.0.0", "1..5", "1.5.", ".5.", "1,5", "1 000", "1__0"):
        for sg in ("", "-", "+"):
            yield sg + b
        yield " " + b
        yield b + " "
        yield b + "e5"
        yield b + "E-5"
        yield b + "e+5"
        yield b.translate(ARABIC)
        yield b.replace(".", "_")
    for w in ("inf", "Inf", "INF", "infinity", "Infinity", "nan", "NaN", "NAN", "1e999", "1e-999", "1e5", "1E5",
              "1e-5", "1.5e3", "1e+5", "e5", "1e", "0x10", "0b1", "0o7", "1j", "1d", "1/2", "1%", "$1", "(1)",
              "½", "²", "１", "١٢", "1\x00", "\x001", "1\x01", "1=1", "-", "+", ".", "-.", "+.",
              "--1", "-+1", "+-1", "- 1", "1 1", "−1", "None", "True"):
        yield w
        yield "-" + w
        yield "+" + w


def text_variants():
    for w in ("Y", "N", "y", "n", "YES", "NO", "Yes", "true", "T", "F", "0", "1", "YN", "Y ", " Y", "Y\n",
              "A", "z", "!", "~", "AB", "ABC", "USD", "usd", "Usd", "US", "us", "U", "USA", "USDX", "EUR", "EU@",
              "U_D", "U D", "U$", "N", "NQ", "NYSE", "nyse", "NYSEX", "XNYS", "XNYS1", "N1", "1234", "12345",
              "Hey this is alphanum string ! Also, some @tags, #test", "as some tag=values", "a" + SOH + "s",
              SOH, "a" + SOH, SOH + "a", "Y AS NA za", "N N 2 1 n", "a  b", " a", "a ", "a b", "1 2 3",
              "é", "éé", "ÜS", "٣", "x" * 64, "202309" + SOH, "\x00", "\x7f", "\t", "\n"):
        yield w


DATE_EX = ["20230921", "20240229", "20001231", "19990101"]
TIME_EX = ["14:05:09", "14:05:09.123", "00:00:00", "23:59:59.999"]
TS_EX = ["20230921-14:05:09", "20230921-14:05:09.123", "20240229-00:00:00", "19991231-23:59:59.999"]
MY_EX = ["202309", "20230921", "202309w1", "202312w5"]

YEARS = ["2023", "2024", "2000", "1900", "2100", "0001", "9999", "0000"]
FRACS = ["", ".", ".1", ".12", ".123", ".1234", ".123456", ".1234567", ".123456789", ".12a", ".١٢٣"]


def _two(n):
    return ("0" + str(n)) if n < 10 else str(n)


def date_calendar(quick):
    years = YEARS[:5] if quick else YEARS
    for y in YEARS:
        for m in range(0, 14):
            for d in range(0, 33):
                if y in years or d in (0, 1, 28, 29, 30, 31, 32):
                    yield y + _two(m) + _two(d)
    for y in YEARS[:2]:
        for m in range(1, 13):
            for d in range(1, 32):
                if m < 10:
                    yield y + str(m) + _two(d)
                    yield y + " " + str(m) + _two(d)
                if d < 10:
                    yield y + _two(m) + str(d)
                    yield y + _two(m) + " " + str(d)
                if m < 10 and d < 10:
                    yield y + str(m) + str(d)
    for y in ("999", "23", "02023", "12023", "-2023", "+2023"):
        yield y + "0921"


def time_calendar(quick):
    if quick:
        hs = [0, 1, 9, 10, 12, 19, 20, 23, 24, 25, 29, 30, 99]
        ms = [0, 1, 9, 10, 30, 59, 60, 61, 69, 99]
        ss = [0, 1, 9, 10, 30, 59, 60, 61, 62, 99]
    else:
        hs = list(range(0, 31)) + [99]
        ms = list(range(0, 63)) + [69, 99]
        ss = list(range(0, 64)) + [69, 99]
    for h in hs:
        for m in ms:
            for s in ss:
                yield _two(h) + ":" + _two(m) + ":" + _two(s)
    for h in (0, 9, 23, 24):
        for m in (0, 59, 60):
            for s in (0, 59, 60, 61):
                b = _two(h) + ":" + _two(m) + ":" + _two(s)
                for f in FRACS:
                    if f:
                        yield b + f
    for h in (0, 4, 9, 14):
        for m in (0, 5, 59):
            for s in (0, 9, 59):
                if h < 10:
                    yield str(h) + ":" + _two(m) + ":" + _two(s)
                    yield " " + str(h) + ":" + _two(m) + ":" + _two(s)
                if m < 10:
                    yield _two(h) + ":" + str(m) + ":" + _two(s)
                if s < 10:
                    yield _two(h) + ":" + _two(m) + ":" + str(s)
                    yield _two(h) + ":" + _two(m) + ":" + str(s) + ".123"
                yield _two(h) + ":" + _two(m)
                yield _two(h) + _two(m) + _two(s)
                yield _two(h) + ":" + _two(m) + ":" + _two(s) + "Z"
                yield _two(h) + "." + _two(m) + "." + _two(s)
                yield _two(h) + "-" + _two(m) + "-" + _two(s)


def ts_calendar(quick):
    dates = ["20230921", "20161231", "19720630", "20231231", "20240229", "20230229", "19000229", "20000229", "20231301", "20230001", "20230932",
             "20230900", "20230431", "00010101", "99991231", "00000101", "2023921", "202391", "2023 921",
             "202309 1", "230921", "2023-09-21", "2023/09/21"]
    times = []
    for h in (0, 23, 24):
        for m in (0, 59, 60):
            for s in (0, 59, 60, 61):
                times.append(_two(h) + ":" + _two(m) + ":" + _two(s))
    times += ["4:05:09", "14:5:09", "14:05:9", " 4:05:09", "14:05", "140509", "14:05:09Z", "14:05:09+00"]
    for d in dates:
        for t in times:
            for f in (FRACS if not quick else FRACS[:8]):
                yield d + "-" + t + f
    for d in dates[:3]:
        t = "14:05:09"
        for sep in ("", " ", "T", "_", ":", "--", "−"):
            yield d + sep + t
        yield d
        yield t
        yield d + "-"
        yield "-" + t
    if not quick:
        for d in date_calendar(True):
            yield d + "-14:05:09"
        for t in time_calendar(True):
            yield "20230921-" + t


def my_calendar(quick):
    for d in date_calendar(quick):
        yield d
    for y in YEARS:
        for m in range(0, 14):
            yield y + _two(m)
            if m < 10:
                yield y + str(m)
            for w in ("w0", "w1", "w2", "w3", "w4", "w5", "w6", "w9", "W1", "w", "ww", "w01", "w1 ", " w1", "1w",
                      "w١", "wa", "-w1"):
                yield y + _two(m) + w
                if m < 10:
                    yield y + str(m) + w
    for x in ("w1", "w", "09w1", "2309w1", "2023w1", "20230921w1", "202309w1w1", "2023w109"):
        yield x


def gen_for_type(dtype, quick):
    """All input strings for a non-enumerated field of this datatype, simplest first."""
    fam = FAMILY.get(dtype)
    n = 3 if quick else 4  # temporal (every string that short is a non-member)
    nn = n + 1             # number and text families: one longer than the design asked for (cheap)
    if fam in ("int", "float"):
        yield from short_strings(NUM_ALPHA, nn)
        yield from number_variants(quick)
        yield from text_variants()
    elif fam in ("text", "multivalue", "code"):
        yield from short_strings(TEXT_ALPHA, nn)
        yield from text_variants()
        for ex in ("USD", "US", "NYSE", "Y", "A"):
            yield from single_edits(ex, TEXT_ALPHA)
    elif fam == "temporal":
        yield from short_strings(TEMP_ALPHA, n)
        exs = {"UTCTIMESTAMP": TS_EX, "UTCTIMEONLY": TIME_EX, "MONTHYEAR": MY_EX}.get(dtype, DATE_EX)
        for ex in exs:
            yield ex
        for ex in exs:
            yield from single_edits(ex, TEMP_ALPHA + ["3", "5", "6"])
        full = TEMP_ALPHA + ["3", "5", "6"]
        for ex in exs:
            yield from affixes(ex, AFFIX_ALPHA, 3)
        for ex in exs:
            yield from adjacent_double_subst(ex, full)
        if dtype == "UTCTIMESTAMP":
            yield from ts_calendar(quick)
        elif dtype == "UTCTIMEONLY":
            yield from time_calendar(quick)
        elif dtype == "MONTHYEAR":
            yield from my_calendar(quick)
        else:
            yield from date_calendar(quick)
        # the other temporal layouts are near-misses of this one
        for other in (DATE_EX, TIME_EX, TS_EX, MY_EX):
            for ex in other:
                yield ex
        if not quick:
            for ex in exs[:2]:
                yield from double_subst(ex, TEMP_ALPHA[:10] + ["3", "6"])
        yield from text_variants()
    else:
        yield from short_strings(TEXT_ALPHA, 2)
        yield from text_variants()


ASCII_PRINT = [chr(c) for c in range(0x20, 0x7F)]


def gen_for_enum(enums_list, quick):
    yield ""
    for e in enums_list:
        yield e
    for c in ASCII_PRINT:
        yield c
    for e in enums_list:
        yield e.swapcase()
        yield e.lower()
        yield e.upper()
        yield e.capitalize()
        yield e[:-1]
        yield e[1:]
        yield e + "0"
        yield e + " "
        yield " " + e
        yield e + "\n"
        yield e + e[-1]
        yield e + e
        yield "0" + e
        yield "00" + e
        yield "+" + e
        yield "-" + e
        yield e + ".0"
        yield e + "_"
        yield e + SOH
        yield e + "=" + e
        yield e.translate(ARABIC)
        for k in (0, len(e) - 1):
            for dlt in (-1, 1):
                o = ord(e[k]) + dlt
                if 0x20 <= o <= 0x7E:
                    yield e[:k] + chr(o) + e[k + 1:]
        if _digits(e):
            yield str(_ival(e) + 1)
            if _ival(e) > 0:
                yield str(_ival(e) - 1)
    for a in enums_list[:6]:
        for b in enums_list[:6]:
            yield a + " " + b
            yield a + "  " + b
            yield a + "," + b
            yield a + b
    if not quick:
        for c in ASCII_PRINT:
            for d in ASCII_PRINT:
                yield c + d


PROBES = ["1", "0", "-1", "12", "31", "32", "007", "+1", " 1", "1 ", "1_0", "٣", "1.5", "-1.5", "1e5", ".5",
          "inf", "nan", "A", "a", "Y", "N", "y", "AB", "US", "USD", "USDX", "NYSE", "NYSEX", "a b", "a=b",
          "a" + SOH + "b", "20230921", "2023921", "20230231", "202309", "202309w1", "202309w6",
          "20230921-14:05:09", "20230921-14:05:09.123", "20230921-4:05:09", "20230921-14:05:60", "14:05:09",
          "14:05:09.123", "14:5:09", "24:00:00", ""]

# --------------------------------------------------------------------------
# dictionaries (independent XML reading) and real field objects
# --------------------------------------------------------------------------
XMLF = {}     # dict name -> list of (tag, name, type_upper, [enumerators])
SCHEMAS = {}  # dict name -> FIXSchema (real)


def load(repo):
    for d in DICTS:
        path = os.path.join(repo, "tests", d)
        root = ET.parse(path).getroot()
        out = []
        for f in root.find("fields"):
            out.append((f.attrib["number"], f.attrib["name"], f.attrib["type"].upper(),
                        [v.attrib["enum"] for v in f]))
        out.sort(key=lambda x: (int(x[0]), x[1]))
        XMLF[d] = out
        SCHEMAS[d] = FIXSchema(path)


def get_field(d, tag, synthetic):
    if synthetic:
        # the same constructor call FIXSchema._parse_field makes for a dictionary row without <value> children
        return SchemaField(tag=tag, name="VerifSynthetic", ftype=synthetic)
    return SCHEMAS[d][tag]


def observe(field, s):
    try:
        r = field.validate_value(s)
    except FIXMessageError:
        return "REJ"
    except Exception as e:  # noqa
        return "EXC:" + type(e).__name__
    return "ACC" if r is True else "RET:" + repr(r)[:30]


def judge(verdict, cls, obs, fam):
    """-> None or (signature, clause, expected)."""
    if obs == "ACC":
        if verdict == "N":
            return f"nonmember_accepted|{fam}:{cls}", CLAUSE_NONMEMBER, "FIXMessageError"
        return None
    if obs == "REJ":
        if verdict == "M":
            return f"member_rejected|{fam}:{cls}", CLAUSE_MEMBER, "True"
        return None
    if obs.startswith("EXC:"):
        if cls == "empty":
            return "reject_error_type|empty_value", CLAUSE_ERROR, "FIXMessageError"
        if verdict == "M":
            return f"member_raises|{fam}:{cls}", CLAUSE_MEMBER, "True"
        return f"reject_error_type|{fam}:{cls}", CLAUSE_ERROR, "True or FIXMessageError" if verdict == "U" else "FIXMessageError"
    return f"bad_return|{fam}", CLAUSE_MEMBER, "True or FIXMessageError"


def run_one(d, tag, synthetic, dtype, enums, s):
    """One real call + judgement. -> (verdict, cls, obs, violation dict or None)."""
    field = get_field(d, tag, synthetic)
    if enums:
        verdict, cls = ref_enum(dtype, enums, s)
        fam = "enum"
    else:
        verdict, cls = ref_type(dtype, tag, s)
        fam = FAMILY.get(dtype, "unknown")
    obs = observe(field, s)
    j = judge(verdict, cls, obs, fam)
    if j is None:
        return verdict, cls, obs, None
    sig, clause, expected = j
    return verdict, cls, obs, {
        "signature": sig,
        "clause": clause,
        "detail": {"dictionary": d, "field": str(field), "tag": tag, "datatype": dtype,
                   "synthetic_field": bool(synthetic), "enumerated": bool(enums), "value": s,
                   "reference": {"M": "member", "N": "non-member", "U": "unspecified"}[verdict] + ":" + cls,
                   "observed": obs, "expected": expected},
        "replay": {"dict": d, "tag": tag, "synthetic": synthetic, "value": s},
    }


QUICK = True


def _work(item):
    kind, d, targets = item
    res = {"states": 0, "calls": 0, "nontrivial": 0, "viol": {}, "outcomes": set(), "by_type": {}}
    for (tag, synthetic, dtype, enums_list) in targets:
        enums = set(enums_list)
        if kind == "type":
            gen = gen_for_type(dtype, QUICK)
        elif kind == "enum":
            gen = gen_for_enum(enums_list, QUICK)
        else:
            gen = PROBES
        seen = set()
        for idx, s in enumerate(gen):
            if s in seen:
                continue
            seen.add(s)
            verdict, cls, obs, v = run_one(d, tag, synthetic, dtype, enums, s)
            res["calls"] += 1
            if verdict != "U":
                res["nontrivial"] += 1
            res["outcomes"].add((("enum" if enums else FAMILY.get(dtype, "unknown")), verdict, obs))
            if v is not None:
                sig = v["signature"]
                cur = res["viol"].get(sig)
                if cur is None:
                    v["count"] = 1
                    v["_key"] = (len(s), res["calls"])
                    res["viol"][sig] = v
                elif len(s) < cur["_key"][0]:  # keep the shortest input per signature
                    v["count"] = cur["count"] + 1
                    v["_key"] = (len(s), res["calls"])
                    res["viol"][sig] = v
                else:
                    cur["count"] += 1
                k = (dtype if not enums else "enum:" + dtype, sig)
                res["by_type"][k] = res["by_type"].get(k, 0) + 1
        res["states"] += len(seen)
    res["viol"] = list(res["viol"].values())
    return res


FIX44_TYPES = set(FAMILY)


def build_items(seed):
    """-> list of work items; the seed only rotates which non-enumerated field represents a datatype."""
    items = []
    reps = []
    for d in DICTS:
        by_type = {}
        for (tag, name, t, enums) in XMLF[d]:
            by_type.setdefault(t, []).append((tag, enums))
        for t in sorted(by_type):
            pool = [tag for (tag, enums) in by_type[t] if not enums and tag != "16"]
            if pool:
                tag = pool[seed % len(pool)]
                items.append(("type", d, [(tag, None, t, [])]))
                reps.append((d, t, tag, "real"))
            else:
                items.append(("type", d, [("9999", t, t, [])]))
                reps.append((d, t, "9999", "synthetic (every field of this type in the dictionary is enumerated)"))
            if t == "SEQNUM":
                items.append(("type", d, [("16", None, t, [])]))
                reps.append((d, t, "16", "real EndSeqNo"))
        en = [(tag, None, t, enums) for (tag, name, t, enums) in XMLF[d] if enums]
        for i in range(0, len(en), 8):
            items.append(("enum", d, en[i:i + 8]))
        ne = [(tag, None, t, []) for (tag, name, t, enums) in XMLF[d] if not enums]
        for i in range(0, len(ne), 64):
            items.append(("sweep", d, ne[i:i + 64]))
    return items, reps


def run(ctx):
    global QUICK
    QUICK = ctx.quick
    load(ctx.repo)
    items, reps = build_items(ctx.seed)
    n = 3 if ctx.quick else 4
    ctx.rule = ("for every datatype of each dictionary one real non-enumerated field (seed rotates which; EndSeqNo "
                "extra; a synthetic field only where every field of the type is enumerated): all strings of length "
                f"<= {n + 1} (number, text, code types) / <= {n} (temporal types) over a 13-14 character type-specific alphabet, single edits (thorough: double substitutions) "
                "of fixed-layout exemplars, all 2-character substitutions of every adjacent position pair (17-character alphabet) "
                "and all 1-3 character prefixes/suffixes/end replacements over {w,W,0,1,5,6,blank,d} of each exemplar, "
                "calendar products, number/text boundary lists; every enumerated field: all "
                "enumerators, all printable 1-char strings (thorough: 2-char) and derived near-misses; every other "
                "field of both dictionaries: a 47-string probe list. Each input = one real validate_value call judged "
                "by R9. non-trivial = input on which R9 decides (member or non-member), i.e. not 'unspecified'")
    unknown = sorted({t for d in DICTS for (_, _, t, _) in XMLF[d]} - FIX44_TYPES)
    if unknown:
        ctx.notes.append(f"dictionary datatypes outside the FIX 4.4 table of this check (all unconstrained): {unknown}")
    # one item per target (chunk=1); violations are re-sorted shortest-input-first below
    res = ctx.pmap(_work, items, chunk=1)
    viols = []
    by_type = {}
    for r in res:
        ctx.count(states=r["states"], transitions=r["calls"], traces=r["calls"], evaluations=r["calls"],
                  nontrivial=r["nontrivial"])
        ctx.outcomes.update(r["outcomes"])
        viols.extend(r["viol"])
        for k, c in r["by_type"].items():
            by_type[k] = by_type.get(k, 0) + c
    order = {id(v): i for i, v in enumerate(viols)}
    viols.sort(key=lambda v: (v["_key"][0], order[id(v)]))
    for v in viols:
        v.pop("_key", None)
    ctx.merge_violations(viols)
    # breakdown datatype x signature (evidence only)
    bd = {}
    for (t, sig), c in sorted(by_type.items()):
        bd.setdefault(sig, {})[t] = c
    ctx.counters["violations_by_datatype"] = bd
    # which datatypes fall into the library's "unsupported datatype" warning path (observation, not a verdict)
    warned = []
    for (d, t, tag, how) in reps:
        f = get_field(d, tag, t if how.startswith("synthetic") else None)
        with warnings.catch_warnings(record=True) as w:
            warnings.simplefilter("always")
            observe(f, "A")
        if any("Unsupported datatype" in str(x.message) for x in w):
            warned.append(f"{d}:{t}")
    if warned:
        ctx.notes.append(f"library warns 'Unsupported datatype' and accepts everything for: {warned}")
    ctx.bounds = {"dictionaries": list(DICTS), "max_len_exhaustive": {"number_text_code": n + 1, "temporal": n},
                  "alphabets": {"number": NUM_ALPHA, "text": TEXT_ALPHA, "temporal": TEMP_ALPHA},
                  "type_targets": len(reps),
                  "enumerated_fields": sum(1 for d in DICTS for x in XMLF[d] if x[3]),
                  "swept_fields": sum(1 for d in DICTS for x in XMLF[d] if not x[3]),
                  "representatives": [f"{d}:{t}={tag} ({how})" for (d, t, tag, how) in reps][:60]}
    ctx.assumptions += [
        "values are Python str (the codec hands str to the schema); non-str arguments are out of scope",
        "R9 leaves unconstrained: leading zeros, -0, bare decimal point (.5 / 5.), LENGTH other than plain positive "
        "ints, non-ASCII DATA, '=' inside STRING/CHAR (FIX allows it, test_field_type_validation__string pins the "
        "rejection), blank/control/non-ASCII characters in text, short or non-uppercase currency/country/exchange "
        "codes, second 60 other than 23:59:60 (on a real leap-second day for timestamps), Feb 29 of year 0000, MonthYear "
        "day 29-31 beyond the month length, blank separated lists for enumerated MultipleValueString fields, "
        "leading-zero spellings of numeric enumerators",
        "one representative field stands for its datatype in the exhaustive part; all other fields get the probe list",
    ]
    for it in items[:: max(1, len(items) // 6)][:6]:
        kind, d, targets = it
        ctx.sample({"kind": kind, "dict": d, "tag": targets[0][0], "datatype": targets[0][2],
                    "first_inputs": [s for _, s in zip(range(6), (gen_for_type(targets[0][2], True) if kind == "type"
                                                                   else gen_for_enum(targets[0][3], True)
                                                                   if kind == "enum" else PROBES))]})


def replay(ctx, rep):
    load(ctx.repo)
    d, tag, synthetic, s = rep["dict"], rep["tag"], rep.get("synthetic"), rep["value"]
    if synthetic:
        dtype, enums = synthetic, []
    else:
        row = [x for x in XMLF[d] if x[0] == tag][0]
        dtype, enums = row[2], row[3]
    _v, _c, _o, v = run_one(d, tag, synthetic, dtype, set(enums), s)
    return [v] if v else []
