"""C01 - encode/decode round trip preserves every well-formed message.

Explorer C (bounded-exhaustive inputs): `props/c01_gen.py` enumerates messages
that are well formed w.r.t. the library's repeating-group table (types, flat
bodies, every group definition with 1..3 items / optional-member subsets /
nesting to the table's depth / surrounding and sibling tags, value atoms,
numbering modes).  Every message is encoded by the real `Codec.encode`,
turned into bytes the way `AsyncFIXConnection.send_msg` does, and decoded by
the real `Codec.decode`.

Oracle (independent structural walk of the decoded object - never
`FIXContainer.__eq__`), one clause per sentence of the property:
  type, body (ordered tag/value/group structure), consumed == len(frame),
  raw == frame, 49/56 == session CompIDs, 34 == allocated-or-carried number,
  counter moved by exactly one iff a number was allocated.
Three-valued: PossDup / SequenceReset / raw mode *without* a carried number is
unconstrained except that a refused encode must leave the counter untouched.
"""
from mc import refs
from mc.runner import HarnessError

from props import c01_gen as gen

CLAUSES = {
    "encode_raised": "for every well-formed message ... the bytes produced by the encoder (encode raised instead)",
    "decode_raised": "decoding the bytes produced by the encoder returns a message (decode raised instead)",
    "roundtrip_lost": "decoding the bytes produced by the encoder returns a message (decode returned no message)",
    "type_changed": "returns a message with the same message type",
    "body_changed": "the same body fields in the same order with the same string values and the same "
                    "repeating-group structure (nesting, item count, item order)",
    "consumed_wrong": "reports the whole frame as consumed",
    "raw_changed": "returns the frame bytes unchanged",
    "compid_wrong": "the decoded header carries the session's CompIDs",
    "seqnum_wrong": "and exactly the sequence number that was allocated (or, for retransmissions and "
                    "SequenceReset, the number the message already carried)",
    "wire_fields_wrong": "the bytes produced by the encoder carry the same body fields in the same order, each group "
                         "as its count field followed by its items (cross-check of the frame with the independent "
                         "parser R1, DESIGN.md C01 oracle)",
    "counter_wrong": "exactly the sequence number that was allocated: the session counter moves by one iff a "
                     "number was allocated",
}

_CODEC = None


def codec():
    global _CODEC
    if _CODEC is None:
        from asyncfix.codec import Codec
        from asyncfix.protocol import FIXProtocol44

        _CODEC = Codec(FIXProtocol44())
    return _CODEC


def _prime(sess):
    """The same Codec instance first serves ANOTHER session that shares the session key (keys are small
    integers handed out per journal, so two sessions from different journals collide) but has other
    CompIDs and another counter: anything the encoder remembers per key / per instance must not leak into
    the frame under test."""
    from asyncfix import FIXMessage
    from asyncfix.session import FIXSession

    other = FIXSession(sess.key, "PRIMET", "PRIMES")
    other.next_num_out = 77
    other.next_num_in = 55
    try:
        codec().encode(FIXMessage("0", {112: "prime"}), other)
    except Exception:
        pass
    # ... and then FAILS on a message it must refuse part-way (fields already collected, value not sendable;
    # PossDupFlag=Y without a number): nothing of a refused message may leak into the next frame
    for bad in (FIXMessage("D", {11: "leak-me", 37: "o1", 58: "a\x01b"}), FIXMessage("D", {17: "leak-too", 43: "Y"})):
        try:
            codec().encode(bad, other)
        except Exception:
            pass


# --------------------------------------------------------------------------
# oracle
# --------------------------------------------------------------------------
def walk(container):
    """Decoded container -> nested tuples ((tag, str) | (tag, (item, ...)))."""
    tags = getattr(container, "tags", None)
    if tags is None or not hasattr(tags, "items"):
        raise HarnessError("adapter: decoded container has no .tags mapping")
    out = []
    for tag, val in tags.items():
        if isinstance(val, str):
            out.append((str(tag), str(val)))
        elif hasattr(val, "groups"):
            out.append((str(tag), tuple(walk(g) for g in val.groups)))
        else:
            out.append((str(tag), ("#not-a-string", repr(val))))
    return tuple(out)


def first_diff(exp, got, path=""):
    """Human-readable location of the first structural difference."""
    for i in range(max(len(exp), len(got))):
        if i >= len(exp):
            return f"{path}[{i}]: unexpected extra {got[i][0]}"
        if i >= len(got):
            return f"{path}[{i}]: missing {exp[i][0]}"
        e, g = exp[i], got[i]
        if e[0] != g[0]:
            return f"{path}[{i}]: expected tag {e[0]}, got tag {g[0]}"
        eg, gg = isinstance(e[1], tuple), isinstance(g[1], tuple) and not (g[1] and g[1][0] == "#not-a-string")
        if eg != gg:
            return f"{path}[{i}] tag {e[0]}: expected {'group' if eg else 'value'}, got {'group' if gg else repr(g[1])}"
        if not eg:
            if e[1] != g[1]:
                return f"{path}[{i}] tag {e[0]}: expected value {e[1]!r}, got {g[1]!r}"
        else:
            if len(e[1]) != len(g[1]):
                return f"{path}[{i}] group {e[0]}: expected {len(e[1])} item(s), got {len(g[1])}"
            for k in range(len(e[1])):
                d = first_diff(e[1][k], g[1][k], f"{path}/{e[0]}#{k}")
                if d:
                    return d
    return None


def flatten(entries, out=None):
    """Wire order of a body: plain fields as they come, a group as (tag, item count) followed by its items."""
    if out is None:
        out = []
    for e in entries:
        if isinstance(e[1], tuple):
            out.append((e[0], str(len(e[1]))))
            for it in e[1]:
                flatten(it, out)
        else:
            out.append(e)
    return out


def expected_number(spec):
    t, tk, body, mode, ctr, num, pos = spec
    if mode in gen.ALLOC_MODES:
        return ctr, ctr + 1
    return num, ctr


def check_wire(spec, S, T, data, stats, one_byte_wire=True):
    """Decode one frame and judge it. Returns list of (clause, detail)."""
    t = spec[0]
    stats["decode_calls"] += 1
    try:
        dec, consumed, raw = codec().decode(data)
    except Exception as e:  # noqa
        return [("decode_raised", {"exception": repr(e)[:200]})]
    if dec is None:
        return [("roundtrip_lost", {"decode_returned": [None, consumed, None if raw is None else len(raw)],
                                    "frame_len": len(data)})]
    fails = []
    mt = getattr(dec, "msg_type", None)
    mtv = getattr(mt, "value", mt)
    stats["evaluations"] += 7
    if not (isinstance(mtv, str) and mtv == t):
        fails.append(("type_changed", {"expected": t, "observed": repr(mt)}))
    top = walk(dec)
    got_body = tuple(e for e in top if e[0] not in gen.FRAME_TAGS)
    exp_body = gen.expected_body(spec)
    if got_body != exp_body:
        fails.append(("body_changed", {"first_difference": first_diff(exp_body, got_body),
                                       "observed_body": repr(got_body)[:400]}))
    if consumed != len(data):
        fails.append(("consumed_wrong", {"expected": len(data), "observed": consumed}))
    if raw != data:
        fails.append(("raw_changed", {"expected_len": len(data), "observed": repr(raw)[:200]}))
    hdr = {}
    for e in top:
        hdr.setdefault(e[0], e[1])
    for htag in ("49", "56", "34", "52"):
        if sum(1 for e in top if e[0] == htag) > 1:
            fails.append(("compid_wrong" if htag in ("49", "56") else "seqnum_wrong",
                          {"header_tag_repeated": htag, "observed": [e for e in top if e[0] == htag]}))
            break
    if hdr.get("49") != S or hdr.get("56") != T:
        fails.append(("compid_wrong", {"expected": [S, T], "observed": [repr(hdr.get("49")), repr(hdr.get("56"))]}))
    n, _ = expected_number(spec)
    if hdr.get("34") != str(n):
        fails.append(("seqnum_wrong", {"expected": str(n), "observed": repr(hdr.get("34"))}))
    if one_byte_wire:
        fields, reason = refs.try_parse(data)
        if reason is None:  # framing itself is C02's business
            stats["evaluations"] += 1
            wire = [(tg, v.decode("latin-1")) for tg, v in fields if tg not in gen.FRAME_TAGS]
            exp = flatten(exp_body)
            if wire != exp:
                k = next((i for i, (a, b) in enumerate(zip(wire, exp)) if a != b), min(len(wire), len(exp)))
                fails.append(("wire_fields_wrong", {"first_difference_at_field": k,
                                                    "expected": exp[k:k + 3], "on_the_wire": wire[k:k + 3]}))
    return fails


def evaluate(spec, S, T, stats):
    """Run one spec on the real codec. Returns (failures, outcome).
    failures: list of (clause, wire, detail); wire = 'bytes' | 'utf8_non_ascii'."""
    t, tk, body, mode, ctr, num, pos = spec
    msg, sess, raw = gen.build(spec, S, T)
    stats["encode_calls"] += 1
    _prime(sess)
    try:
        if raw:
            frame = codec().encode(msg, sess, raw_seq_num=True)
        else:
            frame = codec().encode(msg, sess)
    except Exception as e:  # noqa
        after = sess.next_num_out
        stats["evaluations"] += 1
        if mode in gen.ERR_MODES:
            if after != ctr:
                return [("counter_wrong", "bytes", {"encode_refused": repr(e)[:120], "counter_before": ctr,
                                                    "counter_after": after})], ("refused", type(e).__name__)
            return [], ("refused", type(e).__name__)
        return [("encode_raised", "bytes", {"exception": repr(e)[:200]})], ("encode_raised", type(e).__name__)
    if mode in gen.ERR_MODES:
        # nothing carried and not refused: the property does not say what must happen
        return [], ("unconstrained_accepted", mode)
    if not isinstance(frame, str):
        raise HarnessError(f"adapter: Codec.encode returned {type(frame).__name__}, expected str")
    fails = []
    after = sess.next_num_out
    n, exp_after = expected_number(spec)
    stats["evaluations"] += 1
    if after != exp_after:
        fails.append(("counter_wrong", "bytes", {"counter_before": ctr, "expected_after": exp_after,
                                                 "observed_after": after}))
    ascii_only = frame.isascii()
    # the conversion AsyncFIXConnection.send_msg applies
    data = frame.encode("utf-8")
    if ascii_only:
        for c, d in check_wire(spec, S, T, data, stats):
            fails.append((c, "bytes", d))
    else:
        # the frame text is judged as the bytes the connection really writes (utf-8); the encoder's
        # BodyLength / CheckSum are defined over those bytes, a one-byte-per-character rendering of the
        # same text is not something the library ever puts on a wire
        for c, d in check_wire(spec, S, T, data, stats, one_byte_wire=False):
            d = dict(d)
            d["wire"] = "frame text converted with .encode('utf-8') as send_msg does"
            fails.append((c, "utf8_non_ascii", d))
    return fails, ("ok" if not fails else "violation", mode)


# --------------------------------------------------------------------------
# signatures
# --------------------------------------------------------------------------
def signature_for(spec, S, T, clause, wire):
    """(signature, shrunk spec): minimise the input, then name what is left."""
    if wire == "utf8_non_ascii":
        return f"{clause}|non_ascii_value_utf8_wire", spec
    st = _new_stats()

    def still(sp):
        f, _ = evaluate(sp, S, T, st)
        return any(c == clause and w == wire for c, w, _d in f)

    small = gen.shrink(spec, still)
    return f"{clause}|{gen.cause_label(small)}", small


def _new_stats():
    return {"encode_calls": 0, "decode_calls": 0, "evaluations": 0}


# --------------------------------------------------------------------------
# workers
# --------------------------------------------------------------------------
KEEP_PER_CLASS = 1


def _work(unit):
    S, T = gen.ST
    st = _new_stats()
    n = 0
    nontriv = 0
    digs = []
    outcomes = set()
    groups = {}  # (clause, wire, coarse) -> [count, first failure]
    order = []
    ill = None
    n_ill = 0
    sample = None
    for spec in gen.expand(unit):
        if not gen.valid(spec):
            ill = ill or [gen.to_json(spec), gen.well_formed(spec[2])]
            n_ill += 1
            continue
        n += 1
        if sample is None:
            sample = spec
        digs.append(gen.digest(spec))
        if gen.nontrivial(spec):
            nontriv += 1
        fails, outcome = evaluate(spec, S, T, st)
        outcomes.add(outcome)
        if fails:
            coarse = gen.coarse_class(spec)
            for clause, wire, detail in fails:
                k = (clause, wire, coarse)
                g = groups.get(k)
                if g is None:
                    groups[k] = [1, gen.to_json(spec), detail]
                    order.append(k)
                else:
                    g[0] += 1
    return {
        "unit": unit, "n": n, "nontrivial": nontriv, "digests": b"".join(digs), "outcomes": outcomes,
        "groups": [(k, groups[k]) for k in order], "stats": st, "ill": ill, "n_ill": n_ill,
        "sample": gen.to_json(sample) if sample is not None else None,
    }


def _sig_work(item):
    (clause, wire, coarse), spec_json = item
    S, T = gen.ST
    spec = gen.from_json(spec_json)
    sig, small = signature_for(spec, S, T, clause, wire)
    return sig, gen.to_json(small)


def make_violation(sig, clause, spec_json, small_json, detail, S, T, count=1):
    d = dict(detail)
    d["input"] = spec_json if len(repr(spec_json)) < 900 else "<see replay>"
    d["minimised_input"] = small_json
    d["session"] = {"sender": S, "target": T}
    return {
        "signature": sig,
        "clause": CLAUSES[clause],
        "detail": d,
        "replay": {"spec": spec_json, "S": S, "T": T},
        "count": count,
    }


def explore(ctx, units, work):
    """Shared driver: run `work` over units, merge, return (merged groups in enumeration order, totals)."""
    res = ctx.pmap(work, units, chunk=1)
    groups = {}
    order = []
    seen = set()
    tot = {"n": 0, "nontrivial": 0, "encode_calls": 0, "decode_calls": 0, "evaluations": 0}
    fam_counts = {}
    n_ill = 0
    first_ill = None
    for r in res:
        if r["ill"]:
            # a template that is not well formed w.r.t. the (possibly changed) table is dropped, never judged
            n_ill += r["n_ill"]
            first_ill = first_ill or (r["unit"], r["ill"])
        tot["n"] += r["n"]
        tot["nontrivial"] += r["nontrivial"]
        for k, v in r["stats"].items():
            tot[k] = tot.get(k, 0) + v
        fam_counts[r["unit"][0]] = fam_counts.get(r["unit"][0], 0) + r["n"]
        d = r["digests"]
        for i in range(0, len(d), 8):
            seen.add(d[i:i + 8])
        ctx.outcomes.update(r["outcomes"])
        for k, (cnt, spec_json, detail) in r["groups"]:
            g = groups.get(k)
            if g is None:
                groups[k] = [cnt, spec_json, detail]
                order.append(k)
            else:
                g[0] += cnt
    tot["dropped_ill_formed"] = n_ill
    if n_ill * 100 > max(1, tot["n"]):
        raise HarnessError(f"generator produced {n_ill} ill-formed messages, first in unit {first_ill[0]}: {first_ill[1]}")
    if n_ill:
        ctx.notes.append(f"{n_ill} generated messages were not well formed w.r.t. the table and were dropped "
                         f"(first: unit {first_ill[0]})")
    tot["states"] = len(seen)
    tot["families"] = fam_counts
    tot["samples"] = [r["sample"] for r in res if r["sample"] is not None]
    return [(k, groups[k]) for k in order], tot


MAX_SHRINK_GROUPS = 400


def run(ctx):
    gen.configure(ctx.tier, ctx.seed)
    S, T = gen.ST
    units = gen.units()
    groups, tot = explore(ctx, units, _work)
    if len(groups) > MAX_SHRINK_GROUPS:
        ctx.cap(f"more than {MAX_SHRINK_GROUPS} failing input classes; the rest is named without minimisation")
    head = groups[:MAX_SHRINK_GROUPS]
    sigs = ctx.pmap(_sig_work, [(k, v[1]) for k, v in head], chunk=1)
    for (k, (cnt, spec_json, detail)), (sig, small) in zip(head, sigs):
        ctx.merge_violations([make_violation(sig, k[0], spec_json, small, detail, S, T, cnt)])
    for k, (cnt, spec_json, detail) in groups[MAX_SHRINK_GROUPS:]:
        sig = f"{k[0]}|" + "+".join(x for x in k[2] if x and x != "plain")
        ctx.merge_violations([make_violation(sig, k[0], spec_json, None, detail, S, T, cnt)])

    ctx.count(states=tot["states"], transitions=tot["encode_calls"] + tot["decode_calls"], traces=tot["n"],
              evaluations=tot["evaluations"], nontrivial=tot["nontrivial"], encode_calls=tot["encode_calls"],
              decode_calls=tot["decode_calls"], generated=tot["n"])
    ctx.rule = (
        "every message of the generator families (types, flat bodies, per group definition: optional-member "
        "subsets / 1..3 items / items with different member sets / nesting to the table's depth / tags around "
        "the group / sibling groups, value atoms x positions, numbering modes x counters, group shapes x "
        "carried-number modes) is encoded by Codec.encode, converted to bytes as send_msg does and decoded by "
        "Codec.decode; states = distinct (type, body, mode, counter, carried number) inputs; non-trivial = "
        "non-default numbering mode, or a non-plain value, or nesting depth >= 2, or a group with >= 2 items"
    )
    tb = gen.TABLE
    ctx.bounds = {
        "group_definitions": len(tb.rg), "definitions_skipped": gen.skipped_definitions(),
        "max_table_depth": max(tb.depth(g) for g in tb.rg), "items_per_group_max": gen.CFG["items_max"],
        "optional_subset_size": [gen.CFG["subset_k"], gen.CFG["subset_k_small"]],
        "message_types": len(gen.msg_types()) + len(gen.CUSTOM_TYPES),
        "value_atoms": len(gen.atoms(gen.CFG)), "counters": list(gen.COUNTERS), "carried_numbers": list(gen.CARRIED),
        "cases_per_family": tot["families"], "units": len(units),
    }
    for s in tot["samples"][:: max(1, len(tot["samples"]) // 6)][:6]:
        ctx.sample(s)
    ctx.assumptions += [
        "well-formed = DESIGN.md C01 rules (no header/trailer tag in the body; every item starts with the "
        "table's first member; members in table order; a tag after a group is not a member of a group still open)",
        "the group table and the list of standard message types are read from the library (the property is "
        "stated relative to them); SendingTime is whatever the encoder writes (not compared)",
        "frame text -> bytes as AsyncFIXConnection.send_msg does (.encode('utf-8')); for Latin-1 high "
        "characters the one-byte-per-character wire (latin-1) is judged as well",
        "PossDupFlag=Y / SequenceReset / raw_seq_num without a carried number: only 'a refused encode leaves the "
        "counter untouched' is demanded",
    ]
    ctx.notes.append("failing inputs are grouped by (clause, coarse input class); the first of each group is "
                     "minimised by deterministic one-edit shrinking and the signature names what is left")


def replay(ctx, rep):
    gen.configure(ctx.tier, ctx.seed)
    S, T = rep["S"], rep["T"]
    spec = gen.from_json(rep["spec"])
    if not gen.valid(spec):
        raise HarnessError(f"replay input is not a well-formed message: {gen.well_formed(spec[2])}")
    fails, _ = evaluate(spec, S, T, _new_stats())
    out = []
    for clause, wire, detail in fails:
        sig, small = signature_for(spec, S, T, clause, wire)
        out.append(make_violation(sig, clause, rep["spec"], gen.to_json(small), detail, S, T))
    return out
