"""C02, input-enumeration half: every frame the encoder produces / a connection
hands to its transport is a well-formed FIX frame - or the send is refused.

`run_part(ctx)` / `replay_part(ctx, rep)` are called by props/c02.py.

(a) encoder: every message of the C01 generator (props/c01_gen.py) plus values
    with non-ASCII text (Latin-1, BMP, CJK, astral, a lone surrogate) plus messages
    that cannot be represented as a frame at all (framing tags 8/9/35/10 in the tag
    map, SOH in a value, tag spellings that are not FIX tag numbers, empty values,
    empty MsgType - at message level and inside group items) is encoded
    by the real Codec.encode and turned into bytes exactly as
    AsyncFIXConnection.send_msg does (`.encode("utf-8")`);
(b) transport: a small set of messages is sent through a real endpoint
    (mc.world.World1) and the bytes handed to the transport are taken.

Oracle: the independent framer R1 (`mc.refs.parse`) accepts the bytes, OR the
encode / send was refused with an exception (and, at the transport, nothing was
written).  A rejected frame is broken down - independently of the library - into
the clauses of the property (start order, CheckSum format, BodyLength,
CheckSum) for the signature.
"""
import re

from mc import refs
from mc.runner import HarnessError

from props import c01_gen as gen
from props import c01

CLAUSES = {
    "start_order": "starts with BeginString, BodyLength and MsgType in that order",
    "checksum_format": "ends with a three-digit CheckSum field",
    "bodylength": "has a BodyLength equal to the number of bytes between the BodyLength field and the CheckSum field",
    "checksum": "a CheckSum equal to the sum of all preceding bytes modulo 256",
    "rejected": "so that an independent FIX parser accepts it",
    "not_refused": "a message that cannot be represented this way is refused with an error instead of being "
                   "transmitted (the bytes produced are not accepted by an independent FIX parser)",
    "field_injected": "a message that cannot be represented this way is refused with an error instead of being "
                      "transmitted (a value containing SOH was transmitted: the frame parses, but as a different "
                      "message - the text after the SOH arrives as a field of its own)",
    "transmitted_despite_error": "a message that cannot be represented this way is refused with an error instead "
                                 "of being transmitted",
}

_TRAILER = re.compile(rb"\x0110=([0-9]{3})\x01\Z")
_HEAD = re.compile(rb"\A8=[^\x01]+\x019=([0-9]+)\x0135=[^\x01]+\x01")


def frame_failures(data):
    """[] if R1 accepts `data`, else list of (clause code, detail)."""
    fields, reason = refs.try_parse(data)
    if reason is None:
        # R1 takes any run of ASCII digits as a tag; a FIX tag number is a positive integer without leading zeros
        bad = [t for t, _v in fields if t[:1] == "0"]
        if not bad:
            return []
        reason = "tag_not_a_positive_integer_without_leading_zero"
    out = []
    h = _HEAD.match(data)
    t = _TRAILER.search(data)
    if not h:
        out.append(("start_order", {"frame_start": data[:40]}))
    if not t:
        out.append(("checksum_format", {"frame_end": data[-12:]}))
    if h and t:
        body_start = data.index(b"\x01", data.index(b"\x019=") + 1) + 1
        body_end = t.start() + 1
        declared = int(h.group(1))
        if declared != body_end - body_start:
            out.append(("bodylength", {"declared": declared, "bytes_between": body_end - body_start}))
    if t:
        ck = sum(data[: t.start() + 1]) % 256
        if ck != int(t.group(1)):
            out.append(("checksum", {"declared": int(t.group(1)), "sum_of_preceding_bytes_mod_256": ck}))
    if not out:
        out.append(("rejected", {"reference_parser_reason": reason}))
    for _c, d in out:
        d["reference_parser_reason"] = reason
    return out


def injected_fields(spec, data):
    """For an input with SOH inside a value whose frame R1 ACCEPTS: the pieces of that value which are on the
    wire as fields of their own (the frame is well formed but it is not the message that was handed over)."""
    if gen.unrep_class(spec) != "soh_in_value":
        return []
    fields, reason = refs.try_parse(data)
    if reason is not None:
        return []
    wire = {t.encode() + b"=" + v for t, v in fields}
    out = []
    for _tag, v in gen.walk_fields(spec[2]):
        if "\x01" in v:
            for piece in v.split("\x01")[1:]:
                if "=" in piece and piece.encode("utf-8", "replace") in wire:
                    out.append(piece)
    return out


def has_non_ascii(spec):
    return any(not v.isascii() for _t, v in gen.walk_fields(spec[2]))


def encode_bytes(spec, S, T, stats):
    """('refused', exc) | ('bytes', data) - the real encoder + send_msg's conversion."""
    try:
        msg, sess, raw = gen.build(spec, S, T)
    except Exception as e:  # noqa
        if gen.unrep_class(spec) is None:
            raise
        return "refused", e  # the container already refuses the unrepresentable piece
    stats["encode_calls"] += 1
    c01._prime(sess)  # the shared Codec first serves another session with the same key and other CompIDs
    try:
        frame = c01.codec().encode(msg, sess, raw_seq_num=True) if raw else c01.codec().encode(msg, sess)
    except Exception as e:  # noqa
        return "refused", e
    if not isinstance(frame, str):
        raise HarnessError(f"adapter: Codec.encode returned {type(frame).__name__}, expected str")
    try:
        return "bytes", frame.encode("utf-8")
    except UnicodeError as e:
        return "refused", e


def evaluate(spec, S, T, stats):
    kind, x = encode_bytes(spec, S, T, stats)
    if kind == "refused":
        return [], ("refused", type(x).__name__)
    stats["evaluations"] += 1
    fails = frame_failures(x)
    inj = injected_fields(spec, x) if not fails else []
    if inj:
        fails = [("field_injected", {"injected_fields": inj, "reference_parser_reason": None})]
    return [(c, "enc", dict(d, frame=x if len(x) < 300 else x[:300])) for c, d in fails], (
        "accepted" if not fails else "malformed", "non_ascii" if has_non_ascii(spec) else "ascii")


def signature_for(spec, S, T, code, prefix="frame_malformed"):
    u = gen.unrep_class(spec)
    if u is not None:
        return f"{prefix}|{u}:{code}", spec
    if has_non_ascii(spec):
        return f"{prefix}|non_ascii_value:{code}", spec
    st = c01._new_stats()

    def still(sp):
        f, _ = evaluate(sp, S, T, st)
        return any(c == code for c, _w, _d in f)

    small = gen.shrink(spec, still)
    return f"{prefix}|{gen.cause_label(small)}:{code}", small


def _fixed_cause(sig):
    """Signatures whose cause class is read off the input directly (no shrinking, never collapsed)."""
    return "|non_ascii_value:" in sig or any(f"|{u}:" in sig for u in gen.UNREP_CLASSES)


def _coarse(spec):
    u = gen.unrep_class(spec)
    if u is not None:
        return ("unrepresentable", u)
    if has_non_ascii(spec):
        return ("non_ascii",)
    return gen.coarse_class(spec)


def _work(unit):
    S, T = gen.ST
    st = c01._new_stats()
    n = nontriv = 0
    digs = []
    outcomes = set()
    groups = {}
    order = []
    ill = None
    n_ill = 0
    sample = None
    for spec in gen.expand(unit):
        if not gen.valid(spec) and not (unit[0] == "unrep" and gen.unrep_class(spec) is not None):
            ill = ill or [gen.to_json(spec), gen.well_formed(spec[2])]
            n_ill += 1
            continue
        n += 1
        if sample is None:
            sample = spec
        digs.append(gen.digest(spec))
        if has_non_ascii(spec) or spec[3] != "alloc" or len(spec[0]) != 1 or unit[0] == "unrep":
            nontriv += 1
        fails, outcome = evaluate(spec, S, T, st)
        outcomes.add(outcome)
        if fails:
            coarse = _coarse(spec)
            for code, wire, detail in fails:
                k = (code, wire, coarse)
                g = groups.get(k)
                if g is None:
                    groups[k] = [1, gen.to_json(spec), detail]
                    order.append(k)
                else:
                    g[0] += 1
    return {"unit": unit, "n": n, "nontrivial": nontriv, "digests": b"".join(digs), "outcomes": outcomes,
            "groups": [(k, groups[k]) for k in order], "stats": st, "ill": ill, "n_ill": n_ill,
            "sample": gen.to_json(sample) if sample is not None else None}


def _sig_work(item):
    (code, wire, coarse), spec_json = item
    S, T = gen.ST
    sig, small = signature_for(gen.from_json(spec_json), S, T, code)
    return sig, gen.to_json(small)


def make_violation(sig, code, spec_json, small_json, detail, S, T, part, count=1):
    d = dict(detail)
    d["input"] = spec_json if len(repr(spec_json)) < 900 else "<see replay>"
    if small_json is not None and small_json != spec_json:
        d["minimised_input"] = small_json
    d["session"] = {"sender": S, "target": T}
    clause = CLAUSES[code]
    u = gen.unrep_class(gen.from_json(spec_json))
    if u is not None and code != "transmitted_despite_error":
        clause = CLAUSES["not_refused"] + " - here: " + clause
        d["why_not_representable"] = u
    return {"signature": sig, "clause": clause, "detail": d,
            "replay": {"part": part, "spec": spec_json, "S": S, "T": T}, "count": count}


# --------------------------------------------------------------------------
# transport half
# --------------------------------------------------------------------------
def transport_specs():
    """Small set: plain, group, retransmission shape, and the non-ASCII atoms in a flat field and in a group."""
    out = [
        gen.spec_of((("58", None),)),
        gen.spec_of((("11", None), ("55", None), ("58", "10=000")), t="8"),
        gen.spec_of((("58", None),), t="U1", tk="str"),
        gen.spec_of((("11", None),), mode="possdup", ctr=1, num=7, pos="split"),
    ]
    grp = (("55", None), ("453", ((("448", None), ("452", None)), (("448", None),))), ("58", None))
    if "453" in gen.TABLE.rg and gen.well_formed(gen.fill(grp)) is None:
        out.append(gen.spec_of(grp))
    # frames larger than any stream buffer / high-water mark: still ONE well-formed frame per hand-over
    for n in (70000, 200001):
        out.append(gen.spec_of((("11", None), ("58", "y" * n), ("55", None))))
    for a in gen.NON_ASCII_C02:
        out.append(gen.spec_of((("58", a),)))
    for a in gen.NON_ASCII_C02[:6]:
        out.append(gen.spec_of((("11", None), ("58", a), ("55", None))))
        if "453" in gen.TABLE.rg and gen.TABLE.rg["453"][0] == "448":
            out.append(gen.spec_of((("453", ((("448", a),), (("448", None),))),)))
    out = [s for s in out if gen.valid(s)]
    # messages that cannot be represented: must be refused before anything is written
    for k in gen.UNREP_CLASSES:
        pool = list(gen.expand(("unrep", k)))
        pick = [pool[0], pool[len(pool) // 2], pool[-1]]
        if k == "framing_tag_in_message":
            pick += [sp for sp in pool if sp[3] == "forward"][:1] + [sp for sp in pool if sp[2][0][0] == "10"][:1]
        if k == "soh_in_value":
            pick += [sp for sp in pool if "8=FIX.4.4" in sp[2][0][1]][:1]
        for sp in dict.fromkeys(pick):
            if sp[3] in ("alloc", "forward", "possdup"):
                out.append(sp)
    return out


def disconnect_specs():
    """Logout texts handed to disconnect(): (spec of the Logout that would be built, text)."""
    return [gen.spec_of((("58", t),), t="5") for t in ("bye", "bye\x01now", "x\x0110=000\x018=FIX.4.4\x019=5\x0135=5")]


def transport_case(spec, S, T, stats, via_disconnect=False):
    """Send one message through a real acceptor endpoint (or, via_disconnect, hand its Text to disconnect()
    as logout_message). Returns (failures, outcome, frames)."""
    from mc.world import World1

    try:
        msg, _sess, raw = gen.build(spec, S, T)
    except Exception as e:  # noqa
        if gen.unrep_class(spec) is None:
            raise
        return [], ("refused_by_container", type(e).__name__), []
    if raw:
        raise HarnessError("transport half does not use raw_seq_num specs")
    w = World1("acceptor", S=S, T=T)
    try:
        w.connect()
        w.logon()
        pre = w.take()
        if w.c.connection_state.name != "ACTIVE":
            raise HarnessError(f"transport half: endpoint not ACTIVE after logon ({w.c.connection_state.name})")
        if via_disconnect:
            from asyncfix import ConnectionState

            writer = w.writer
            seen = w.seen
            res = w.call(w.c.disconnect(ConnectionState.DISCONNECTED_WCONN_TODAY, logout_message=spec[2][0][1]))
            frames = writer.out[seen:]
        else:
            res = w.send(msg)
            frames = w.take()
        stats["encode_calls"] += 1
    finally:
        w.close()
    fails = []
    for fr in pre:
        for c, d in frame_failures(fr):
            fails.append((c, "transport_session_frame", dict(d, frame=fr[:300])))
    stats["evaluations"] += 1 + len(frames)
    if res[0] == "exc":
        if frames:
            fails.append(("transmitted_despite_error", "transport",
                          {"send_raised": repr(res[1])[:200], "bytes_written": frames[0][:300]}))
        return fails, ("send_refused", type(res[1]).__name__), frames
    for fr in frames:
        ff = frame_failures(fr)
        inj = injected_fields(spec, fr) if not ff else []
        if inj:
            ff = [("field_injected", {"injected_fields": inj, "reference_parser_reason": None})]
        for c, d in ff:
            fails.append((c, "transport", dict(d, frame=fr[:300], send_result=res[0])))
    if not frames:
        return fails, ("nothing_written", res[0]), frames
    return fails, ("written_" + ("malformed" if fails else "accepted"), "non_ascii" if has_non_ascii(spec) else "ascii"), frames


def transport_signatures(spec, S, T, fails, collapsed=()):
    """Same signature as the encoder half when the encoder half shows the same clause for the same input;
    a clause that only fails at the transport gets its own prefix."""
    st = c01._new_stats()
    enc_fails, _ = evaluate(spec, S, T, st)
    enc_codes = {c for c, _w, _d in enc_fails}
    cause = gen.unrep_class(spec) or ("non_ascii_value" if has_non_ascii(spec) else "ascii_message")
    out = []
    seen_only = set()
    for code, where, detail in fails:
        if where == "transport_session_frame":
            # frames of the logon exchange itself: first failing clause only
            if "session" in seen_only:
                continue
            seen_only.add("session")
            sig = f"transport_frame_malformed|session_frame:{code}"
        elif code == "transmitted_despite_error":
            sig = f"transmitted_despite_error|{cause}"
        elif code in enc_codes:
            sig, _ = signature_for(spec, S, T, code)
            if code in collapsed and cause == "ascii_message":
                sig = f"frame_malformed|ascii_messages_of_various_shapes:{code}"
        else:
            # fails at the transport only: name the first failing clause (the later ones follow from it)
            if "msg" in seen_only:
                continue
            seen_only.add("msg")
            sig = f"transport_frame_malformed|{cause}:{code}"
        out.append((sig, code, detail))
    return out


# --------------------------------------------------------------------------
# entry points
# --------------------------------------------------------------------------
MAX_SHRINK_GROUPS = 400
MAX_LABELS = 3


def run_part(ctx):
    gen.configure(ctx.tier, ctx.seed)
    S, T = gen.ST
    units = gen.units(include_non_ascii=True, include_unrepresentable=True)
    groups, tot = c01.explore(ctx, units, _work)
    if len(groups) > MAX_SHRINK_GROUPS:
        ctx.cap(f"C02 encoder half: more than {MAX_SHRINK_GROUPS} failing input classes; the rest is named "
                "without minimisation")
    head = groups[:MAX_SHRINK_GROUPS]
    sigs = ctx.pmap(_sig_work, [(k, v[1]) for k, v in head], chunk=1)
    # framing depends on the bytes, not on the message structure: when one clause fails for more than
    # MAX_LABELS differently-shaped minimal ASCII inputs, the shape is not the cause - report one signature
    labels = {}
    for (k, _v), (sig, _small) in zip(head, sigs):
        if not _fixed_cause(sig):
            labels.setdefault(k[0], [])
            if sig not in labels[k[0]]:
                labels[k[0]].append(sig)
    for (k, (cnt, spec_json, detail)), (sig, small) in zip(head, sigs):
        if len(labels.get(k[0], ())) > MAX_LABELS and not _fixed_cause(sig):
            sig = f"frame_malformed|ascii_messages_of_various_shapes:{k[0]}"
        ctx.merge_violations([make_violation(sig, k[0], spec_json, small, detail, S, T, "enc", cnt)])
    for k, (cnt, spec_json, detail) in groups[MAX_SHRINK_GROUPS:]:
        sig = "frame_malformed|" + "+".join(x for x in k[2] if x and x != "plain") + ":" + k[0]
        ctx.merge_violations([make_violation(sig, k[0], spec_json, None, detail, S, T, "enc", cnt)])

    # transport half (sequential, small)
    tst = c01._new_stats()
    tspecs = transport_specs()
    n_frames = 0
    dspecs = disconnect_specs()
    for spec, part in [(s, "transport") for s in tspecs] + [(s, "transport_disconnect") for s in dspecs]:
        fails, outcome, frames = transport_case(spec, S, T, tst, via_disconnect=part == "transport_disconnect")
        n_frames += len(frames)
        ctx.outcomes.add((part,) + tuple(outcome))
        collapsed = {c for c, l in labels.items() if len(l) > MAX_LABELS}
        for sig, code, detail in transport_signatures(spec, S, T, fails, collapsed):
            if part == "transport_disconnect":
                detail = dict(detail, via="disconnect(logout_message=<the Text value of the input>)")
            ctx.merge_violations([make_violation(sig, code, gen.to_json(spec), None, detail, S, T, part)])
    tspecs = tspecs + dspecs

    ctx.count(states=tot["states"] + len(tspecs), transitions=tot["encode_calls"] + len(tspecs), traces=tot["n"] + len(tspecs),
              evaluations=tot["evaluations"] + tst["evaluations"], nontrivial=tot["nontrivial"],
              enc_frames_checked=tot["evaluations"], transport_sends=len(tspecs), transport_frames=n_frames)
    rule = (
        "C02 input half: every message of the C01 generator plus non-ASCII value atoms plus messages that cannot be "
        "represented (framing tags 8/9/35/10 in the tag map at front/middle/end and inside group items, SOH in a "
        "value, tag spellings int() accepts, empty values, empty MsgType) is encoded by Codec.encode "
        "and converted with .encode('utf-8') as send_msg does; the independent framer R1 must accept the bytes or "
        "the encoder must have raised; a small set is sent through a real endpoint (World1) and the bytes handed to "
        "the transport are judged the same way; non-trivial = non-ASCII value, non-default numbering mode or "
        "two-character message type"
    )
    ctx.rule = (ctx.rule + " || " + rule) if ctx.rule else rule
    ctx.bounds.update({
        "enc_cases_per_family": tot["families"], "enc_units": len(units),
        "enc_non_ascii_atoms": [a.encode("unicode_escape").decode() for a in gen.NON_ASCII_C02],
        "transport_messages": len(tspecs),
        "enc_unrepresentable_classes": list(gen.UNREP_CLASSES),
        "enc_tag_spellings": [t.encode("unicode_escape").decode() for t in gen.TAG_SPELLINGS],
    })
    for s in tot["samples"][:: max(1, len(tot["samples"]) // 3)][:3]:
        ctx.sample({"part": "enc", "spec": s})
    ctx.assumptions += [
        "C02 input half: well-formed messages as in C01 (DESIGN.md); text -> bytes exactly as "
        "AsyncFIXConnection.send_msg does (utf-8); an exception from encode or from the conversion counts as a refusal",
        "C02 transport half: one fresh acceptor endpoint per message, clean logon, then one send_msg (or one "
        "disconnect(logout_message=text))",
        "unrepresentable messages: an exception while the message object is built, from encode or from send_msg "
        "counts as the refusal; session counters are not judged here (C05); a frame R1 accepts is additionally "
        "rejected when a tag has a leading zero, and - for a value containing SOH - when a piece of the value "
        "arrives as a field of its own",
    ]
    return {"enc_cases": tot["n"], "transport_cases": len(tspecs)}


def replay_part(ctx, rep):
    gen.configure(ctx.tier, ctx.seed)
    S, T = rep["S"], rep["T"]
    spec = gen.from_json(rep["spec"])
    if not gen.valid(spec) and gen.unrep_class(spec) is None:
        raise HarnessError(f"replay input is not a well-formed message: {gen.well_formed(spec[2])}")
    out = []
    if rep.get("part") in ("transport", "transport_disconnect"):
        fails, _o, _f = transport_case(spec, S, T, c01._new_stats(), via_disconnect=rep["part"] == "transport_disconnect")
        for sig, code, detail in transport_signatures(spec, S, T, fails):
            out.append(make_violation(sig, code, rep["spec"], None, detail, S, T, rep["part"]))
            if sig.startswith("frame_malformed|") and not _fixed_cause(sig):
                out.append(make_violation(f"frame_malformed|ascii_messages_of_various_shapes:{code}", code,
                                          rep["spec"], None, detail, S, T, "transport"))
        return out
    fails, _ = evaluate(spec, S, T, c01._new_stats())
    for code, _w, detail in fails:
        sig, small = signature_for(spec, S, T, code)
        out.append(make_violation(sig, code, rep["spec"], gen.to_json(small), detail, S, T, "enc"))
        if not _fixed_cause(sig):
            # the explorer may have reported this case under the collapsed signature (see run_part)
            out.append(make_violation(f"frame_malformed|ascii_messages_of_various_shapes:{code}", code, rep["spec"],
                                      gen.to_json(small), detail, S, T, "enc"))
    return out
