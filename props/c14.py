"""C14 - concurrent senders never corrupt the outbound sequence.

Explorer B: all schedules with a bounded number of deviations over harnesses of
2-3 tasks on one active real endpoint.  Suspension points owned by the
scheduler: drain() under back-pressure (FIFO wake-up) and the awaited
application hooks.
"""
import asyncio

from mc import refs, sched
from mc.vloop import LiveLock, task_result
from mc.world import World1, num_out, stored_counters, journal_rows

POOL = [("SRV", "CLI"), ("ACC", "INI"), ("S1", "T1"), ("EXCH", "FIRM")]
CFG = {"S": "SRV", "T": "CLI", "bound": 2}

HARNESSES = {
    "send_send": dict(pre=0, tasks=[("send", "x1"), ("send", "x2")]),
    "send_resend": dict(pre=3, tasks=[("feed", "rr", 2), ("send", "x1")]),
    "send_testreq_in": dict(pre=0, tasks=[("feed", "tr"), ("send", "x1")]),
    "send_testreq_out": dict(pre=0, tasks=[("testreq",), ("send", "x1")]),
    "send_logon": dict(pre=-1, tasks=[("feed", "logon"), ("send", "x1")]),
    "send_send_resend": dict(pre=3, tasks=[("feed", "rr", 2), ("send", "x1"), ("send", "x2")]),
    "send_gap": dict(pre=0, tasks=[("feed", "gap"), ("send", "x1")]),
    "send_send_send": dict(pre=0, tasks=[("send", "x1"), ("send", "x2"), ("send", "x3")]),
    # journal that ends with a session message: the reply to the ResendRequest ends with a GapFill
    "send_resend_tail": dict(pre=2, tail_hb=True, tasks=[("feed", "rr", 2), ("send", "x1")]),
    # initiator: first Logon and a Logout from another task (the only send allowed before the Logon reply)
    "logon_logout": dict(pre=-2, tasks=[("logon",), ("logout",)]),
    # transport failure while senders are parked in drain(), then one more sender
    # a sender whose message cannot be put on the wire (text that is not encodable as utf-8) between ordinary senders:
    # whatever it is told, the numbers of the others stay dense and the stored counter ends at highest + 1
    "send_bad": dict(pre=0, tasks=[("sendbad",), ("send", "x1")]),
    # initiator: first Logon parked in the application's on_state_change hook while another task (watchdog /
    # application) drops the connection, then the hook returns
    "logon_drop": dict(pre=-2, attempts=True, tasks=[("logon",), ("drop",)]),
    "send_send_fail": dict(pre=0, fail=True, tasks=[("send", "x1"), ("send", "x2"), ("send", "x3")]),
}


def run_one(hname, s):
    from asyncfix import FIXMessage

    h = HARNESSES[hname]
    import os
    from asyncfix import Journaler
    from mc.world import TmpDir, committed_counters
    # file-backed journal: the stored counter is read through a brand-new connection (committed data only)
    tmp = TmpDir()
    jpath = os.path.join(tmp.path, "j.db")
    if h["pre"] == -2:
        w = World1("initiator", S=CFG["S"], T=CFG["T"], logon_on_connect=False, journal=Journaler(jpath))
    else:
        w = World1("acceptor", S=CFG["S"], T=CFG["T"], journal=Journaler(jpath))
    try:
        c = w.c
        loop = w.loop
        w.connect()
        if h["pre"] >= 0:
            w.logon()
            for i in range(h["pre"]):
                tags = {11: f"pre{i}", 55: "X"}
                if i == 1:
                    tags[43] = "N"  # an application message that spells out PossDupFlag=N
                w.send(FIXMessage("D", tags))
            if h.get("tail_hb"):
                from asyncfix import FMsg
                w.send(FIXMessage(FMsg.HEARTBEAT))
        base_frames = len(w.writer.out)
        base_attempts = len(w.writer.attempts)
        parked = []
        state = {"pauses": 0}

        async def gate(conn, name):
            k = s.choose([f"pass:{name}", f"park:{name}"])
            if k == 1:
                f = loop.create_future()
                parked.append(f)
                await f

        c.gates = gate
        pending = list(enumerate(h["tasks"]))
        started = {}
        steps = 0
        while True:
            opts, acts = [], []
            if loop.ready_count() > 0:
                opts.append("run")
                acts.append(("run",))
            env_o, env_a = [], []
            if parked:
                env_o.append("release")
                env_a.append(("release",))
            if w.writer.paused:
                env_o.append("resume")
                env_a.append(("resume",))
            for i, t in pending:
                env_o.append(f"start:{i}")
                env_a.append(("start", i))
            if not w.writer.paused and state["pauses"] < 1 and (pending or started):
                env_o.append("pause")
                env_a.append(("pause",))
            if h.get("fail") and not w.writer.broken and w.writer.waiters and not state.get("failed"):
                env_o.append("fail")
                env_a.append(("fail",))
            if not opts:
                # nothing runnable: the environment moves (no deviation for the first enabled event)
                live = [(o, a) for o, a in zip(env_o, env_a) if a[0] not in ("pause", "fail")]
                if not live:
                    break
                opts = [o for o, _ in live]
                acts = [a for _, a in live]
            else:
                opts += env_o
                acts += env_a
            k = s.choose(opts)
            a = acts[k]
            if a[0] == "run":
                loop.step()
            elif a[0] == "release":
                f = parked.pop(0)
                if not f.done():
                    f.set_result(None)
            elif a[0] == "resume":
                w.writer.resume()
            elif a[0] == "pause":
                w.writer.pause()
                state["pauses"] += 1
            elif a[0] == "fail":
                state["failed"] = True
                w.writer.fail(ConnectionResetError)
            elif a[0] == "start":
                i = a[1]
                t = dict(pending)[i]
                pending = [(j, x) for j, x in pending if j != i]
                if t[0] == "send":
                    started[i] = loop.create_task(c.send_msg(FIXMessage("D", {11: t[1], 55: "X"})))
                elif t[0] == "logon":
                    from asyncfix import FMsg
                    started[i] = loop.create_task(c.send_msg(FIXMessage(FMsg.LOGON, {98: 0, 108: 100000})))
                elif t[0] == "logout":
                    from asyncfix import FMsg
                    started[i] = loop.create_task(c.send_msg(FIXMessage(FMsg.LOGOUT)))
                elif t[0] == "sendbad":
                    started[i] = loop.create_task(c.send_msg(FIXMessage("D", {11: "bad", 58: "bad \udc80 text"})))
                elif t[0] == "drop":
                    from asyncfix.connection import ConnectionState
                    started[i] = loop.create_task(c.disconnect(ConnectionState.DISCONNECTED_BROKEN_CONN))
                elif t[0] == "testreq":
                    started[i] = loop.create_task(c.send_test_req())
                elif t[0] == "feed":
                    if t[1] == "rr":
                        fr = refs.frame("2", w.peer_seq, w.T, w.S, [(7, t[2]), (16, 0)])
                    elif t[1] == "tr":
                        fr = refs.frame("1", w.peer_seq, w.T, w.S, [(112, "T1")])
                    elif t[1] == "logon":
                        fr = refs.frame("A", w.peer_seq, w.T, w.S, [(98, 0), (108, 100000)])
                    elif t[1] == "gap":
                        fr = refs.frame("D", w.peer_seq + 2, w.T, w.S, [(11, "early")])
                    w.peer_seq += 1
                    w.reader.feed(fr)
                    started[i] = None
            steps += 1
            if steps > 4000:
                return {"livelock": True}
        results = {}
        for i, t in started.items():
            if t is not None:
                r = task_result(t)
                results[i] = (r[0], type(r[1]).__name__ if r[0] == "exc" else None)
        frames = []
        for raw in (w.writer.attempts[base_attempts:] if (h.get("fail") or h.get("attempts")) else w.writer.out[base_frames:]):
            f, err = refs.try_parse(raw)
            d = refs.fdict(f) if f else {"35": "?"}
            frames.append((d.get("35"), int(d.get("34", 0) or 0), d.get("43"), d.get("11"), d.get("36")))
        pre_frames = []
        for raw in w.writer.out[:base_frames]:
            f, err = refs.try_parse(raw)
            d = refs.fdict(f) if f else {}
            pre_frames.append((d.get("35"), int(d.get("34", 0) or 0), d.get("43"), d.get("11")))
        rows = {seq: m for (_, d, seq, m) in journal_rows(w.j) if d == 1}
        return {"frames": frames, "pre": pre_frames, "results": results, "live_out": num_out(c),
                "stored": committed_counters(jpath, w.T, w.S), "rows": sorted(rows), "state": c.connection_state.name,
                "stuck": [i for i, t in started.items() if t is not None and not t.done()]}
    finally:
        w.close()
        tmp.cleanup()


def judge(hname, obs, s):
    """Returns (signature, clause, detail) or None."""
    if obs.get("livelock"):
        return ("livelock|" + hname, "every schedule terminates", {})
    labels = [l for l in s.labels if not l.startswith("pass:") and l != "run"]
    dev = [s.labels[i] for i, c in enumerate(s.choices) if c]
    devclass = "+".join(sorted(set(x.split(":")[0] + (":" + x.split(":")[1] if x.startswith("park") else "") for x in dev))) or "none"

    def V(what, clause, **kw):
        hclass = "while_servicing_resend_request" if "resend" in hname else "no_resend_service"
        return (f"{what}|{hclass}", clause, dict(kw, harness=hname, deviations=dev, observation=obs))

    if obs["stuck"]:
        return V("task_never_finishes", "after the tasks finish")
    for i, (st, exc) in obs["results"].items():
        if exc == "DuplicateSeqNoError":
            return V("duplicate_seqno_error", "every frame is journaled under its number without a duplicate error", task=i)
    known = {}
    for (t, n, pd, cid) in obs["pre"]:
        known[n] = (t, cid)
    last_new = max([n for (t, n, pd, cid) in obs["pre"] if pd != "Y" and t != "4"] or [0])
    highest = last_new
    for (t, n, pd, cid, new) in obs["frames"]:
        if pd == "Y" or t == "4":
            if t != "4":
                if n not in known or known[n][1] != cid:
                    return V("retransmission_reuses_foreign_number", "only retransmissions reuse a number (their own)", frame=(t, n, cid))
            continue
        if n in known:
            return V("new_message_reuses_number", "new messages appear on the wire with distinct MsgSeqNums", frame=(t, n, cid), earlier=known[n])
        if n <= last_new:
            return V("new_numbers_not_increasing", "strictly increasing MsgSeqNums in wire order", frame=(t, n, cid), previous=last_new)
        known[n] = (t, cid)
        last_new = n
        highest = max(highest, n)
    # a ResendRequest(2, 0) serviced meanwhile must still be answered completely: every journaled
    # application message sent before the request is retransmitted under its own number, in order
    if "resend" in hname:
        want = [(n, cid) for (t, n, pd, cid) in obs["pre"] if t == "D"]
        got = [(n, cid) for (t, n, pd, cid, new) in obs["frames"] if pd == "Y" and t == "D"]
        if got[: len(want)] != want and [g for g in got if g in want] != want:
            return V("resend_reply_incomplete", "the reader services a ResendRequest completely while other tasks send", want=want, got=got)
    # a GapFill tells the peer to skip numbers: it must never cover the number of a message sent as new here
    new_numbers = {n for (t, n, pd, cid, new) in obs["frames"] if pd != "Y" and t != "4"}
    for (t, n, pd, cid, new) in obs["frames"]:
        if t == "4" and new is not None:
            covered = [x for x in new_numbers if n <= x < int(new)]
            if covered:
                return V("gapfill_covers_new_message", "only retransmissions reuse a number (their own); a message sent meanwhile is not skipped over",
                         gapfill=(n, new), covered=covered)
    refused = [i for i, (st, exc) in obs["results"].items() if exc is not None]
    for (t, n, pd, cid, new) in obs["frames"]:
        if pd != "Y" and t != "4" and n not in obs["rows"] and not refused:
            return V("frame_not_journaled", "every frame is journaled under its number", number=n)
    if obs["live_out"] != highest + 1 or (obs["stored"] and obs["stored"][1] != highest + 1):
        which = "live" if obs["live_out"] != highest + 1 else "stored"
        return V(f"next_out_not_highest_plus_one:{which}", "after the tasks finish the stored next outbound number is the highest number sent plus one",
                 highest=highest)
    return None


H = {"name": None}


def _work(item):
    hname, prefix, bound = item
    found = {}
    outcomes = set()

    def r1(s):
        return run_one(hname, s)

    def chk(obs, s):
        v = judge(hname, obs, s)
        outcomes.add(repr((obs.get("frames"), sorted(obs.get("results", {}).items()), obs.get("stored"))))
        if v and v[0] not in found:
            found[v[0]] = {"signature": v[0], "clause": v[1], "detail": v[2],
                           "replay": {"harness": hname, "choices": list(s.choices), "S": CFG["S"], "T": CFG["T"]}}

    st = sched.explore(r1, chk, bound, prefix=prefix, max_exec=CFG.get("max_exec"))
    return st, list(found.values()), len(outcomes)


def run(ctx):
    CFG["S"], CFG["T"] = POOL[ctx.seed % len(POOL)]
    bound = 3 if ctx.quick else 4
    CFG["bound"] = bound
    CFG["max_exec"] = 6000 if ctx.quick else 200000
    names = list(HARNESSES) if not ctx.quick else [n for n in HARNESSES if n != "send_send_send"]
    items = []
    for hn in names:
        # base execution, then one work item per first deviation (subtrees are independent)
        s = sched.Sched([])
        obs = run_one(hn, s)
        s2 = sched.Sched([])
        obs2 = run_one(hn, s2)
        if s.choices != s2.choices or s.nopts != s2.nopts or obs != obs2:
            from mc.runner import HarnessError
            raise HarnessError(f"C14: base schedule of {hn} is not deterministic")
        items.append((hn, [], 0))
        for i in range(len(s.choices)):
            for alt in range(1, s.nopts[i]):
                items.append((hn, s.choices[:i] + [alt], bound))
    ctx.rule = ("all schedules with at most N deviations (inject start of a task / pause or resume of transport writing / release "
                "of a parked hook at any point between two loop callbacks, or suspend inside an awaited application hook) over "
                "harnesses of 2-3 tasks on one active endpoint; every execution runs to completion; non-trivial = schedule with >= 1 deviation")
    ctx.bounds = {"deviation_bound": bound, "harnesses": names, "subtrees": len(items), "max_exec_per_subtree": CFG["max_exec"]}
    res = ctx.pmap(_work, items, chunk=1)
    ex = pts = 0
    per = {}
    for (hn, p, b), (st, found, nout) in zip(items, res):
        ex += st["executions"]
        pts += st["points"]
        per[hn] = per.get(hn, 0) + st["executions"]
        if st["capped"]:
            ctx.cap(f"{hn}: subtree {p} capped at {CFG['max_exec']} executions")
        ctx.merge_violations(found)
        ctx.outcomes.add((hn, nout))
    ctx.bounds["executions_per_harness"] = per
    ctx.count(states=ex, transitions=pts, traces=ex, evaluations=ex, nontrivial=ex - len(names))
    for it in items[:: max(1, len(items) // 4)][:4]:
        ctx.sample({"harness": it[0], "prefix": it[1]})
    ctx.assumptions += ["asyncio ready queue is FIFO and drain() waiters wake in FIFO order (CPython 3.12 loop reused, not modelled)",
                        "application hooks do not send"]


def replay(ctx, rep):
    CFG["S"], CFG["T"] = rep.get("S", "SRV"), rep.get("T", "CLI")
    s = sched.Sched(rep["choices"])
    obs = run_one(rep["harness"], s)
    v = judge(rep["harness"], obs, s)
    if v:
        return [{"signature": v[0], "clause": v[1], "detail": v[2]}]
    return []
