"""C05 - outbound messages are numbered consecutively and journaled under that number.

Explorer A over one real endpoint: send attempts of every class in every
reachable connection state, interleaved with inbound frames that cause sends.
Oracle R3 (send monitor) after every event.
"""
from mc import bfs, refs
import os

from mc.world import World1, num_in, num_out, journal_rows, conn_key, task_result, TmpDir, committed_counters

POOL = [("SRV", "CLI"), ("ACC", "INI"), ("S1", "T1"), ("EXCH", "FIRM")]
CFG = {"S": "SRV", "T": "CLI", "quick": True}

SENDS = ("app", "hb", "logon", "logout", "tr_direct", "tr_api", "sr_nonum", "sr_num", "pd_copy", "app_grp", "app_pdn", "app_bad", "type_bad", "type_soh", "type_empty")
INBOUND = ("logon", "app", "tr", "gap_app", "rr1", "rr2", "gapfill", "logout", "hb")


def mk_msg(kind, c, uid):
    from asyncfix import FIXMessage, FMsg, FTag

    if kind == "app":
        return FIXMessage("D", {11: f"o{uid}", 55: "X"})
    if kind == "app_pdn":
        # a NEW message that spells out PossDupFlag=N and still carries a stale MsgSeqNum (forwarded / template message)
        return FIXMessage("D", {11: f"n{uid}", FTag.PossDupFlag: "N", FTag.MsgSeqNum: 40})
    if kind == "app_grp":
        # repeating group + non-ASCII text (utf-8 on the wire)
        return FIXMessage("D", {11: f"g{uid}", 453: [{448: "p", 447: "D", 452: 1}], 58: "Z\u00fcrich \u6771\u4eac"})
    if kind == "app_bad":
        # a message that cannot be put on the wire (text with a lone surrogate is not encodable as utf-8): whatever the
        # send call does with it, the numbering of the messages that do leave stays gap-free
        return FIXMessage("D", {11: f"b{uid}", 58: "bad \udc80 text"})
    if kind == "type_bad":
        return FIXMessage("U\udcff", {11: f"t{uid}"})  # custom MsgType that is not encodable as utf-8
    if kind == "type_soh":
        return FIXMessage("U\x01X", {11: f"s{uid}"})  # MsgType that would break the framing: refused by the encoder
    if kind == "type_empty":
        return FIXMessage("", {11: f"e{uid}"})  # no MsgType at all: refused by the encoder
    if kind == "hb":
        return FIXMessage(FMsg.HEARTBEAT)
    if kind == "logon":
        return FIXMessage(FMsg.LOGON, {FTag.EncryptMethod: 0, FTag.HeartBtInt: 100000})
    if kind == "logout":
        return FIXMessage(FMsg.LOGOUT)
    if kind == "tr_direct":
        return FIXMessage(FMsg.TESTREQUEST, {FTag.TestReqID: "x"})
    if kind == "sr_nonum":
        return FIXMessage(FMsg.SEQUENCERESET, {FTag.GapFillFlag: "Y", FTag.NewSeqNo: num_out(c) + 1})
    if kind == "sr_num":
        return FIXMessage(FMsg.SEQUENCERESET, {FTag.GapFillFlag: "Y", FTag.MsgSeqNum: max(1, num_out(c) - 1), FTag.NewSeqNo: num_out(c)})
    if kind == "pd_copy":
        return FIXMessage("D", {11: f"d{uid}", FTag.PossDupFlag: "Y", FTag.MsgSeqNum: max(1, num_out(c) - 1)})
    raise ValueError(kind)


def _row_class(raw):
    """What of a journal row can influence a later step: every field except times / checksum / length,
    ids reduced to their class (the trailing counter of the harness' ClOrdIDs is dropped)."""
    f, _ = refs.try_parse(raw)
    if not f:
        return ("?",)
    return tuple((t, (v.decode("latin-1").rstrip("0123456789") if t == "11" else v.decode("latin-1")))
                 for t, v in f if t not in ("9", "10", "52", "122"))


class Sim:
    def __init__(self, root):
        _, role, start_out, S, T = root[:5]
        self.root = root
        from asyncfix import Journaler

        # file-backed journal: "stored" counters are read through a brand-new connection (committed data only)
        self.tmp = TmpDir()
        self.path = os.path.join(self.tmp.path, "j.db")
        self.w = World1(role, S=S, T=T, next_out=start_out, next_in=1, journal=Journaler(self.path))
        if len(root) > 5 and root[5] == "discsend":
            self.w.c.send_on_disconnect = True  # the application tries to send from its on_disconnect callback
        if len(root) > 5 and root[5] == "hookdrop":
            # the application drops the connection from inside on_state_change(LOGON_INITIAL_SENT): the Logon that is
            # being sent finds the connection closed when the callback returns and is refused
            self.w.c.drop_on_state = {"LOGON_INITIAL_SENT"}
        self.ref_next = start_out  # number the next NEW message must carry
        self.sent = {}  # number -> set of bytes written under that number (any kind)
        self.new_numbers = []
        self.resend_ranges = []  # (begin) of ResendRequests received: numbers >= begin are exempt from row checks
        self.uid = 0
        self.peer_seq = 1
        self.tainted = None
        self.connected = False
        self.nt = False

    @classmethod
    def build(cls, hist):
        s = cls(hist[0])
        for ev in hist[1:]:
            s.apply(ev)
        return s

    def close(self):
        self.w.close()
        self.tmp.cleanup()

    def nontrivial(self):
        return self.nt

    def enabled(self):
        evs = []
        c = self.w.c
        if not self.connected:
            evs.append(("connect",))
        for k in SENDS:
            evs.append(("send", k))
        if self.connected and c.connection_state.name == "ACTIVE":
            evs.append(("send_fail", "app"))
        if self.connected and c.connection_state.value > 3 and self.w.reader is not None:
            for k in INBOUND:
                evs.append(("in", k))
            evs.append(("eof",))
        return evs

    def key(self):
        c = self.w.c
        rows = tuple((d, seq, _row_class(m) if d == 1 else None) for (_, d, seq, m) in journal_rows(self.w.j))
        return (self.root, conn_key(c), rows, self.ref_next, self.peer_seq, self.connected, tuple(self.resend_ranges[-1:]),
                committed_counters(self.path, self.w.T, self.w.S))

    # ------------------------------------------------------------------
    def apply(self, ev):
        w, c = self.w, self.w.c
        self.uid += 1
        kind = ev[0]
        st = c.connection_state.name
        live_before = (num_in(c), num_out(c))
        stored_before = committed_counters(self.path, w.T, w.S)
        rows_before = {(d, seq): m for (_, d, seq, m) in journal_rows(w.j)}
        nframes_before = len(w.writer.out) if w.writer else 0
        res = None
        rr_begin = None
        if kind == "connect":
            w.connect()
            self.connected = True
            nframes_before = 0
        elif kind == "send":
            if ev[1] == "tr_api":
                res = w.call(c.send_test_req())
            else:
                res = w.call(c.send_msg(mk_msg(ev[1], c, self.uid)))
        elif kind == "send_fail":
            # the transport fails while this frame is handed over: whatever was handed to write() under a number
            # must be readable from the journal under that number, the next new message takes the next number
            w.writer.fail()
            natt = len(w.writer.attempts)
            res = w.call(c.send_msg(mk_msg("app", c, self.uid)))
            w.writer.broken = None
            handed = w.writer.attempts[natt:]
            for b in handed:
                f, err = refs.try_parse(b)
                if f is None:
                    continue
                d = refs.fdict(f)
                n = int(d.get("34", "0") or 0)
                if n != self.ref_next:
                    return self._v("new_number_not_consecutive", f"send_fail:app:state:{st}", "every new message leaves with a MsgSeqNum exactly one greater than the previous new message", ev, {"number": n, "ref_next": self.ref_next})
                self.ref_next += 1
                self.new_numbers.append(n)
                self.nt = True
                row = {(dd, seq): m for (_, dd, seq, m) in journal_rows(w.j)}.get((1, n))
                if row != b:
                    return self._v("journal_row_not_bytes", f"send_fail:app:state:{st}", "the exact bytes sent can be read back from the journal under that number", ev, {"row": row, "sent": b})
            if not handed and num_out(c) != live_before[1]:
                # nothing was handed to the transport but a number is gone: the next message would leave a hole
                self.ref_next = num_out(c)
        elif kind == "in":
            k = ev[1]
            n = self.peer_seq
            if k == "logon":
                fr = refs.frame("A", n, w.T, w.S, [(98, 0), (108, 100000)])
            elif k == "app":
                fr = refs.frame("D", n, w.T, w.S, [(11, f"p{self.uid}")])
            elif k == "hb":
                fr = refs.frame("0", n, w.T, w.S)
            elif k == "tr":
                # TestReqID in a single-byte charset (not valid utf-8) with '=' inside: the echo must still be a frame
                fr = refs.frame("1", n, w.T, w.S, [(112, b"PING=\xe9\xfc")])
            elif k == "gap_app":
                n = self.peer_seq + 2
                fr = refs.frame("D", n, w.T, w.S, [(11, f"q{self.uid}")])
            elif k in ("rr1", "rr2"):
                rr_begin = 1 if k == "rr1" else max(1, self.ref_next - 1)
                fr = refs.frame("2", n, w.T, w.S, [(7, rr_begin), (16, 0)])
            elif k == "gapfill":
                e = num_in(c)
                fr = refs.frame("4", e, w.T, w.S, [(123, "Y"), (36, max(self.peer_seq, e + 1))], extra_header=[(43, "Y")])
                n = max(self.peer_seq, e + 1) - 1
            elif k == "logout":
                fr = refs.frame("5", n, w.T, w.S)
            self.peer_seq = n + 1
            w.feed(fr)
        elif kind == "eof":
            w.reader.feed_eof()
            w.run()
        if w.livelock:
            return self._v("livelock", f"{ev[0]}:{ev[1] if len(ev) > 1 else ''}:{st}", "every event is processed to quiescence", ev, {})
        if c.connection_state.value <= 3:
            self.connected = False
        written = (w.writer.out[nframes_before:] if w.writer else [])
        det = {"event": ev, "state_before": st, "state_after": c.connection_state.name, "live_before": live_before,
               "stored_before": stored_before, "result": repr(res), "written": [], "ref_next": self.ref_next}
        # ---- classify written frames --------------------------------------
        cause_ctx = f"{ev[0]}:{(ev[1] if len(ev) > 1 else '').replace('rr1', 'rr').replace('rr2', 'rr')}"
        in_resend = rr_begin is not None
        for b in written:
            f, err = refs.try_parse(b)
            if f is None:
                continue  # framing is C02's business
            d = refs.fdict(f)
            det["written"].append((d.get("35"), d.get("34"), d.get("43")))
            n = int(d.get("34", "0") or 0)
            self.sent.setdefault(n, set()).add(b)
            is_new = d.get("43") != "Y" and d.get("35") != "4"
            if kind == "send" and ev[1] in ("sr_num", "pd_copy"):
                is_new = False
            if is_new:
                self.nt = True
                if n != self.ref_next:
                    tag = ("during_resend_service" if in_resend else f"state:{st}")
                    if self.tainted:
                        tag += f"|after:{self.tainted}"
                    return self._v("new_number_not_consecutive", f"{cause_ctx}:{tag}", "every new message leaves with a MsgSeqNum exactly one greater than the previous new message, starting from the stored counter", ev, det)
                self.ref_next += 1
                self.new_numbers.append(n)
                if not in_resend:
                    row = {(dd, seq): m for (_, dd, seq, m) in journal_rows(w.j)}.get((1, n))
                    if res is not None and res[0] == "exc":
                        pass  # the send itself failed after the write (transport error): C09's business
                    elif row != b:
                        return self._v("journal_row_not_bytes", f"{cause_ctx}:state:{st}", "the exact bytes sent can be read back from the journal under that number", ev, dict(det, row=row, sent=b))
        # ---- refused sends ------------------------------------------------------
        if kind == "send" and res is not None and res[0] == "exc":
            from asyncfix.errors import FIXConnectionError

            if isinstance(res[1], FIXConnectionError):
                rows_after = {(d, seq): m for (_, d, seq, m) in journal_rows(w.j)}
                changed = []
                if written:
                    changed.append("bytes_written")
                if (num_in(c), num_out(c)) != live_before:
                    changed.append("live_counter")
                if committed_counters(self.path, w.T, w.S) != stored_before:
                    changed.append("stored_counter")
                if rows_after != rows_before:
                    changed.append("journal_rows")
                if changed:
                    return self._v("refused_send_side_effect", f"{ev[1]}:state:{st}:{'+'.join(changed)}", "a send refused because of the connection state consumes no number and leaves no journal entry", ev, dict(det, changed=changed))
        if rr_begin is not None:
            self.resend_ranges.append(rr_begin)
            self.tainted = self.tainted or None
        # ---- counters at quiescence ------------------------------------------------
        live_out = num_out(c)
        sc = committed_counters(self.path, w.T, w.S)
        if self.new_numbers or kind == "connect":
            want = self.ref_next
            if live_out != want or (sc is not None and sc[1] != want):
                which = []
                if live_out != want:
                    which.append("live")
                if sc is not None and sc[1] != want:
                    which.append("stored")
                tag = "after_resend_request" if self.resend_ranges else "no_resend"
                send_failed = res is not None and res[0] == "exc" and written
                if send_failed:
                    tag += ":transport_error"
                return self._v("next_out_not_last_plus_one", f"{'+'.join(which)}:{cause_ctx}:{tag}", "the stored next-outbound number equals the last number sent plus one", ev, dict(det, live_out=live_out, stored=sc, want=want))
        return None

    def _v(self, what, cause, clause, ev, det):
        return {"signature": f"{what}|{cause}", "clause": clause, "detail": det}


def roots():
    outs = (1, 7) if CFG["quick"] else (1, 7, 2 ** 31 - 1)
    rs = [(("root", role, so, CFG["S"], CFG["T"]),) for role in ("initiator", "acceptor") for so in outs]
    return rs + [(("root", "acceptor", 1, CFG["S"], CFG["T"], "discsend"),), (("root", "initiator", 7, CFG["S"], CFG["T"], "hookdrop"),)]


def run(ctx):
    CFG["S"], CFG["T"] = POOL[ctx.seed % len(POOL)]
    CFG["quick"] = ctx.quick
    depth = 5 if ctx.quick else 7
    ctx.rule = ("BFS over histories of one endpoint: connect, send attempts of every class (application, group, Heartbeat, "
                "Logon, Logout, TestRequest direct / via API, SequenceReset with/without number, PossDup copy) in every "
                "reachable state, inbound frames that cause sends (Logon, TestRequest, too-high frame, ResendRequest, "
                "GapFill, Logout), EOF; both roles; start counters; non-trivial = history in which a new message was written")
    ctx.bounds = {"depth": depth, "sends": len(SENDS), "inbound": len(INBOUND), "roots": len(roots())}
    st = bfs.explore(ctx, Sim, roots(), depth, max_states=(120000 if ctx.quick else 1500000), label="C05")
    ctx.bounds.update(st)
    ctx.outcomes.update(v["signature"].split("|")[0] for v in ctx.violations.values())
    ctx.outcomes.add("ok")
    ctx.assumptions += ["journal is in-memory sqlite (durability is C08/C09)", "peer frames from the independent encoder"]


def replay(ctx, rep):
    hist = [tuple(e) for e in rep["hist"]]
    s = Sim(hist[0])
    out = []
    try:
        for ev in hist[1:]:
            v = s.apply(ev)
            if v:
                out.append(v)
                break
    finally:
        s.close()
    return out
