"""C20 - the bundled test helper fabricates valid, consistent counterparty traffic.

(a) Fabrication.  BFS over the order states reachable by fabricate-and-process
    chains on the REAL objects (FIXTester(schema=None), FIXNewOrderSingle); in
    every reachable state the full argument grid of fix_exec_report_msg is
    called, plus a cancel/replace reject for every request kind x status, plus
    every session-message factory.  Whatever the helper returns (any exception
    raised by the helper itself = "refused" = out of scope) is judged by an
    oracle that knows nothing of the helper: dictionary validity
    (FIXSchema.validate on tests/FIX44.xml from outside the helper + an
    independent reading of the XML), CumQty+LeavesQty <= OrderQty, LeavesQty = 0
    for finished statuses, fresh ExecID, stable OrderID (also for two reports
    fabricated in a row before the first is processed), processed by the order
    object without an exception.
    One helper call costs ~19 us and the grid has 1-2.5 x 10^5 points per state,
    so chains are extended only with reports / rejects that an exchange keeping
    its books could send (small model: Track / plausible); every other accepted
    report is still judged and processed one step deep (thorough tier: the
    states such reports lead to from the first levels are expanded as leaves).
(b) Fidelity.  Every clean session script up to a length bound is run once
    against FIXTester(connection=conn) and once against a real
    AsyncFIXDummyServer on a fake link (props/c20_world.py); the initiator's
    written frames, received frames, state sequence, callbacks, deliveries and
    counters are compared after every step.
"""
import copy
from decimal import Decimal, InvalidOperation
import os
import re
import time as _time
from math import isfinite, nan

from mc.runner import HarnessError
from mc.world import dict_of

from props import c20_world
from props.c20_dict import RefDict

# FIX 4.4 code sets, written down from the specification (not taken from the enums)
EXEC_TYPES = ["0", "3", "4", "5", "6", "7", "8", "9", "A", "B", "C", "D", "E", "F", "G", "H", "I"]
ORD_STATUSES = ["0", "1", "2", "3", "4", "6", "7", "8", "9", "A", "B", "C", "D", "E"]
FINISHED = {"2", "4", "8", "C"}  # filled, canceled, rejected, expired

# presentation only (rotated by VERIF_SEED)
POOL = [
    ("ord", "US.F.TICKER", "1", 200.0, "000000"),
    ("clordTest", "MSFT", "2", 99.5, "ACC-1"),
    ("A7", "VOD.L", "1", 10.25, "000000"),
    ("x-y", "ES", "2", 4321.0, "7"),
]
# the same with non-ASCII text in the text-like arguments of the fabrication API (ticker, account of the order):
# Latin-1 high, BMP, CJK and one astral character
POOL_U = [
    ("ord", "M\u00dcL.\u20ac", "1", 200.0, "M\u00fcller-\u00d1and\u00fa \u6f22\u5b57 \U0001f600"),
    ("clordTest", "\u6f22\u5b57.L", "2", 99.5, "caf\u00e9-\u20ac-\U0001f600"),
    ("A7", "\u00d1AND\u00da", "1", 10.25, "\U0001f600 \u00fc \u20ac \u5b57"),
    ("x-y", "\u20acUR\U0001f600", "2", 4321.0, "M\u00fcller \u6f22"),
]
QTY_A, QTY_B = 10, 12  # the two order quantities (q and q')

CL_VALID = "the execution reports, cancel rejects and session messages it fabricates validate against the FIX 4.4 dictionary"
CL_SUM = "carry quantities with CumQty + LeavesQty not above OrderQty"
CL_FIN = "LeavesQty zero for finished statuses"
CL_EXEC = "use a fresh ExecID each time"
CL_OID = "a stable OrderID per order"
CL_PROC = "are processed by the order object without error"

CHECK_REJECT_ORDERID = True  # a cancel reject must carry the OrderID of the order's execution reports
# (depth, last level whose states also emit arbitrary accepted reports as leaf states, state budget) of the fabrication BFS; script length of the fidelity part
A_QUICK, A_THOROUGH = (5, -1, 400), (7, 2, 3000)
AU_QUICK, AU_THOROUGH = 1, 3  # BFS depth of the second pass with the non-ASCII order
AM_THOROUGH = 5  # thorough: full BFS depth for the market-order subclass (quick: directed chains, see SPINES)
# order quantities (q, q') of the profiles that do not use (QTY_A, QTY_B)
PROFILE_QTY = {"tiny": (2e-05, 1e16), "frac": (0.75, 1.25), "tiny7": (2.43e-05, 3.17e-05), "tiny8": (2.431e-05, 3.173e-05)}
# profiles whose directed chain also gets the split probe (probe_splits): order quantities below 1e-4 (Python writes such
# floats with an exponent) with 7 / 8 decimals = 243 / 2431 units of their own last decimal place
SPLIT_PROFILES_QUICK, SPLIT_PROFILES_THOROUGH = ["tiny7"], ["tiny7", "tiny8"]
SPLIT_PROFILES = []  # set by run()
SPLIT_MAX_UNITS = 5000
FOREIGN_CLORD = "somebody-else--1"
HAND_ORDER_ID = "X77"  # OrderID of the hand-made acknowledgement (profile "resession")
B_QUICK, B_THOROUGH = 5, 6
# other public state-touching helper methods as chain ops: states of level <= these bounds also emit the state after
# reset_messages() / after registering a second order as a leaf state (full grid, not extended): (reset, second order)
H_QUICK, H_THOROUGH = (2, -1), (2, 1)
HELPER_LEAF = [-1, -1]  # set by run() before the workers are forked
PROBE_REPORTS = 2  # reports re-fabricated after each helper method at the end of every grid slice
FULL_LIB = False  # thorough tier: FIXSchema.validate on every distinct message content
_G = {}  # per-process lazies: library schema, reference dictionary, enum maps, validation cache


def _fix44_path():
    repo = os.environ.get("VERIF_REPO", "/repo")
    p = os.path.join(repo, "tests", "FIX44.xml")
    if not os.path.exists(p):
        p = "/repo/tests/FIX44.xml"
    if not os.path.exists(p):
        raise HarnessError("tests/FIX44.xml not found")
    return p


def G():
    if not _G:
        from asyncfix.protocol import FIXSchema
        from asyncfix.protocol.common import FExecType, FOrdStatus

        try:
            _G["ET"] = {v: FExecType(v) for v in EXEC_TYPES}
            _G["ST"] = {v: FOrdStatus(v) for v in ORD_STATUSES}
            _G["ST"]["Z"] = FOrdStatus.CREATED  # member of the helper's own enum, not a FIX status (probes only)
        except ValueError as e:
            raise HarnessError(f"enum member missing: {e}")
        p = _fix44_path()
        _G["lib"] = FIXSchema(p)
        _G["ref"] = RefDict(p)
        _G["vcache"] = {}
    return _G


# --------------------------------------------------------------------------
# validity oracle (outside the helper)
# --------------------------------------------------------------------------

def _errclass(e):
    """Coarse, value-free class of a validator complaint."""
    s = str(e)
    field = ""
    for key in ("Field=", "field="):
        if key in s:
            field = s.split(key, 1)[1].split()[0].split("|")[0].strip("(),")
            break
    if not field and "SchemaField(" in s:
        field = s.split("SchemaField(", 1)[1].split("|")[0]
    if not field and "tag=" in s:
        field = "tag" + s.split("tag=", 1)[1].split()[0]
    for k in ("Missing required", "expected to be one of", "not allowed in", "not in schema",
              "validation error", "must be a group", "must be a tag"):
        if k in s:
            return f"{type(e).__name__}:{k.replace(' ', '_')}:{field}"
    return f"{type(e).__name__}:{field}"


EXP_RE = re.compile(r"^[-+]?(\d+\.?\d*|\.\d+)[eE][-+]?\d+$")
NONFINITE = {"nan", "inf", "+inf", "-inf", "infinity", "+infinity", "-infinity"}
PRICE_TAGS = {"44", "6", "31", "99"}


def _errtag(e):
    """Tag the validator's complaint is about (None if it cannot be told)."""
    s = str(e)
    m = re.search(r"(\w+)\|(\d+)", s)
    if m:
        return m.group(2)
    m = re.search(r"[Ff]ield=(\w+)", s)
    if m:
        f = G()["ref"].by_name.get(m.group(1))
        if f:
            return f["tag"]
    m = re.search(r"tag=(\d+)", s)
    return m.group(1) if m else None


def validity(m, kind):
    """list of cause strings; empty when both readings of the dictionary accept m.

    The independent reading judges every message.  FIXSchema.validate costs ~0.6 ms
    per call whatever the content, so it is applied in full to every message that
    shows a tag set or a (tag, value) pair it has not yet seen in this process
    (all of them when FULL_LIB is set: thorough tier), and to every message the
    independent reading complains about.  A complaint both readings share is one cause;
    numbers in exponent notation / non-finite numbers are one cause class each."""
    g = G()
    d = dict_of(m)
    mt = str(m.msg_type)
    ref_c = list(g["ref"].complaints(mt, d))
    norm = tuple((t, "#" if t in ("17", "37") and v.isdigit() else v) for t, v in d.items())
    seen = g["vcache"]
    if FULL_LIB:
        fresh = (mt, norm) not in seen
        seen[(mt, norm)] = True
    else:
        keys = [(mt, tuple(t for t, _ in norm))] + [(mt, t, v) for t, v in norm]
        fresh = False
        for k in keys:
            if k not in seen:
                seen[k] = True
                fresh = True
    lib_c = None  # (class string, tag or None)
    if fresh or ref_c:
        g["lib_calls"] = g.get("lib_calls", 0) + 1
        try:
            ok = g["lib"].validate(m)
            if ok is not True:
                lib_c = (f"returned_{ok!r}", None)
        except Exception as e:  # any exception of the validator = does not validate
            lib_c = (_errclass(e), _errtag(e))
    if not ref_c and lib_c is None:
        return []
    res = []
    blamed = {t for _r, t in ref_c} | ({lib_c[1]} if lib_c and lib_c[1] else set())
    handled = set()
    for t in sorted(blamed, key=lambda x: int(x) if x.isdigit() else 0):
        v = d.get(t)
        if isinstance(v, str) and EXP_RE.match(v):
            res.append(f"{kind}:number_in_exponent_notation:{'price' if t in PRICE_TAGS else 'quantity'}")
            handled.add(t)
        elif isinstance(v, str) and v.lower() in NONFINITE:
            res.append(f"{kind}:non_finite_number:{t}")
            handled.add(t)
    res = sorted(set(res))
    lib_used = False
    for reason, t in ref_c:
        if t in handled:
            continue
        if lib_c and lib_c[1] == t:
            res.append(f"{kind}:{reason}:{t}")
            lib_used = True
        else:
            res.append(f"{kind}:ref:{reason}:{t}")
    if lib_c and not lib_used and lib_c[1] not in handled:
        res.append(f"{kind}:lib:{lib_c[0]}")
    return res


# --------------------------------------------------------------------------
# real objects + the harness-side exchange model
# --------------------------------------------------------------------------

class Track:
    """What the harness knows independently about the chain so far: the ids it has
    seen and a small exchange-side model of the order (R8-lite) - what the simulated
    exchange has said so far.  Never read back from the order object."""

    def __init__(self, price, qa=QTY_A, qb=QTY_B):
        self.qa, self.qb = qa, qb
        self.prev_id = None  # ClOrdID the order had before its last cancel / replace request
        self.replaced_id = None  # ClOrdID that a processed REPLACED report has retired
        self.request_by_order = False  # last request was built by order.cancel_req() / replace_req() directly
        self.exec_ids = set()
        self.order_id = None  # OrderID of the first execution report fabricated for the order
        self.reqs = {}  # "F"/"G" -> last request message of that kind
        self.qty = qa
        self.price = price
        self.cum = 0
        self.leaves = 0  # nothing reported yet
        self.pending = None  # request kind waiting for an answer
        self.finished = False
        self.reset_after_report = False  # reset_messages() was called after at least one report was fabricated
        self.second = None  # a second order registered with the same helper
        self.sessions = 1  # helper instances the order has been handled by (op "newft")
        self.hand_acked = False  # acknowledged by hand-made reports, never by a helper (op "hand_ack")
        self.first_seen_by_request = False  # this helper instance got to know the order through fix_cxl/rep_request

    def clone(self):
        t = Track(self.price, self.qa, self.qb)
        t.prev_id, t.replaced_id, t.request_by_order = self.prev_id, self.replaced_id, self.request_by_order
        t.exec_ids = set(self.exec_ids)
        t.order_id, t.reqs, t.qty = self.order_id, dict(self.reqs), self.qty
        t.cum, t.leaves, t.pending, t.finished = self.cum, self.leaves, self.pending, self.finished
        t.reset_after_report, t.second = self.reset_after_report, self.second
        t.names = getattr(self, "names", None)
        t.sessions, t.hand_acked, t.first_seen_by_request = self.sessions, self.hand_acked, self.first_seen_by_request
        return t

    def model_key(self):
        return (float(self.qty), float(self.price), float(self.cum), float(self.leaves), self.pending, self.finished,
                self.reset_after_report, self.second is not None, self.sessions, self.hand_acked,
                self.first_seen_by_request, self.request_by_order)

    def after_report(self, op):
        _, cl, et, st, cum, lv, last, px, oq, orig = op[:10]
        if et == "5":
            self.replaced_id = self.prev_id
        if cum is not None:
            self.cum = cum
        if lv is not None:
            self.leaves = lv
        if et == "5":
            if oq is not None:
                self.qty = oq
            if px is not None:
                self.price = px
            self.pending = None
        if st in FINISHED:
            self.finished = True
            self.pending = None


# (ExecType, OrdStatus) pairs of the FIX 4.4 order state change matrices the model lets the exchange send
PLAUSIBLE = {("A", "A"), ("0", "0"), ("8", "8"), ("F", "1"), ("F", "2"), ("4", "4"), ("6", "6"), ("E", "E"),
             ("5", "0"), ("5", "1"), ("C", "C"), ("9", "9"), ("3", "3"), ("7", "7"), ("B", "B")}


def plausible(tr, op):
    """Would an exchange that keeps its books send this report now? (chains are built from these only)"""
    _, cl, et, st, cum, lv, last, px, oq, orig = op
    if tr.finished:
        return False
    pair = (et, st)
    if pair not in PLAUSIBLE and not (et == "F" and ((st == "6" and tr.pending == "F") or (st == "E" and tr.pending == "G"))):
        return False
    if (px is not None or oq is not None) and et != "5":
        return False
    if et == "5" and (tr.pending != "G" or (px is None and oq is None)):
        return False
    if et == "6" and tr.pending != "F":
        return False
    if et == "E" and tr.pending != "G":
        return False
    eff = tr.qty if oq is None else oq
    cum_eff = tr.cum if cum is None else cum
    lv_eff = tr.leaves if lv is None else lv
    if et == "F":
        if not (cum_eff > tr.cum and last is not None and last == cum_eff - tr.cum):
            return False
        if st in ("1", "2") and (st == "2") != (cum_eff == eff):
            return False
    else:
        if cum_eff != tr.cum or last is not None:
            return False
        if et == "5" and (st == "1") != (cum_eff > 0):
            return False
    if cum_eff > eff:
        return False
    if st in FINISHED:
        return lv_eff == 0
    if st == "A" and lv is None:
        return True
    return lv_eff == eff - cum_eff


def plausible_reject(tr, kind, st):
    if tr.finished or tr.pending != kind:
        return False
    return st == ("0" if tr.cum == 0 else "1")


def new_state(names):
    from asyncfix import FIXTester
    from asyncfix.protocol.order_single import FIXNewOrderSingle

    root, ticker, side, price, account = names[:5]
    ft = FIXTester(schema=None)
    qa, qb = PROFILE_QTY.get(profile_of(names), (QTY_A, QTY_B))
    if profile_of(names).startswith("market"):
        o = market_class()(root, ticker, side=side, price=price, qty=qa, account=account, ord_type="1")
    elif profile_of(names) == "plain_market":
        o = FIXNewOrderSingle(root, ticker, side=side, price=price, qty=qa, account=account, ord_type="1")
    else:
        o = FIXNewOrderSingle(root, ticker, side=side, price=price, qty=qa, account=account)
    return ft, o, Track(price, qa, qb)


def profile_of(names):
    return names[5] if len(names) > 5 else "limit"


def market_class():
    """Order subclass using the documented set_price_qty() hook to leave Price out (market order)."""
    if "market" not in _G:
        from asyncfix import FTag
        from asyncfix.protocol.order_single import FIXNewOrderSingle

        class MarketOrder(FIXNewOrderSingle):
            def set_price_qty(self, ord_msg, price, qty):
                ord_msg[FTag.OrderQty] = qty

        G()["market"] = MarketOrder
    return _G["market"]


def hand_report(o, names, exec_id, et, st, leaves):
    """Execution report written by hand (not by the helper) for the order's current ClOrdID."""
    from asyncfix import FIXMessage, FMsg

    return FIXMessage(FMsg.EXECUTIONREPORT, {11: o.clord_id, 37: HAND_ORDER_ID, 17: exec_id, 150: et, 39: st,
                                             54: names[2], 55: names[1], 38: QTY_A, 44: names[3], 151: leaves,
                                             14: 0, 6: 0})


# ---- directed chains (profiles with a spine): only these ops extend a chain
def _is_rep_qty(op):
    return op[0] == "rep" and op[1] is None and op[2] is not None


def spine_market(tr, path, op):
    if op[0] == "cxl" or _is_rep_qty(op) or op[0] == "rej":
        return True
    if op[0] == "er":
        _, cl, et, st, cum, lv, last, px, oq, orig = op
        return (et == "5" and st == "0" and cl == "cur" and cum is None and last is None and px is None
                and oq is not None and lv == oq - tr.cum and orig is None)
    return False


def spine_resession(tr, path, op):
    return op[0] == "cxl" or _is_rep_qty(op)


ACK_CHAIN = [["new"], ["reg"], ["er", "cur", "A", "A", None, None, None, None, None, None],
             ["er", "cur", "0", "0", None, QTY_A, None, None, None, None]]
# profile -> (spine predicate, root paths, depth below the roots)
SPINES = {
    "market": (spine_market, [ACK_CHAIN], 1),
    "resession": (spine_resession, [ACK_CHAIN + [["newft"]], [["hand_ack"]], ACK_CHAIN + [["ocxl"]],
                                    ACK_CHAIN + [["orep", None, QTY_B]]], 1),
}


def on_spine(names, tr, path, op):
    sp = SPINES.get(profile_of(names))
    return sp is None or sp[0](tr, path, op)


def _f(x):
    return nan if x is None else x


def er_call(ft, o, op):
    """Call the helper with the concrete arguments of an 'er' op.  Optional 11th element: {"clord": literal
    ClOrdID argument (cl says what kind it is), "avg": avg_price argument}."""
    g = G()
    _, cl, et, st, cum, lv, last, px, oq, orig = op[:10]
    extra = op[10] if len(op) > 10 and op[10] else {}
    if "clord" in extra:
        clord = extra["clord"]
    else:
        clord = o.clord_id if cl == "cur" else o.orig_clord_id
    origv = None if orig is None else (o.orig_clord_id or o.clord_id)
    kw = {"avg_price": float(extra["avg"])} if "avg" in extra else {}
    return ft.fix_exec_report_msg(o, clord, g["ET"][et], g["ST"][st], _f(cum), _f(lv), _f(last),
                                  _f(px), _f(oq), origv, **kw)


HELPER_METHODS = {"reset": "reset_messages", "reg_again": "registering_the_order_again",
                  "reg2": "registering_a_second_order"}


def helper_method(ft, o, name):
    """The helper's other public state-touching methods.  Returns the second order for 'reg2'."""
    from asyncfix.protocol.order_single import FIXNewOrderSingle

    if name == "reset":
        ft.reset_messages()
    elif name == "reg_again":
        ft.order_register_single(o)
    elif name == "reg2":
        o2 = FIXNewOrderSingle(o.clord_id_root + "B", o.ticker, side=o.side, price=o.price, qty=QTY_A,
                               account=o.account)
        ft.order_register_single(o2)
        return o2
    else:
        raise HarnessError(f"unknown helper method {name}")
    return None


def apply_op(ft, o, tr, op):
    """Execute one chain op on the real objects (raises whatever they raise)."""
    k = op[0]
    if k == "reg":
        ft.order_register_single(o)
    elif k == "new":
        o.new_req()
    elif k in HELPER_METHODS:
        o2 = helper_method(ft, o, k)
        if k == "reset" and tr.exec_ids:
            tr.reset_after_report = True
        if o2 is not None:
            tr.second = o2
    elif k == "newft":
        # a second session: a fresh helper instance meets an order acknowledged through the earlier one
        from asyncfix import FIXTester

        ft = FIXTester(schema=None)
        tr.exec_ids = set()  # ExecIDs are per helper instance
        tr.reqs = {}
        tr.sessions += 1
    elif k == "hand_ack":
        # the order is sent and acknowledged by hand-made reports; the helper has not seen it yet
        o.new_req()
        for eid, et, st, lv in (("h1", "A", "A", 0), ("h2", "0", "0", QTY_A)):
            o.process_execution_report(hand_report(o, tr.names, eid, et, st, lv))
        tr.order_id = HAND_ORDER_ID
        tr.leaves = QTY_A
        tr.hand_acked = True
    elif k == "cxl":
        if o.clord_id not in ft.registered_orders:
            tr.first_seen_by_request = True
        prev = o.clord_id
        tr.reqs["F"] = ft.fix_cxl_request(o)
        tr.pending, tr.prev_id, tr.request_by_order = "F", prev, False
    elif k == "rep":
        if o.clord_id not in ft.registered_orders:
            tr.first_seen_by_request = True
        prev = o.clord_id
        tr.reqs["G"] = ft.fix_rep_request(o, _f(op[1]), _f(op[2]))
        tr.pending, tr.prev_id, tr.request_by_order = "G", prev, False
    elif k == "ocxl":
        # the request is built by the order object itself (as the library's own tests do), not through the helper
        prev = o.clord_id
        tr.reqs["F"] = o.cancel_req()
        tr.pending, tr.prev_id, tr.request_by_order = "F", prev, True
    elif k == "orep":
        prev = o.clord_id
        tr.reqs["G"] = o.replace_req(_f(op[1]), _f(op[2]))
        tr.pending, tr.prev_id, tr.request_by_order = "G", prev, True
    elif k == "rej":
        m = ft.fix_cxlrep_reject_msg(tr.reqs[op[1]], G()["ST"][op[2]])
        o.process_cancel_rej_report(m)
        tr.pending = None
    elif k == "er":
        m = er_call(ft, o, op)
        d = dict_of(m)
        tr.exec_ids.add(d.get("17"))
        if tr.order_id is None:
            tr.order_id = d.get("37")
        o.process_execution_report(m)
        tr.after_report(op)
    else:
        raise HarnessError(f"unknown op {op}")
    return ft


def build(names, path):
    ft, o, tr = new_state(names)
    tr.names = names
    for op in path:
        ft = apply_op(ft, o, tr, op)
    return ft, o, tr


def state_key(ft, o, tr):
    return (
        type(o.status).__name__, str(o.status), o.clord_id in ft.registered_orders,
        o.orig_clord_id is not None, o.order_id is not None, tr.order_id is not None,
        float(o.cum_qty), float(o.leaves_qty), float(o.qty), float(o.price), repr(o.avg_px),
        tuple(sorted(tr.reqs)), tr.model_key(),
    )


def order_snapshot(o):
    return tuple(sorted((k, repr(v)) for k, v in vars(o).items()))


# --------------------------------------------------------------------------
# the argument grid
# --------------------------------------------------------------------------

def _dedupe(xs):
    out = []
    for x in xs:
        if not any((x is None and y is None) or (x is not None and y is not None and x == y) for y in out):
            out.append(x)
    return out


def other_qty(tr):
    return tr.qb if float(tr.qty) == float(tr.qa) else tr.qa


def er_grid(o, tr, et):
    """All 'er' ops of one ExecType in one state, simplest (most defaulted) first.
    q = order quantity, E = q' if given else q, c0 = CumQty reported so far."""
    q, c0 = tr.qty, tr.cum
    q2 = other_qty(tr)
    p2 = tr.price + 1
    ids = ["cur"] + (["orig"] if o.orig_clord_id else [])
    cums = _dedupe([None, 0, q / 2, q])
    for st in ORD_STATUSES:
        for cl in ids:
            for oq in (None, q2):
                eff = q if oq is None else oq
                for cum in cums:
                    cum_eff = c0 if cum is None else cum
                    lvs = [None, 0, eff / 2, eff]
                    if 0 <= eff - cum_eff:
                        lvs.append(eff - cum_eff)
                    for lv in _dedupe(lvs):
                        lasts = [None, q / 2, q]
                        if cum_eff - c0 > 0:
                            lasts.append(cum_eff - c0)
                        for last in _dedupe(lasts):
                            for px in (None, p2):
                                for orig in (None, "id"):
                                    yield ["er", cl, et, st, cum, lv, last, px, oq, orig]


def given(x):
    return "default" if x is None else "given"


# --------------------------------------------------------------------------
# expansion of one state (worker)
# --------------------------------------------------------------------------

class Acc:
    """Per-work-item result accumulator."""

    def __init__(self):
        self.viol = {}  # signature -> dict
        self.succ = {}  # key -> (op, wild)
        self.calls = 0
        self.accepted = 0
        self.refused_assert = 0
        self.refused_other = 0
        self.processed = 0
        self.outcomes = set()
        self.t0 = _time.process_time()

    def v(self, sig, clause, detail, replay):
        x = self.viol.get(sig)
        if x is None:
            self.viol[sig] = {"signature": sig, "clause": clause, "detail": detail, "replay": replay, "count": 1}
        else:
            x["count"] += 1

    def add_succ(self, key, op, wild):
        old = self.succ.get(key)
        if old is None or (old[1] and not wild):
            self.succ[key] = (op, wild)

    def pack(self):
        return {"viol": list(self.viol.values()), "succ": [(k, op, w) for k, (op, w) in self.succ.items()],
                "calls": self.calls, "accepted": self.accepted, "ra": self.refused_assert, "ro": self.refused_other,
                "processed": self.processed, "outcomes": sorted(self.outcomes, key=repr),
                "lib_calls": G().get("lib_calls", 0), "cpu": _time.process_time() - self.t0}


def _num(d, tag):
    try:
        return float(d[tag])
    except (KeyError, ValueError):
        return None


def _excess(d, cumv, lvv, oqv):
    """CumQty + LeavesQty - OrderQty, exact when the three are plain decimal literals."""
    try:
        return Decimal(d["14"]) + Decimal(d["151"]) - (Decimal(d["38"]) if "38" in d else Decimal(repr(oqv)))
    except (InvalidOperation, KeyError):
        x = cumv + lvv - oqv
        return Decimal(repr(x)) if x > 1e-9 else Decimal(0)


BOUNDARY_DELTAS = [-0.0001, -0.000001, 0, 0.0004, 0.00049, 0.0005, 0.001]


def probe_boundary(acc, names, path, ft, o, tr, seen_exec):
    """Quantities with 4-6 decimals around CumQty + LeavesQty = OrderQty (E = order quantity, h = E/2):
    (h+d, h) with OrdStatus 1 and (h, h+d) with OrdStatus 0 for every ExecType, d from just below to 0.001 above."""
    e = tr.qty
    h = e / 2
    for d in BOUNDARY_DELTAS:
        x = round(h + d, 6)
        for cum, lv, st in ((x, h, "1"), (h, x, "0")):
            for et in EXEC_TYPES:
                last = None
                if et == "F":
                    last = round(cum - tr.cum, 6)
                    if last <= 0:
                        continue
                judge_er_pair(acc, names, path, ft, o, tr, ["er", "cur", et, st, cum, lv, last, None, None, None],
                              seen_exec)


def probe_splits(acc, names, path, ft, o, tr, seen_exec):
    """Every split of the order quantity at its own decimal resolution: E = n units u of the last decimal place of
    repr(E); (CumQty, LeavesQty) = (k u, (n - k - s) u) for every k in 0..n, slack s in {0, 1}, x every ExecType
    (OrdStatus 1 when something is filled, else 0; LastQty = the increase of CumQty for a trade)."""
    try:
        e = Decimal(repr(float(tr.qty)))
    except InvalidOperation:
        return
    u = Decimal(1).scaleb(e.as_tuple().exponent)
    n = int(e / u)
    if n <= 0 or n > SPLIT_MAX_UNITS:
        return
    for k in range(n + 1):
        cum = float(k * u)
        for slack in (0, 1):
            if n - k - slack < 0:
                continue
            lv = float((n - k - slack) * u)
            st = "1" if k else "0"
            for et in EXEC_TYPES:
                last = None
                if et == "F":
                    last = float(k * u - Decimal(repr(float(tr.cum))))
                    if last <= 0:
                        continue
                judge_er_pair(acc, names, path, ft, o, tr, ["er", "cur", et, st, cum, lv, last, None, None, None],
                              seen_exec)


def judge_er_pair(acc, names, path, ft, o, tr, op, seen_exec):
    """Fabricate the report of `op` twice in a row on (ft, o), judge both, process the
    first on a copy of the order.  Returns (processed copy, OrderID) or None."""
    acc.calls += 1
    try:
        m1 = er_call(ft, o, op)
    except AssertionError:
        acc.refused_assert += 1
        return None
    except Exception:
        acc.refused_other += 1
        return None
    acc.accepted += 1
    rep = {"part": "a", "names": list(names), "path": path, "op": op}
    _, cl, et, st, cum, lv, last, px, oq, orig = op[:10]
    d1 = dict_of(m1)
    info = {"op": op, "report": d1, "order": {"status": str(o.status), "qty": o.qty, "cum_qty": o.cum_qty,
                                                "leaves_qty": o.leaves_qty, "order_id": o.order_id}}
    # -- dictionary
    for cause in validity(m1, "exec_report"):
        acc.v(f"valid_dictionary|{cause}", CL_VALID, dict(info, complaint=cause), rep)
    # -- quantities
    cumv, lvv, oqv = _num(d1, "14"), _num(d1, "151"), _num(d1, "38")
    if oqv is None and "38" not in d1:
        oqv = float(tr.qty if oq is None else oq)
    if None not in (cumv, lvv, oqv) and all(map(isfinite, (cumv, lvv, oqv))):
        excess = _excess(d1, cumv, lvv, oqv)  # exact on the decimal strings of the message
        if excess > 0:
            size = ",excess_below_0.001" if excess < Decimal("0.001") else ""
            acc.v(f"qty_sum|cum={given(cum)},leaves={given(lv)},order_qty={given(oq)}{size}", CL_SUM,
                  dict(info, observed=[d1.get("14"), d1.get("151"), d1.get("38", oqv)], excess=str(excess)), rep)
    if d1.get("39") in FINISHED and lvv is not None and lvv != 0:
        acc.v(f"leaves_zero_finished|leaves={given(lv)}", CL_FIN, dict(info, observed_leaves=lvv), rep)
    # -- ExecID / OrderID
    e1, o1 = d1.get("17"), d1.get("37")
    if e1 is None or e1 in seen_exec:
        acc.v("execid_fresh|reused_from_earlier_report", CL_EXEC, dict(info, exec_id=e1), rep)
    seen_exec.add(e1)
    if tr.order_id is not None and o1 != tr.order_id:
        acc.v("orderid_stable|differs_from_first_report_of_the_order", CL_OID,
              dict(info, expected=tr.order_id, observed=o1), rep)
    # -- the same report again, nothing processed in between
    try:
        m2 = er_call(ft, o, op)
    except Exception as e:
        m2 = None
        acc.outcomes.add(("second_call_refused", type(e).__name__))
    if m2 is not None:
        d2 = dict_of(m2)
        e2, o2 = d2.get("17"), d2.get("37")
        if e2 is None or e2 in seen_exec:
            acc.v("execid_fresh|reused_in_next_report", CL_EXEC, dict(info, first=e1, second=e2), rep)
        seen_exec.add(e2)
        if o2 != o1:
            when = "before_any_report_was_processed" if tr.order_id is None else "after_reports_were_processed"
            acc.v(f"orderid_stable|two_reports_in_a_row_{when}", CL_OID,
                  dict(info, first=o1, second=o2), rep)
    # -- processing
    oc = copy.deepcopy(o)
    try:
        r = oc.process_execution_report(m1)
        acc.processed += 1
        acc.outcomes.add(("er", et, st, bool(r)))
    except Exception as e:
        whose = "" if cl in ("cur", "orig") else f":clord_id_{cl}"
        acc.v(f"process_no_error|exec_report:{type(e).__name__}{whose}", CL_PROC,
              dict(info, exception=f"{type(e).__name__}: {e}"), rep)
        return None
    return oc, o1


def expand_er(item):
    """Work item: (names, path, mode, exec type) -> the grid slice of one ExecType in one state.
    mode 1: successors = exchange-consistent reports + every other accepted report as a leaf;
    mode 0: exchange-consistent successors only; mode -1: leaf (judged, no successors)."""
    names, path, wild_left, et = item
    acc = Acc()
    ft, o, tr = build(names, path)
    snap = order_snapshot(o)
    reg = set(ft.registered_orders)
    seen_exec = set(tr.exec_ids)
    firsts = []
    for op in er_grid(o, tr, et):
        r = judge_er_pair(acc, names, path, ft, o, tr, op, seen_exec)
        if r is None:
            continue
        if len(firsts) < PROBE_REPORTS:
            firsts.append((op, r[1]))
        wild = not plausible(tr, op)
        if wild_left < 0 or (wild and wild_left == 0) or not on_spine(names, tr, path, op):
            continue
        oc, oid = r
        tr2 = tr.clone()
        if tr2.order_id is None:
            tr2.order_id = oid
        tr2.after_report(op)
        acc.add_succ(state_key(ft, oc, tr2), op, wild)
    if order_snapshot(o) != snap or set(ft.registered_orders) != reg:
        raise HarnessError("fix_exec_report_msg changed the order / the registry: exploration by shared state is unsound")
    probe_helper_methods(acc, names, path, et, ft, o, tr, firsts, seen_exec)
    return acc.pack()


def probe_helper_methods(acc, names, path, et, ft, o, tr, firsts, seen_exec):
    """History so far on this helper instance: the chain + the whole grid slice.  Now call each other public
    state-touching method and fabricate again: ExecIDs must still be new for the instance, the OrderID unchanged."""
    g = G()
    if not firsts:
        return  # nothing was accepted in this slice: no report to fabricate again
    for name in ("reset", "reg_again", "reg2"):
        label = HELPER_METHODS[name]
        if any(k.startswith(("execid_fresh|reused_after", "execid_fresh|reused_for", "orderid_stable|changed_after"))
               for k in acc.viol):
            break  # ids are already compromised on this instance: later methods would only show the consequence
        acc.calls += 1
        try:
            o2 = helper_method(ft, o, name)
        except Exception as e:
            acc.outcomes.add(("helper_method_refused", name, type(e).__name__))
            continue
        if o2 is not None:
            oids = []
            for _ in range(2):
                acc.calls += 1
                try:
                    m = ft.fix_exec_report_msg(o2, o2.clord_id, g["ET"]["A"], g["ST"]["A"])
                except Exception:
                    break
                acc.accepted += 1
                d = dict_of(m)
                rep = {"part": "a", "names": list(names), "path": path, "et": et, "after": name, "op": None}
                if d.get("17") is None or d.get("17") in seen_exec:
                    acc.v(f"execid_fresh|reused_for_second_order_after_{label}", CL_EXEC,
                          {"after": name, "second_order_report": d}, rep)
                seen_exec.add(d.get("17"))
                oids.append(d.get("37"))
            if len(oids) == 2 and oids[0] != oids[1]:
                acc.v("orderid_stable|second_order_two_reports_in_a_row", CL_OID, {"after": name, "order_ids": oids},
                      {"part": "a", "names": list(names), "path": path, "et": et, "after": name, "op": None})
        for op, oid in firsts:
            acc.calls += 1
            try:
                m = er_call(ft, o, op)
            except Exception as e:
                acc.outcomes.add(("refused_after_helper_method", name, type(e).__name__))
                continue
            acc.accepted += 1
            acc.outcomes.add(("fabricated_after", name))
            d = dict_of(m)
            rep = {"part": "a", "names": list(names), "path": path, "et": et, "after": name, "op": op}
            info = {"history": f"chain {path} + grid slice ExecType={et}, then {name}, then this report", "op": op, "report": d}
            if d.get("17") is None or d.get("17") in seen_exec:
                acc.v(f"execid_fresh|reused_after_{label}", CL_EXEC, dict(info, exec_id=d.get("17")), rep)
            seen_exec.add(d.get("17"))
            expected = tr.order_id if tr.order_id is not None else oid
            if d.get("37") != expected:
                acc.v(f"orderid_stable|changed_after_{label}", CL_OID, dict(info, expected=expected, observed=d.get("37")), rep)


REP_VARIANTS = [(True, False), (False, True), (True, True)]


def expand_misc(item):
    """Work item: (names, path, wild budget left) -> every non-report op in that state + cancel/replace rejects."""
    names, path, wild_left = item
    acc = Acc()
    ft, o, tr = build(names, path)
    q2, p2 = other_qty(tr), tr.price + 1
    ops = [["reg"], ["new"], ["cxl"]] + [["rep", p2 if a else None, q2 if b else None] for a, b in REP_VARIANTS]
    for op in ops:
        ft2, o2, tr2 = build(names, path)
        acc.calls += 1
        try:
            ft2 = apply_op(ft2, o2, tr2, op)
        except AssertionError:
            acc.refused_assert += 1
            continue
        except Exception:
            acc.refused_other += 1
            continue
        acc.accepted += 1
        acc.outcomes.add((op[0], str(o2.status)))
        if wild_left >= 0 and on_spine(names, tr, path, op):
            acc.add_succ(state_key(ft2, o2, tr2), op, False)
    # the helper's other state-touching methods as chain ops (leaf states)
    if wild_left >= 0:
        for name, bound in (("reset", HELPER_LEAF[0]), ("reg2", HELPER_LEAF[1])):
            if len(path) > bound:
                continue
            ft2, o2, tr2 = build(names, path)
            acc.calls += 1
            try:
                apply_op(ft2, o2, tr2, [name])
            except Exception:
                acc.refused_other += 1
                continue
            acc.accepted += 1
            acc.outcomes.add((name, str(o2.status)))
            acc.add_succ(state_key(ft2, o2, tr2), [name], True)
    # cancel / replace rejects for every request kind x status
    g = G()
    for kind in sorted(tr.reqs):
        for st in ORD_STATUSES + ["Z"]:
            op = ["rej", kind, st]
            rep = {"part": "a", "names": list(names), "path": path, "op": op}
            ft2, o2, tr2 = build(names, path)
            acc.calls += 1
            try:
                m = ft2.fix_cxlrep_reject_msg(tr2.reqs[kind], g["ST"][st])
            except AssertionError:
                acc.refused_assert += 1
                continue
            except Exception:
                acc.refused_other += 1
                continue
            acc.accepted += 1
            d = dict_of(m)
            info = {"op": op, "reject": d, "order": {"status": str(o2.status), "order_id": o2.order_id}}
            for cause in validity(m, "cancel_reject"):
                acc.v(f"valid_dictionary|{cause}", CL_VALID, dict(info, complaint=cause), rep)
            if CHECK_REJECT_ORDERID and tr2.order_id is not None and d.get("37") != tr2.order_id:
                how = ("cancel_reject_for_request_built_by_the_order_object" if tr2.request_by_order
                       else "cancel_reject_for_order_this_helper_first_saw_through_a_request" if tr2.first_seen_by_request
                       else "cancel_reject_differs_from_execution_reports")
                acc.v(f"orderid_stable|{how}", CL_OID,
                      dict(info, expected=tr2.order_id, observed=d.get("37")), rep)
            try:
                r = o2.process_cancel_rej_report(m)
                acc.processed += 1
                acc.outcomes.add(("rej", kind, st, bool(r)))
            except Exception as e:
                acc.v(f"process_no_error|cancel_reject:{type(e).__name__}", CL_PROC,
                      dict(info, exception=f"{type(e).__name__}: {e}"), rep)
                continue
            wild = not plausible_reject(tr, kind, st)
            if wild_left < 0 or (wild and wild_left == 0) or not on_spine(names, tr, path, op):
                continue
            tr2.pending = None
            acc.add_succ(state_key(ft2, o2, tr2), op, wild)
    probe_arguments(acc, names, path)
    return acc.pack()


def probe_arguments(acc, names, path):
    """Arguments outside the main grid, all numeric arguments defaulted, ExecType x OrdStatus each:
    ClOrdID that is not one of the order's current ids (somebody else's, the root, the id a REPLACED report has
    retired); OrdStatus CREATED (member of the helper's enum, value Z); avg_price=nan."""
    ft, o, tr = build(names, path)
    seen_exec = set(tr.exec_ids)
    own = {o.clord_id, o.orig_clord_id}
    D = [None] * 6
    kinds = [("foreign", FOREIGN_CLORD), ("root", o.clord_id_root), ("replaced", tr.replaced_id)]
    for kind, cid in kinds:
        if cid is None or cid in own:
            continue
        for et in EXEC_TYPES:
            for st in (ORD_STATUSES if kind == "foreign" else ["0", "1", "2", "4"]):
                judge_er_pair(acc, names, path, ft, o, tr, ["er", kind, et, st] + D + [{"clord": cid}], seen_exec)
    probe_boundary(acc, names, path, ft, o, tr, seen_exec)
    for et in EXEC_TYPES:
        judge_er_pair(acc, names, path, ft, o, tr, ["er", "cur", et, "Z"] + D, seen_exec)
        for st in ORD_STATUSES:
            judge_er_pair(acc, names, path, ft, o, tr, ["er", "cur", et, st] + D + [{"avg": "nan"}], seen_exec)


def expand(item):
    return expand_er(item) if len(item) == 4 else expand_misc(item)


# --------------------------------------------------------------------------
# session-message factories
# --------------------------------------------------------------------------

def session_grid():
    yield "msg_logon", [], {}
    yield "msg_logon", [None], {}
    yield "msg_logon", [{}], {}
    yield "msg_logon", [{"108": 60}], {}
    yield "msg_logon", [{"98": 0, "108": 1}], {}
    yield "msg_logon", [{"141": "Y"}], {}
    yield "msg_logon", [{"553": "user", "554": "secret"}], {}
    yield "msg_logon", [{"108": 30, "141": "N", "789": 5}], {}
    yield "msg_logout", [], {}
    yield "msg_heartbeat", [], {}
    for t in ("abc", 123, "TEST-1", 1700000001):
        yield "msg_heartbeat", [t], {}
    yield "msg_heartbeat", [], {"test_req_id": "kw"}
    for t in ("abc", 123, "TEST-1", 1700000001):
        yield "msg_test_request", [t], {}
    for n in (1, 2, 10):
        for new in (1, 2, 11, 1000000):
            yield "msg_sequence_reset", [n, new], {}
            for gf in (False, True):
                yield "msg_sequence_reset", [n, new, gf], {}
    for b in (1, 5, "7"):
        yield "msg_resend_request", [b], {}
        for e in ("0", 0, 5, 9, "12"):
            yield "msg_resend_request", [b, e], {}


SESSION_FT = [("plain", []), ("with_order", [["new"], ["reg"], ["er", "cur", "0", "0", None, None, None, None, None, None]])]


def session_call(acc, names, ft_kind, name, args, kw):
    path = dict(SESSION_FT)[ft_kind]
    ft, _o, _tr = build(names, path)
    acc.calls += 1
    fn = getattr(ft, name, None)
    if fn is None:
        raise HarnessError(f"FIXTester has no factory {name}")
    try:
        m = fn(*copy.deepcopy(args), **kw)
    except AssertionError:
        acc.refused_assert += 1
        return
    except Exception:
        acc.refused_other += 1
        return
    acc.accepted += 1
    acc.outcomes.add(("session", name, str(getattr(m, "msg_type", None))))
    rep = {"part": "s", "names": list(names), "factory": name, "args": args, "kw": kw, "ft": ft_kind}
    try:
        d = dict_of(m)
        causes = validity(m, f"session:{name}")
    except Exception as e:
        causes = [f"session:{name}:not_a_message:{type(e).__name__}"]
        d = repr(m)
    for cause in causes:
        acc.v(f"valid_dictionary|{cause}", CL_VALID,
              {"factory": name, "args": args, "kw": kw, "message": d, "complaint": cause}, rep)


def run_session(names):
    acc = Acc()
    for ft_kind, _p in SESSION_FT:
        for name, args, kw in session_grid():
            session_call(acc, names, ft_kind, name, args, kw)
    return acc


# --------------------------------------------------------------------------
# run / replay
# --------------------------------------------------------------------------

def special_chains(names):
    """Tiny / huge quantities and prices, and a plain MARKET order created without a price: one acknowledged,
    partly filled and replaced chain each, every report of the chain judged like a grid point."""
    out = []
    for prof, price in [("tiny", 5e-05), ("plain_market", nan), ("frac", names[3])] + [(p, 5e-05) for p in SPLIT_PROFILES]:
        nm = tuple(names[:3]) + (price, names[4], prof)
        qa, qb = PROFILE_QTY.get(prof, (QTY_A, QTY_B))
        h = qa / 2
        chain = [["new"], ["reg"],
                 ["er", "cur", "A", "A", None, None, None, None, None, None],
                 ["er", "cur", "0", "0", None, qa, None, None, None, None],
                 ["er", "cur", "F", "1", h, qa - h, h, None, None, None],
                 ["rep", None, qb],
                 ["er", "cur", "5", "1", None, qb / 2, None, None, qb, None]]  # (qb - h is not representable for 1e16)
        out.append((nm, chain))
    return out


def run_special(names):
    acc = Acc()
    for nm, chain in special_chains(names):
        path = []
        for op in chain:
            if op[0] == "er":
                try:
                    ft, o, tr = build(nm, path)
                except Exception:
                    break
                seen_exec = set(tr.exec_ids)
                judge_er_pair(acc, nm, list(path), ft, o, tr, op, seen_exec)
                probe_boundary(acc, nm, list(path), ft, o, tr, seen_exec)
                if profile_of(nm) in SPLIT_PROFILES:
                    probe_splits(acc, nm, list(path), ft, o, tr, seen_exec)
            path = path + [op]
            try:
                build(nm, path)
            except Exception as e:
                acc.outcomes.add(("special_chain_stops", profile_of(nm), op[0], type(e).__name__))
                break
    return acc


def fold(ctx, totals, res):
    ctx.merge_violations(res["viol"])
    for k in ("calls", "accepted", "ra", "ro", "processed", "cpu"):
        totals[k] = totals.get(k, 0) + res[k]
    for oc in res["outcomes"]:
        ctx.outcomes.add(tuple(oc))


def run_a(ctx, names, depth, wild_levels, max_states, roots=([],)):
    """Level-synchronous BFS.  States of level <= wild_levels also emit every other accepted
    report / reject as a leaf state (expanded with the full grid, not extended)."""
    seen = {}
    frontier = []
    for root in roots:
        try:
            ft, o, tr = build(names, root)
        except HarnessError:
            raise
        except Exception as e:  # reported where the chain is explored op by op (main BFS)
            ctx.notes.append(f"(a) directed chain {root} of profile {profile_of(names)} could not be built: {type(e).__name__}")
            ctx.outcomes.add(("root_not_buildable", profile_of(names), type(e).__name__))
            continue
        seen[state_key(ft, o, tr)] = list(root)
        frontier.append((list(root), 1 if wild_levels >= 0 else 0))
    extendable = set(seen)  # keys enqueued as chain states (not only as leaves)
    totals = {}
    levels = []
    expanded = 0
    unexpanded = 0
    for level in range(depth + 1):
        if expanded + len(frontier) > max_states:
            keep = max(0, max_states - expanded)
            ctx.cap(f"(a) state budget {max_states}: {len(frontier) - keep} states of level {level} not expanded")
            unexpanded += len(frontier) - keep
            frontier = frontier[:keep]
        items = []
        for p, w in frontier:
            items.append((names, p, w))
            for et in EXEC_TYPES:
                items.append((names, p, w, et))
        results = ctx.pmap(expand, items, chunk=1)
        nxt = []
        for item, res in zip(items, results):
            fold(ctx, totals, res)
        for want_wild in (False, True):  # chain successors first, leaves second
            for item, res in zip(items, results):
                for key, op, wild in res["succ"]:
                    if wild != want_wild:
                        continue
                    if key not in seen or (not wild and key not in extendable):
                        seen[key] = item[1] + [op]
                        if not wild:
                            extendable.add(key)
                        nxt.append((seen[key], -1 if wild else (1 if level + 1 <= wild_levels else 0)))
        levels.append(len(frontier))
        expanded += len(frontier)
        frontier = nxt
        if not frontier:
            break
    else:
        unexpanded += len(frontier)
    return totals, levels, expanded, unexpanded, seen


def run(ctx):
    global FULL_LIB
    names = POOL[ctx.seed % len(POOL)]
    G()
    FULL_LIB = not ctx.quick
    depth, wild, max_states = (A_QUICK if ctx.quick else A_THOROUGH)
    blen = B_QUICK if ctx.quick else B_THOROUGH
    HELPER_LEAF[:] = H_QUICK if ctx.quick else H_THOROUGH
    SPLIT_PROFILES[:] = SPLIT_PROFILES_QUICK if ctx.quick else SPLIT_PROFILES_THOROUGH

    # ---- (a) fabrication
    totals, levels, expanded, unexpanded, seen = run_a(ctx, names, depth, wild, max_states)
    names_u = POOL_U[ctx.seed % len(POOL_U)]
    tu, levels_u, expanded_u, unexpanded_u, _seen_u = run_a(ctx, names_u, AU_QUICK if ctx.quick else AU_THOROUGH, -1,
                                                            max_states)
    for k, v in tu.items():
        totals[k] = totals.get(k, 0) + v
    expanded += expanded_u
    levels_x = {}
    extra = [("resession", names + ("resession",)) + SPINES["resession"][1:]]
    if ctx.quick:
        extra.append(("market", names + ("market",)) + SPINES["market"][1:])
    else:
        extra.append(("market_full", names + ("market_full",), [[]], AM_THOROUGH))
    for prof, nm, roots, dpt in extra:
        tx, lv_x, exp_x, _unx, _sx = run_a(ctx, nm, dpt, -1, max_states, roots=roots)
        for k, v in tx.items():
            totals[k] = totals.get(k, 0) + v
        expanded += exp_x
        levels_x[prof] = lv_x
    fold(ctx, totals, run_session(names).pack())
    fold(ctx, totals, run_special(names).pack())
    # ---- (b) fidelity
    fb = c20_world.run_fidelity(ctx, blen)

    ctx.rule = (
        "(a) BFS over order states (key: order status and its type, registered, OrigClOrdID set, OrderID set, cum, leaves, "
        "qty, price, avg px, request kinds made, exchange-model state) reachable from a fresh order through the helper by "
        "register / new_req / cancel request / replace request / every accepted execution report and cancel-replace "
        "reject that an exchange keeping its books could send (thorough: plus, from the first levels, every other accepted "
        "report as a leaf state); in "
        "every state expanded the full grid ExecType(17) x OrdStatus(14) x cum x leaves x last x price x order_qty x "
        "ClOrdID(own ids) x OrigClOrdID is called on the real helper, every returned report is fabricated twice in a "
        "row, judged, and processed by a copy of the real order; after every grid slice the helper's other public "
        "state-touching methods (reset_messages, order_register_single again / of a second order) are called and reports "
        "are fabricated again, ExecID freshness and OrderID stability being judged over the whole history of the helper "
        "instance; the states after reset_messages() / a second registration are also chain states (leaves) for the "
        "first levels; non-trivial = helper call that returned a message. "
        "(b) every clean session script (initiator Logon, then initiator/acceptor app message, TestRequest, Heartbeat, "
        "Logout, and - one step shorter - application messages with non-ASCII text both ways; nothing after a Logout) up to the length bound x 2 start-counter pairs "
        "(session heartbeat period 30; scripts up to b_heartbeat_script_len also with every other period of b_heartbeat_periods, set on the initiator, in its Logon and on the real acceptor), run against "
        "FIXTester(connection=conn) and against a real AsyncFIXDummyServer on a fake link, compared after every step"
    )
    ctx.bounds = {"a_depth": depth, "a_arbitrary_report_leaves_from_levels_upto": wild, "a_state_budget": max_states,
                  "a_reset_messages_and_second_order_leaves_from_levels_upto": list(HELPER_LEAF),
                  "a_helper_method_probes": "after every grid slice: reset_messages / register again / register a second "
                                            f"order, then {PROBE_REPORTS} reports re-fabricated and judged against the whole history",
                  "a_states_per_level": levels, "a_non_ascii_order_states_per_level": levels_u,
                  "a_directed_profiles_states_per_level": levels_x, "a_states_expanded": expanded,
                  "a_states_found_not_expanded": unexpanded,
                  "grid": "17 x 14 x {nan,0,q/2,q} x {nan,0,E/2,E,E-cum} x {nan,q/2,q,cum-cum0} x {nan,p+1} x {nan,q'} x "
                          "own ClOrdIDs x {None,id}", "quantities": [QTY_A, QTY_B],
                  "a_split_probe": "directed chains with order quantity %s: every (k u, (n-k-s) u), k in 0..n, s in {0,1}, u = last "
                                   "decimal place of the quantity, x 17 ExecTypes, in every report state of the chain"
                                   % [PROFILE_QTY[p] for p in SPLIT_PROFILES],
                  "b_script_len": blen, "b_scripts": fb["scripts"], "b_start_counters": c20_world.STARTS,
                  "b_heartbeat_periods": fb["hb_periods"], "b_heartbeat_script_len": fb["hb_script_len"]}
    ctx.count(states=expanded + fb["scripts"], transitions=totals["calls"] + fb["steps"],
              traces=expanded + 2 * fb["scripts"], evaluations=totals["accepted"] + fb["comparisons"],
              nontrivial=totals["accepted"] + fb["scripts"], helper_calls=totals["calls"],
              helper_returned=totals["accepted"], helper_refused_assertion=totals["ra"],
              helper_refused_other_exception=totals["ro"], processed_by_order=totals["processed"],
              fidelity_steps=fb["steps"], fabrication_cpu_seconds=int(totals.get("cpu", 0)))
    if unexpanded:
        ctx.notes.append(f"(a) {unexpanded} states found at the depth bound / beyond the budget were not expanded")
    paths = list(seen.values())
    for k in paths[:: max(1, len(paths) // 3)][:3]:
        ctx.sample({"part": "a", "path": k})
    for s in fb["samples"]:
        ctx.sample(s)
    ctx.assumptions += [
        "behaviour of helper and order does not depend on the numeric suffix of a ClOrdID nor on the concrete OrderID / ExecID values (not part of the state key)",
        "an exception raised by the helper itself (AssertionError or other) is a refusal: the argument combination is out of scope",
        "ClOrdID arguments are restricted to the ids the order currently holds (a foreign id is rejected by the order object; pinned by test_exec_report_clord_mismatch)",
        "order is a LIMIT order with finite price and a string account; quantities 10 and 12; a second, shallower BFS uses an order with non-ASCII ticker / account",
        "further directed passes (full grid in every state): an order subclass whose set_price_qty() hook leaves Price out (market order; quick: acknowledged order + cancel / replace request, thorough: full BFS), and orders the helper instance first sees through fix_cxl_request / fix_rep_request (second helper instance after an acknowledgement through the first; acknowledgement by hand-made reports)",
        "boundary probe in every state and along a directed chain with fractional order quantity 0.75 / 1.25: (E/2+d, E/2) and (E/2, E/2+d) for d in -0.0001 .. +0.001 x ExecType; the sum clause is judged exactly on the decimal strings of the message",
        "split probe along directed chains with order quantities 2.43e-05 / 3.17e-05 (thorough: also 2.431e-05 / 3.173e-05; floats Python prints with an exponent): every split of the quantity into CumQty + LeavesQty (+ one unit of slack) at the quantity's own last decimal place x ExecType, judged by the same exact-decimal sum clause",
        "fidelity: the heartbeat period is a parameter of the session (initiator, its Logon(108), real acceptor configured alike); periods other than 30 are run for the short scripts only, and a difference is attributed to the period only if the same script shows none with 30",
        "probes outside the main grid in every state (numeric arguments defaulted, ExecType x OrdStatus): ClOrdID of somebody else / the root / the id retired by a REPLACED report, OrdStatus CREATED (Z), avg_price=nan; cancel rejects also with CREATED; directed chains for quantity 2e-05 / 1e16 with price 5e-05 and for a plain MARKET order with price nan; requests built by order.cancel_req() / replace_req()",
        "chains are extended with exchange-consistent reports only (all other accepted reports are judged and processed one step deep)",
        "quick tier: FIXSchema.validate (0.6 ms per call) runs on every message showing a new tag set or a new (tag, value) pair; the independent dictionary reading runs on every message; thorough tier: FIXSchema.validate on every distinct content",
        "fidelity: no virtual time passes during a script (heartbeat timers never fire); application hooks do not send",
        "fidelity: the real acceptor application mirrors the helper calls: send_msg(app/Heartbeat/Logout), send_test_req()",
    ]


def replay(ctx, rep):
    G()
    part = rep.get("part")
    if part == "b":
        return c20_world.replay_fidelity(rep)
    names = tuple(rep["names"])
    acc = Acc()
    if part == "s":
        session_call(acc, names, rep["ft"], rep["factory"], rep["args"], rep["kw"])
        return list(acc.viol.values())
    path, op = rep["path"], rep["op"]
    if rep.get("after"):
        try:
            res = expand_er((names, path, -1, rep["et"]))
        except Exception:
            return []
        return [v for v in res["viol"] if v["replay"].get("after") == rep["after"] and v["replay"].get("op") == op]
    try:
        ft, o, tr = build(names, path)
    except Exception:
        return []
    if op[0] == "er":
        judge_er_pair(acc, names, path, ft, o, tr, op, set(tr.exec_ids))
        return list(acc.viol.values())
    if op[0] == "rej":
        res = expand_misc((names, path, 0))
        return [v for v in res["viol"] if v["replay"]["op"] == op]
    return []
