"""C11 - nothing passes to or from the application outside an established session.

Exhaustive product: role x connection state (reached by histories) x inbound
frame class x integrity defect, and send attempts of every class; then a second
stimulus (depth-2 continuation) - after a disconnect the continuation checks
silence and that the disconnect was reported exactly once.
"""
from mc import refs
from mc.world import World1, num_in, num_out, stored_counters, journal_rows

POOL = [("SRV", "CLI"), ("ACC", "INI"), ("S1", "T1"), ("EXCH", "FIRM")]
CFG = {"S": "SRV", "T": "CLI"}

ROOTS = [
    ("acceptor", "never_connected"), ("initiator", "never_connected"),
    ("acceptor", "connected"), ("initiator", "connected_no_logon"),
    ("initiator", "logon_sent"),
    ("acceptor", "active"), ("initiator", "active"),
    ("acceptor", "awaiting_resend"), ("initiator", "awaiting_resend"),
    ("acceptor", "after_logout"), ("initiator", "after_eof"),
    ("acceptor", "after_integrity_drop"),
    ("acceptor", "connected_app_sends_when_active"), ("initiator", "logon_sent_app_sends_when_active"),
    ("acceptor", "connected_app_disconnects_on_logon"), ("initiator", "logon_sent_app_disconnects_on_logon"),
    ("acceptor", "reconnected_after_drop_with_unread_bytes"),
    ("acceptor", "connected_app_disconnects_on_state_change"), ("initiator", "logon_sent_app_disconnects_on_state_change"),
]
CLASSES = ("logon", "hb", "tr", "rr", "gf", "rs", "logout", "app", "custom")
DEFECTS = ("ok_at", "ok_above", "low", "low_pd", "bs", "no49", "no56", "bad49", "bad56", "swapped", "no34", "no108", "no98", "bad34", "dup34", "dup49", "dup108")
SENDS = ("app", "hb", "tr_api", "logon", "logout", "rr")
GROUP = {"logon": "logon", "logout": "logout", "app": "app", "custom": "app",
         "hb": "session", "tr": "session", "rr": "session", "gf": "seqreset", "rs": "seqreset"}


def stimuli():
    out = []
    for cls in CLASSES:
        for d in DEFECTS:
            out.append(("in", cls, d))
    for s in SENDS:
        out.append(("send", s))
    out.append(("eof",))
    out.append(("reset",))  # transport torn down with an error: read(), drain() and wait_closed() all raise it
    out.append(("oserr",))
    out.append(("tick", 100))
    out.append(("appdisc_eof",))
    out.append(("second_connect",))
    out.append(("wrong_trid_fail",))
    # a ResendRequest is being answered (parked in the application's should_replay hook / in drain() under
    # back-pressure) when another task (application, watchdog) disconnects; then the parked answer continues
    out.append(("rr_parked_disc", "hook"))
    out.append(("rr_parked_disc", "drain"))
    # an integrity failure whose Logout cannot be written: the transport fails at that very drain()
    for cls in ("app", "hb"):
        for d in ("bad49", "no34", "low"):
            out.append(("in_fail", cls, d))
    return out


def build_root(role, name):
    S, T = CFG["S"], CFG["T"]
    w = World1(role, S=S, T=T, hb=30, logon_on_connect=(name != "connected_no_logon"))
    mon = {"logon_done": False, "ever_connected": False}
    if name == "never_connected":
        return w, mon
    if name.endswith("app_sends_when_active"):
        w.c.send_on_state = "ACTIVE"
    if name.endswith("app_disconnects_on_logon"):
        w.c.disconnect_on_logon = True
    if name.endswith("app_disconnects_on_state_change"):
        w.c.disconnect_on_state = {"ACTIVE", "RECV_SEQNUM_TOO_HIGH"}
    w.connect()
    mon["ever_connected"] = True
    if name == "reconnected_after_drop_with_unread_bytes":
        # connection 1: one read brings a frame that drops the connection (first message is not a Logon) followed by a
        # Logon that is never looked at; connection 2 is a NEW transport connection: nothing of connection 1 belongs to it
        w.feed(refs.frame("0", 1, T, S) + refs.frame("A", 2, T, S, [(98, 0), (108, 30)]))
        w.advance(1.0)
        w.connect()
        return w, mon
    if name in ("connected", "connected_no_logon", "logon_sent") or name.endswith("app_sends_when_active") or name.endswith("app_disconnects_on_logon") or name.endswith("app_disconnects_on_state_change"):
        return w, mon
    w.logon()
    mon["logon_done"] = True
    w.peer("D", None, [(11, "warm")])
    if name == "active":
        return w, mon
    if name == "awaiting_resend":
        w.peer("D", w.peer_seq + 2, [(11, "early")])
        w.peer_seq += 3
        return w, mon
    if name == "after_logout":
        w.peer("5", None)
        return w, mon
    if name == "after_eof":
        w.reader.feed_eof()
        w.run()
        return w, mon
    if name == "after_integrity_drop":
        w.peer("D", None, [(11, "x")], sender="EVIL")
        return w, mon
    raise ValueError(name)


def make_frame(w, cls, defect):
    c = w.c
    E = num_in(c)
    S, T = w.S, w.T
    n = {"ok_at": E, "ok_above": E + 2, "low": E - 1, "low_pd": E - 1}.get(defect, E)
    if n < 1:
        return None
    if defect in ("no108", "no98", "dup108") and cls != "logon":
        return None  # a Logon that lacks / repeats a required body field: header intact, number expected
    sender, target = T, S
    begin = b"FIX.4.4"
    if defect == "bs":
        begin = b"FIX.4.2"
    if defect == "no49":
        sender = None
    if defect == "no56":
        target = None
    if defect == "bad49":
        sender = "EVIL"
    if defect == "bad56":
        target = "OTHER"
    if defect == "swapped":
        sender, target = S, T
    seq = None if defect == "no34" else n
    extra = [(43, "Y"), (122, "20240101-00:00:00.000")] if defect == "low_pd" else []
    if defect == "bad34":
        seq = "abc"  # present but not a number
    if defect == "dup34":
        extra = [(34, n)]  # MsgSeqNum twice
    if defect == "dup49":
        extra = [(49, "EVIL")]  # SenderCompID twice, one of them wrong
    body = {
        "logon": [(98, 0), (108, 30)], "hb": [], "tr": [(112, "T1")], "rr": [(7, 1), (16, 0)],
        "gf": [(123, "Y"), (36, n + 1)], "rs": [(36, n + 1)], "logout": [], "app": [(11, "A1"), (55, "X")],
        "custom": [(5001, "z")],
    }[cls]
    if defect == "no108":
        body = [(98, 0)]
    if defect == "no98":
        body = [(108, 30)]
    if defect == "dup108":
        body = [(98, 0), (108, 30), (108, 30)]
    mt = {"logon": "A", "hb": "0", "tr": "1", "rr": "2", "gf": "4", "rs": "4", "logout": "5", "app": "D", "custom": "U1"}[cls]
    return refs.frame(mt, seq, sender, target, body, extra_header=extra, begin=begin)


def snap(w):
    c = w.c
    return {
        "state": c.connection_state.name, "dead": c.connection_state.value <= 3, "E": num_in(c), "O": num_out(c),
        "stored": stored_counters(w.j, w.T, w.S), "nmsg": len(c.delivered), "nlogon": c.n_logon, "nlogout": c.n_logout,
        "ndisc": c.n_disconnect, "nout": len(w.writer.out) if w.writer else 0,
        "rows_out": len([1 for r in journal_rows(w.j) if r[1] == 1]),
        "nev": len(c.ev),
    }


def apply(w, mon, stim, rootname, role):
    """Apply one stimulus and judge it. Returns violation tuple (what, cause, clause, det) or None."""
    from asyncfix import FIXMessage, FMsg, FTag
    c = w.c
    b = snap(w)
    kind = stim[0]
    res = None
    fr = None
    if kind in ("in", "in_fail"):
        if w.reader is None:
            return "skip"
        fr = make_frame(w, stim[1], stim[2])
        if fr is None:
            return "skip"
        if kind == "in_fail":
            if w.writer is None:
                return "skip"
            w.writer.fail(ConnectionResetError, lost=ConnectionResetError("reset by peer"))
        w.reader.feed(fr)
        w.run()
        if kind == "in_fail":
            # the read side reports the reset as well (next read)
            if w.reader is not None and not w.reader.eof and w.reader.exc is None:
                w.reader.set_exception(ConnectionResetError("reset by peer"))
                w.run()
    elif kind == "send":
        k = stim[1]
        if k == "tr_api":
            res = w.call(c.send_test_req())
        else:
            m = {"app": lambda: FIXMessage("D", {11: "s1"}), "hb": lambda: FIXMessage(FMsg.HEARTBEAT),
                 "logon": lambda: FIXMessage(FMsg.LOGON, {98: 0, 108: 30}), "logout": lambda: FIXMessage(FMsg.LOGOUT),
                 "rr": lambda: FIXMessage(FMsg.RESENDREQUEST, {7: 1, 16: 0}),
                 "sr": lambda: FIXMessage(FMsg.SEQUENCERESET, {34: num_out(c), 36: num_out(c) + 1})}[k]()
            res = w.call(c.send_msg(m))
    elif kind == "eof":
        if w.reader is None:
            return "skip"
        w.reader.feed_eof()
        w.run()
    elif kind in ("reset", "oserr"):
        if w.reader is None:
            return "skip"
        exc = ConnectionResetError("reset by peer") if kind == "reset" else OSError(113, "No route to host")
        w.reader.set_exception(exc)
        if w.writer is not None:
            w.writer.fail(ConnectionResetError, lost=exc)
        w.run()
    elif kind == "tick":
        w.advance(stim[1])
    elif kind == "wrong_trid_fail":
        # a TestRequest is outstanding; the peer answers with a wrong TestReqID and its socket is gone: the Logout the
        # library wants to send cannot be written
        if w.reader is None or w.writer is None or b["state"] != "ACTIVE":
            return "skip"
        w.advance(31)  # HeartBtInt 30: the watchdog sends a TestRequest
        if c.connection_state.name != "ACTIVE" or not any(b"\x0135=1\x01" in f for f in w.writer.out):
            return "skip"
        b = snap(w)
        w.writer.fail(ConnectionResetError, lost=ConnectionResetError("reset by peer"))
        w.reader.feed(refs.frame("0", num_in(c), w.T, w.S, [(112, "424242")]))
        w.run()
        if w.reader is not None and not w.reader.eof and w.reader.exc is None:
            w.reader.set_exception(ConnectionResetError("reset by peer"))
            w.run()
        w.advance(2)
        a = snap(w)
        det = {"root": [role, rootname], "stimulus": stim, "before": b, "after": a}
        if not a["dead"]:
            return ("eof_not_disconnected", f"{b['state']}:wrong_testreqid+transport_failure", "a closed transport leaves the connection disconnected", det)
        if a["ndisc"] - b["ndisc"] != 1:
            return ("disconnect_not_reported_once", f"{b['state']}:wrong_testreqid+transport_failure", "reports the disconnect exactly once", det)
        return None
    elif kind == "rr_parked_disc":
        if w.reader is None or w.writer is None or b["state"] != "ACTIVE":
            return "skip"
        from asyncfix.connection import ConnectionState
        r0 = w.call(c.send_msg(FIXMessage("D", {11: "forreplay", 55: "X"})))
        if r0[0] == "exc":
            return "skip"
        b = snap(w)
        parked = []

        async def gate(conn, name):
            if name == "should_replay" and stim[1] == "hook" and not parked:
                f = w.loop.create_future()
                parked.append(f)
                await f

        c.gates = gate
        if stim[1] == "drain":
            w.writer.pause()
        old_writer = w.writer
        w.reader.feed(refs.frame("2", num_in(c), w.T, w.S, [(7, 1), (16, 0)]))
        w.run()
        mid = c.connection_state.name
        t = w.loop.create_task(c.disconnect(ConnectionState.DISCONNECTED_BROKEN_CONN))
        w.run()
        for f in parked:
            if not f.done():
                f.set_result(None)
        if stim[1] == "drain" and old_writer.paused:
            old_writer.resume()
        w.run()
        c.gates = None
        nframes_dead = len(old_writer.attempts)
        a = snap(w)
        # further input and time after the disconnect: silence
        if w.reader is not None and not w.reader.eof:
            w.reader.feed(refs.frame("D", num_in(c), w.T, w.S, [(11, "late")]))
            w.run()
        w.advance(2)
        a2 = snap(w)
        det = {"root": [role, rootname], "stimulus": stim, "before": b, "state_while_parked": mid, "after": a, "later": a2}
        cause = f"resend_reply_parked_in_{stim[1]}+disconnect_by_other_task"
        if not a["dead"] or not a2["dead"]:
            return ("disconnect_undone", cause, "after any disconnect the connection emits no further frames or message callbacks", det)
        if a2["nmsg"] != b["nmsg"] or len(old_writer.attempts) != nframes_dead:
            return ("active_after_disconnect", cause, "after any disconnect the connection emits no further frames or message callbacks", det)
        if a2["ndisc"] - b["ndisc"] != 1:
            return ("disconnect_not_reported_once", cause, "reports the disconnect exactly once", det)
        return None
    elif kind == "second_connect":
        # a second transport connection arrives at a single-connection acceptor while the first one is alive
        if role != "acceptor" or w.reader is None or w.writer is None or b["dead"]:
            return "skip"
        from mc.world import FakeReader, FakeWriter
        srv = w.net.servers.get(1)
        if srv is None:
            return "skip"
        r2, w2 = FakeReader(), FakeWriter("second")
        w2.own_reader = r2
        old_writer = w.writer
        w.loop.create_task(srv.cb(r2, w2))
        w.run()
        a = snap(w)
        det = {"root": [role, rootname], "stimulus": stim, "before": b, "after": a, "second_closed": w2.closed}
        same = all(a[k] == b[k] for k in ("state", "E", "O", "nmsg", "nlogon", "nlogout", "ndisc", "nev"))
        from mc.world import writer_of
        if not same or writer_of(c) is not old_writer or old_writer.closed:
            return ("second_connection_disturbs_session", f"{b['state']}:second_connect",
                    "after any disconnect the connection ... reports the disconnect exactly once (a session does not end without it)", det)
        if not w2.closed:
            return ("second_connection_not_refused", f"{b['state']}:second_connect", "single-connection acceptor refuses a second connection", det)
        return None
    elif kind == "appdisc_eof":
        # the application ends the session with a Logout while the transport is congested (drain() parks);
        # meanwhile the peer closes: the read task sees EOF.  Then the congestion ends.
        if w.reader is None or w.writer is None:
            return "skip"
        from asyncfix.connection import ConnectionState
        w.writer.pause()
        t = w.loop.create_task(c.disconnect(ConnectionState.DISCONNECTED_WCONN_TODAY, logout_message="bye"))
        w.run()
        w.reader.feed_eof()
        w.run()
        w.writer.resume()
        w.run()
    a = snap(w)
    written = []
    if w.writer:
        for raw in w.writer.out[b["nout"]:]:
            f, err = refs.try_parse(raw)
            written.append(refs.fdict(f) if f else {"35": "?"})
    det = {"root": [role, rootname], "stimulus": stim, "before": b, "after": a, "result": repr(res),
           "written": [(f.get("35"), f.get("34"), f.get("58")) for f in written], "logon_done": mon["logon_done"]}
    wtypes = [f.get("35") for f in written]
    base = b["state"]

    def V(what, cause, clause):
        return (what, f"{base}:{cause}", clause, det)

    if w.livelock:
        return V("livelock", ":".join(map(str, stim)), "every stimulus is processed to quiescence")
    # nothing reaches the application after the disconnect was reported (order of callbacks within this stimulus)
    newev = c.ev[b["nev"]:]
    if ("disconnect",) in newev:
        after = [e[0] for e in newev[newev.index(("disconnect",)) + 1:]]
        if any(k in ("msg", "logon", "logout") for k in after):
            tag = ":".join(map(str, stim[:3]))
            det["callbacks"] = [list(e) for e in newev]
            return V("callback_after_disconnect", tag, "after any disconnect the connection emits no further message callbacks")
    # the inbound counter does not move once the disconnect has been reported (nothing is processed afterwards)
    if a["ndisc"] != b["ndisc"] and a["dead"] and c.in_at_disconnect is not None and c.in_at_disconnect != a["E"]:
        det["inbound_counter_when_disconnect_was_reported"] = c.in_at_disconnect
        return V("counter_moved_after_disconnect", ":".join(map(str, stim[:3])), "after any disconnect ... (nothing is processed any more)")
    # ---------------- after a disconnect: silence ------------------------------
    if b["dead"] or not mon["ever_connected"]:
        tag = ":".join(map(str, stim[:2]))
        if a["nmsg"] != b["nmsg"] or a["nlogon"] != b["nlogon"] or a["nlogout"] != b["nlogout"]:
            return V("callback_while_disconnected", tag, "after any disconnect the connection emits no further message callbacks")
        if written:
            return V("frame_while_disconnected", tag, "after any disconnect the connection emits no further frames")
        if a["ndisc"] != b["ndisc"]:
            return V("disconnect_reported_again", tag, "reports the disconnect exactly once")
        if kind == "send" and stim[1] not in ("logon", "logout") or (kind == "send" and not mon["ever_connected"]):
            if res is None or res[0] != "exc":
                return V("send_not_refused", tag, "outbound sends are refused with an error outside an established session")
            if a["O"] != b["O"] or a["stored"] != b["stored"] or a["rows_out"] != b["rows_out"]:
                return V("refused_send_consumed_number", tag, "refused with an error that consumes no sequence number")
        return None
    # ---------------- sends while connected -----------------------------------------
    if kind == "send":
        if not mon["logon_done"] and stim[1] not in ("logon", "logout"):
            if res is None or res[0] != "exc":
                return V("send_before_logon_accepted", stim[1], "until the Logon exchange has completed outbound sends other than Logon/Logout are refused with an error")
            if written or a["O"] != b["O"] or a["stored"] != b["stored"] or a["rows_out"] != b["rows_out"]:
                return V("refused_send_consumed_number", stim[1], "refused with an error that consumes no sequence number")
        return None
    if kind == "appdisc_eof":
        if not a["dead"]:
            return V("app_disconnect_not_disconnected", "appdisc_eof", "the connection is disconnected")
        if a["ndisc"] - b["ndisc"] != 1:
            return V("disconnect_not_reported_once", "app_disconnect_then_eof", "reports the disconnect exactly once")
        return None
    if kind == "in_fail":
        delivered = a["nmsg"] - b["nmsg"]
        if not b["dead"] and mon["ever_connected"]:
            if not a["dead"]:
                return V("eof_not_disconnected", f"in_fail:{stim[2]}", "a closed transport leaves the connection disconnected")
            if a["ndisc"] - b["ndisc"] != 1:
                return V("disconnect_not_reported_once", f"in_fail:{stim[2]}", "reports the disconnect exactly once")
            if delivered and stim[2] != "low":
                return V("integrity_defect_delivered", f"in_fail:{stim[2]}", "never handed to the application")
        return None
    if kind in ("eof", "tick", "reset", "oserr"):
        if kind != "tick":
            if not a["dead"]:
                return V("eof_not_disconnected", kind, "a closed transport leaves the connection disconnected")
            if a["ndisc"] - b["ndisc"] != 1:
                return V("disconnect_not_reported_once", kind, "reports the disconnect exactly once")
        return None
    # ---------------- inbound frames -----------------------------------------------------
    cls, defect = stim[1], stim[2]
    g = GROUP[cls]
    dg = {"no49": "missing_compid", "no56": "missing_compid", "bad49": "wrong_compid", "bad56": "wrong_compid",
          "swapped": "wrong_compid", "bad34": "unusable_header_field", "dup34": "unusable_header_field",
          "dup49": "unusable_header_field"}.get(defect, defect)
    delivered = a["nmsg"] - b["nmsg"]
    logons = a["nlogon"] - b["nlogon"]
    if a["dead"] and a["ndisc"] - b["ndisc"] != 1:
        return V("disconnect_not_reported_once", f"{dg}:{g}", "reports the disconnect exactly once")
    if not a["dead"] and a["ndisc"] != b["ndisc"]:
        return V("disconnect_reported_but_connected", f"{dg}:{g}", "reports the disconnect exactly once")
    if defect == "bs":
        if delivered or logons or written or a["E"] != b["E"] or a["state"] != b["state"]:
            return V("wrong_beginstring_not_discarded", g, "frames with a wrong BeginString are discarded")
        return None
    integrity = defect in ("no49", "no56", "bad49", "bad56", "swapped", "no34", "bad34", "dup34", "dup49")
    low = defect in ("low", "low_pd")
    low_strict = defect == "low" and cls != "rs" and b["state"] != "RESENDREQ_AWAITING"  # reset mode ignores its own number
    if integrity or low:
        if delivered or logons:
            return V("integrity_defect_delivered", f"{dg}:{g}", "messages with wrong or missing CompIDs, a missing or too-low MsgSeqNum are never handed to the application")
        if g != "seqreset" and a["E"] != b["E"]:
            return V("integrity_defect_advanced_counter", f"{dg}:{g}", "never advance the inbound counter")
    if low and g != "seqreset" and not a["dead"]:
        # tolerated without a disconnect (only while a resend is awaited) - but then never acted upon
        if written or a["nlogout"] != b["nlogout"] or a["O"] != b["O"]:
            return V("too_low_message_acted_upon", f"{dg}:{g}", "messages with a too-low MsgSeqNum are never handed to the application (nor answered)")
    if integrity or low_strict:
        if a["nlogout"] != b["nlogout"]:
            return V("integrity_defect_acted_upon", f"{dg}:{g}", "never handed to the application")
        if not a["dead"]:
            return V("integrity_defect_not_disconnected", f"{dg}:{g}", "leave the connection disconnected")
        if any(t != "5" for t in wtypes) or len(wtypes) > 1:
            return V("integrity_defect_reply_frames", f"{dg}:{g}", "leave the connection disconnected (after a Logout stating the reason)")
        if defect in ("bad34", "dup34", "dup49"):
            return None  # Logout text not demanded for unusable (as opposed to missing / wrong) header fields
        if defect in ("no34", "low") and mon["logon_done"]:
            if wtypes != ["5"] or not written[0].get("58"):
                return V("integrity_defect_no_logout_reason", f"{dg}:{g}", "after a Logout stating the reason when the counterparty is identifiable")
        return None
    if low:
        return None
    # no integrity defect (ok_at / ok_above)
    if not mon["logon_done"]:
        if cls == "logon":
            # the exchange has completed when the acceptor has written its Logon reply / the initiator has left the
            # "Logon sent" state - a Logon that was received but not accepted completes nothing
            if c.connection_role.name == "ACCEPTOR":
                done = "A" in wtypes
            else:
                done = a["state"] not in ("LOGON_INITIAL_SENT", "NETWORK_CONN_ESTABLISHED")
            if not a["dead"] and done:
                mon["logon_done"] = True
            if c.connection_role.name == "ACCEPTOR" and b["state"] == "NETWORK_CONN_ESTABLISHED" and wtypes and wtypes[0] != "A" and any(t not in ("A", "5", "2", "4") for t in wtypes):
                return V("application_frame_before_logon_reply", f"{dg}", "until the Logon exchange has completed outbound sends other than Logon/Logout are refused")
            return None
        if delivered:
            return V("delivered_before_logon", f"{dg}:{g}", "until the Logon exchange has completed no inbound message is handed to the application")
        if a["E"] != b["E"] or any(t != "5" for t in wtypes) or a["nlogout"] != b["nlogout"] or \
                (not a["dead"] and a["state"] != b["state"]):
            return V("acted_upon_before_logon", f"{dg}:{g}", "until the Logon exchange has completed no inbound message is acted upon")
        if not a["dead"]:
            return V("not_dropped_before_logon", f"{dg}:{g}", "a first inbound message other than Logon makes the connection drop")
        return None
    if cls == "logout" and defect == "ok_at":
        if not a["dead"]:
            return V("logout_not_disconnected", "logout", "Logout ends the session")
    return None


def run_case(case):
    (role, rootname), stims = case
    w, mon = build_root(role, rootname)
    try:
        for i, st in enumerate(stims):
            r = apply(w, mon, st, rootname, role)
            if r == "skip":
                return "skip"
            if r is not None:
                what, cause, clause, det = r
                det["step"] = i
                return {"signature": f"{what}|{cause}", "clause": clause, "detail": det,
                        "replay": {"case": case, "S": CFG["S"], "T": CFG["T"]}}
        return None
    finally:
        w.close()


def _work(case):
    return run_case(case)


def run(ctx):
    CFG["S"], CFG["T"] = POOL[ctx.seed % len(POOL)]
    st = stimuli()
    cases = []
    for root in ROOTS:
        for s1 in st:
            cases.append((root, [s1]))
    ctx.rule = ("product of 12 (role, state) roots reached by real histories x every inbound frame class x every integrity "
                "defect, every send class, EOF, time; then every ordered pair of stimuli (depth-2 continuation; after a "
                "disconnect the second stimulus checks silence and single disconnect report); non-trivial = stimulus that is "
                "not a well-formed in-session frame")
    res1 = ctx.pmap(_work, cases, chunk=32)
    viol1 = set()
    ok1 = []
    for case, r in zip(cases, res1):
        if r == "skip":
            continue
        if r:
            ctx.merge_violations([r])
            viol1.add((case[0], case[1][0]))
        else:
            ok1.append(case)
    # depth 2: only after first steps that were fine (a history is cut at its first violation)
    second = st if not ctx.quick else [s for s in st if s[0] != "in" or s[2] in ("ok_at", "low", "no34", "bad49", "ok_above", "no108") ]
    cases2 = []
    for (root, s1) in ok1:
        for s2 in second:
            cases2.append((root, [s1[0], s2]))
    res2 = ctx.pmap(_work, cases2, chunk=128)
    n2 = 0
    for case, r in zip(cases2, res2):
        if r == "skip":
            continue
        n2 += 1
        if r:
            ctx.merge_violations([r])
    ctx.bounds = {"roots": len(ROOTS), "stimuli": len(st), "depth1": len(cases), "depth2": len(cases2)}
    ctx.count(states=len(ok1) + len(ROOTS), transitions=len(cases) + 2 * n2, traces=len(cases) + n2,
              evaluations=len(cases) + n2, nontrivial=len([c for c in cases if c[1][0][0] != "in" or c[1][0][2] != "ok_at"]))
    ctx.outcomes.update(v["signature"].split("|")[0] for v in ctx.violations.values())
    ctx.outcomes.add("ok")
    for c in cases[:: max(1, len(cases) // 4)][:4]:
        ctx.sample({"root": c[0], "stimuli": c[1]})
    ctx.assumptions += ["peer frames from the independent encoder", "HeartBtInt 30 s; initiator auto-reconnect attempts are refused by the fake network"]


def replay(ctx, rep):
    if "S" in rep:
        CFG["S"], CFG["T"] = rep["S"], rep["T"]
    root, stims = rep["case"]
    v = run_case((tuple(root), [tuple(s) for s in stims]))
    return [v] if v and v != "skip" else []
