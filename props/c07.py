"""C07 - no application message is lost, duplicated or reordered across connection loss.

Explorer A over TWO real endpoints (AsyncFIXClient, AsyncFIXDummyServer) and a
fake link whose frames in flight, breaks and reconnects the explorer controls.
"""
from mc import bfs
from mc.world2 import World2, norm_frame
from mc.world import session_of, num_in, num_out, journal_rows, conn_key, stored_counters
from mc import refs

POOL = [("CLI", "SRV"), ("INI", "ACC"), ("T1", "S1"), ("FIRM", "EXCH")]
CFG = {"A": "CLI", "B": "SRV", "max_sends": 2, "max_breaks": 2, "kinds": ("eof", "reset")}


class Sim:
    def __init__(self, root):
        _, A, B = root
        self.root = root
        self.w = World2(A=A, B=B, hb=CFG.get("hb", 100000))
        self.nticks = 0
        self.accepted = {"A": [], "B": []}  # ids whose send call returned
        self.maybe = {"A": [], "B": []}  # ids whose send call raised after the state checks (may or may not arrive)
        self.order = {"A": [], "B": []}  # all ids in send order
        self.nsend = 0
        self.nbreak = 0
        self.nconn = 0
        self.logon_seen = {"A": False, "B": False}  # side has processed the peer's Logon on this connection
        self.dead = False
        self.w.connect()
        self.nconn = 1

    @classmethod
    def build(cls, hist):
        s = cls(hist[0])
        for ev in hist[1:]:
            s.apply(ev)
        return s

    def close(self):
        self.w.close()

    def nontrivial(self):
        return self.nbreak > 0 and self.nsend > 0

    def enabled(self):
        if self.dead:
            return []
        w = self.w
        evs = []
        if w.flight["AB"]:
            evs.append(("dlv", "AB"))
        if w.flight["BA"]:
            evs.append(("dlv", "BA"))
        if self.nsend < CFG["max_sends"]:
            evs.append(("send", "A"))
            evs.append(("send", "B"))
        if w.up and self.nbreak < CFG["max_breaks"]:
            for k in CFG["kinds"]:
                evs.append(("brk", k))
        if w.can_connect():
            evs.append(("rec",))
        if w.up and self.nticks < CFG.get("max_ticks", 0):
            evs.append(("tick",))  # one heartbeat interval passes: watchdogs run (Heartbeat / TestRequest / timeout)
        return evs

    def key(self):
        w = self.w
        parts = []
        for x in ("A", "B"):
            s = w.side(x)
            rows = tuple((d, seq, nf_small(m)) for (_, d, seq, m) in journal_rows(s.j))
            parts.append((conn_key(s.c), rows, tuple(i for (_t, _n, b) in s.c.delivered for i in [b.get("11")]),
                          stored_counters(s.j, session_of(s.c).target_comp_id, session_of(s.c).sender_comp_id)))
        fl = tuple(tuple(norm_frame(f) for f in w.flight[d]) for d in ("AB", "BA"))
        return (tuple(parts), fl, w.up, tuple(self.accepted["A"]), tuple(self.accepted["B"]), tuple(self.maybe["A"]),
                tuple(self.maybe["B"]), self.nsend, self.nbreak, tuple(sorted(self.logon_seen.items())), self.nticks)

    # ------------------------------------------------------------------
    def apply(self, ev):
        from asyncfix import FIXMessage

        w = self.w
        k = ev[0]
        pre_state = {x: w.side(x).c.connection_state.name for x in "AB"}
        if k == "send":
            x = ev[1]
            self.nsend += 1
            mid = f"{x.lower()}{self.nsend}"
            # side A's application spells out PossDupFlag=N on its originals (legal; retransmission must still work);
            # side B's carry non-ASCII text (utf-8 on the wire: sizes in characters and bytes differ in the journaled copy)
            r = w.send(x, FIXMessage("D", {11: mid, 55: "X", 43: "N"} if x == "A" else {11: mid, 55: "X", 58: "Z\u00fcrich \u6771"}))
            if r[0] == "ok":
                self.accepted[x].append(mid)
                self.order[x].append(mid)
            elif r[0] == "exc":
                from asyncfix.errors import FIXConnectionError

                if not isinstance(r[1], FIXConnectionError):
                    self.maybe[x].append(mid)
                    self.order[x].append(mid)
            else:
                self.dead = True
                return self._v("send_never_returns", f"state:{pre_state[x]}", "send completes", ev)
        elif k == "dlv":
            fr = w.deliver(ev[1])
            dst = "B" if ev[1] == "AB" else "A"
            f, _ = refs.try_parse(fr)
            if f and refs.fdict(f).get("35") == "A":
                self.logon_seen[dst] = True
        elif k == "brk":
            self.nbreak += 1
            nd0 = {x: w.side(x).c.n_disconnect for x in "AB"}
            w.brk(ev[1])
            self.logon_seen = {"A": False, "B": False}
            if not w.livelock:
                for x in "AB":
                    c = w.side(x).c
                    if pre_state[x] not in ("DISCONNECTED_NOCONN_TODAY", "DISCONNECTED_WCONN_TODAY", "DISCONNECTED_BROKEN_CONN") and \
                            (c.connection_state.value > 3 or c.n_disconnect - nd0[x] != 1):
                        self.dead = True
                        return self._v("break_not_noticed", f"brk:{ev[1]}:{pre_state[x]}",
                                       "a connection break is seen by each end (which is then disconnected, once, and able to reconnect)", ev,
                                       side=x, disconnect_reports=c.n_disconnect - nd0[x])
        elif k == "rec":
            w.connect()
            self.nconn += 1
            self.logon_seen = {"A": False, "B": False}
        elif k == "tick":
            self.nticks += 1
            w.advance(CFG["hb"])
        if w.livelock:
            self.dead = True
            return self._v("livelock", f"{k}:{ev[1] if len(ev) > 1 else ''}", "the endpoints go quiescent after every event", ev)
        # ---- per-transition safety: no duplicate / out-of-order delivery ---------------
        for x in "AB":
            peer = "B" if x == "A" else "A"
            got = [b.get("11") for (_t, _n, b) in w.side(x).c.delivered]
            sent = self.order[peer]
            pos = -1
            for g in got:
                if got.count(g) > 1:
                    return self._v("delivered_twice", self._ctx(), "exactly once", ev, side=x, got=got)
                if g not in sent:
                    return self._v("delivered_unknown", self._ctx(), "received every message the other side sent", ev, side=x, got=got)
                p = sent.index(g)
                if p < pos:
                    return self._v("delivered_out_of_order", self._ctx(), "in sending order", ev, side=x, got=got, sent=sent)
                pos = p
        # ---- quiescent after a completed Logon exchange -----------------------------------
        watchdog_closed = self.nticks > 0 and not (w.connected("A") and w.connected("B"))  # a silent peer may be dropped
        if w.up and not w.flight["AB"] and not w.flight["BA"] and all(self.logon_seen.values()) and not watchdog_closed:
            sa, sb = w.a.c.connection_state.name, w.b.c.connection_state.name
            if sa != "ACTIVE" or sb != "ACTIVE":
                return self._v("quiescent_not_active", self._ctx(), "at that point both connections are ACTIVE", ev, states=(sa, sb))
            for x in "AB":
                peer = "B" if x == "A" else "A"
                got = [b.get("11") for (_t, _n, b) in w.side(x).c.delivered]
                must = self.accepted[peer]
                missing = [m for m in must if m not in got]
                if missing:
                    return self._v("message_lost", self._ctx(), "each side's application has received every application message the other side's send call accepted", ev, side=x, missing=missing, got=got)
            if num_in(w.a.c) != num_out(w.b.c) or num_in(w.b.c) != num_out(w.a.c):
                return self._v("counters_disagree", self._ctx(), "each side's next expected inbound number equals the other side's next outbound number", ev,
                               a=(num_in(w.a.c), num_out(w.a.c)), b=(num_in(w.b.c), num_out(w.b.c)))
        elif w.up and not w.flight["AB"] and not w.flight["BA"] and not self.dead:
            # nothing in flight, Logon exchange not complete: is anything going to happen?  (a Logon must be in flight or answered)
            if not any(self.logon_seen.values()) and w.a.c.connection_state.name == "LOGON_INITIAL_SENT":
                pass
        return None

    def _ctx(self):
        return f"breaks:{self.nbreak}:connections:{self.nconn}"

    def _v(self, what, cause, clause, ev, **kw):
        w = self.w
        det = dict(kw, event=ev, states=(w.a.c.connection_state.name, w.b.c.connection_state.name),
                   accepted=self.accepted, maybe=self.maybe,
                   counters={"A": (num_in(w.a.c), num_out(w.a.c)), "B": (num_in(w.b.c), num_out(w.b.c))},
                   wire={d: [short(f) for f in w.wire[d]] for d in ("AB", "BA")})
        return {"signature": f"{what}|{cause}", "clause": clause, "detail": det}


def short(raw):
    f, _ = refs.try_parse(raw)
    if not f:
        return "?"
    d = refs.fdict(f)
    s = f"{d.get('35')}#{d.get('34')}"
    for t in ("43", "7", "16", "36", "11"):
        if t in d:
            s += f" {t}={d[t]}"
    return s


def nf_small(raw):
    f, _ = refs.try_parse(raw)
    if not f:
        return "?"
    d = refs.fdict(f)
    return (d.get("35"), d.get("43"), d.get("11"), d.get("36"))


def run(ctx):
    CFG["A"], CFG["B"] = POOL[ctx.seed % len(POOL)]
    if ctx.quick:
        CFG.update(max_sends=3, max_breaks=2, kinds=("eof", "reset", "oserr"))
        depth = 16
        cap = 120000
    else:
        CFG.update(max_sends=3, max_breaks=3, kinds=("eof", "reset", "oserr", "timeout"))
        depth = 20
        cap = 1500000
    ctx.rule = ("BFS with state hashing over interleavings of: application send on either side, delivery of the next in-flight "
                "frame in either direction, link break (all in-flight frames lost; ends see EOF / reset / other OSError), "
                "reconnect + Logon; bounds on sends, breaks, depth; non-trivial = history with a break and a send")
    ctx.bounds = dict(CFG, depth=depth, max_states=cap)
    st = bfs.explore(ctx, Sim, [(("root", CFG["A"], CFG["B"]),)], depth, max_states=cap, label="C07")
    ctx.bounds.update(st)
    # the same alphabet with live watchdogs: a "tick" event lets one heartbeat interval pass (Heartbeats, TestRequests
    # and watchdog disconnects interleave with sends, deliveries and link loss)
    keep = dict(CFG)
    CFG.update(max_sends=2, max_breaks=1, kinds=("eof",), max_ticks=2 if ctx.quick else 3, hb=30)
    st2 = bfs.explore(ctx, Sim, [(("root", CFG["A"], CFG["B"]),)], 11 if ctx.quick else 14, max_states=(60000 if ctx.quick else 600000), label="C07/hb")
    ctx.bounds["with_heartbeat_ticks"] = dict(st2, max_ticks=CFG["max_ticks"], hb=30)
    CFG.clear()
    CFG.update(keep)
    if not st["closed"] and not ctx.caps_hit:
        ctx.notes.append(f"depth bound {depth} reached with {st['frontier_left']} frontier states unexpanded; all histories up to that depth were executed")
    ctx.outcomes.update(v["signature"].split("|")[0] for v in ctx.violations.values())
    ctx.outcomes.add("ok")
    ctx.assumptions += ["TCP delivers in order; a break loses a suffix (everything in flight) of both directions",
                        "reconnect only after both ends have seen the break (single-connection server)",
                        "no heartbeat traffic (HeartBtInt huge): recovery is driven by Logon/ResendRequest only",
                        "long random walks beyond the bound (part of the quantifier) are not explored: sampling is outside this technique"]


def replay(ctx, rep):
    hist = [tuple(e) for e in rep["hist"]]
    CFG.update(max_sends=99, max_breaks=99)
    if any(e[0] == "tick" for e in hist[1:]):
        CFG.update(max_ticks=99, hb=30)
    s = Sim(hist[0])
    out = []
    try:
        for ev in hist[1:]:
            v = s.apply(ev)
            if v:
                out.append(v)
                break
    finally:
        s.close()
    return out
