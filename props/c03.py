"""C03 - stream reassembly is independent of chunking.

Explorer: every partition (bounded number of cuts) of corpus streams is fed to
the REAL read loop of a real acceptor endpoint under the virtual loop; oracle =
the constructed list of frames (deliveries, counters, inbound journal rows).
"""
import itertools

from mc import refs
from mc.world import World1, num_in, journal_rows, HarnessError

MARK = b"8=FIX."

GARBAGE = [
    ("none", b""),
    ("nul", b"\x00"),
    ("junk", b"junk"),
    ("eight_eq", b"8="),
    ("marker_prefix4", b"8=FI"),
    ("soh", b"\x01"),
    ("cksum_field", b"10=000\x01"),
    ("equals_only", b"="),
    ("ninefield", b"9=5\x01"),
    # longer than any frame that follows it (a buffer tail that still holds a whole frame must not be re-read)
    ("long_noise", b"~banner~" * 40),
]

POOL = [("SRV", "CLI"), ("ACC", "INI"), ("S1", "T1"), ("EXCH", "FIRM")]


def corpus(S, T):
    """name -> list of frames (peer T -> endpoint S), Logon first."""
    def fr(t, n, body=()):
        return refs.frame(t, n, T, S, body)

    logon = fr("A", 1, [(98, 0), (108, 100000)])
    app = fr("D", 2, [(11, "ord1"), (55, "MSFT"), (54, 1), (38, 100), (40, 2), (44, "10.5")])
    grp = lambda n: fr("D", n, [(11, "g"), (453, 2), (448, "p1"), (447, "D"), (452, 1), (802, 1), (523, "s1"), (803, 2), (448, "p2"), (447, "D"), (452, 3), (55, "X")])
    hb = lambda n: fr("0", n)
    tr = lambda n: fr("1", n, [(112, "t1")])
    tricky = lambda n: fr("D", n, [(11, "a=b"), (58, "10=123 9=12 35=D"), (55, "Z")])
    longf = lambda n: fr("D", n, [(11, "L"), (58, "x" * 180), (55, "Q")])
    u8 = lambda n: fr("U8", n, [(5001, "8"), (5002, "=")])

    def padded(t, n, body=()):
        # a counterparty that renders int fields with a fixed width: BodyLength and MsgSeqNum zero-padded (legal FIX ints)
        plain = refs.frame(t, "%06d" % n, T, S, body)
        bl = plain.split(b"\x01")[1][2:]
        return refs.frame(t, "%06d" % n, T, S, body, body_length=b"%06d" % int(bl))

    # reset-mode SequenceReset to the number that is expected anyway (a no-op for the counter), then traffic
    rs_noop = lambda n: fr("4", n, [(36, n)])
    return {
        "logon_only": [logon],
        "logon_app": [logon, app],
        "logon_app_hb_app": [logon, app, hb(3), tricky(4)],
        "logon_grp_tr": [logon, grp(2), tr(3)],
        "logon_long": [logon, longf(2), u8(3)],
        "logon_4app": [logon, app, u8(3), grp(4), hb(5)],
        "logon_padded": [logon, padded("D", 2, [(11, "pad1"), (55, "MSFT")]), padded("0", 3), padded("D", 4, [(11, "pad2"), (55, "Q")])],
        "logon_rs_noop": [logon, app, rs_noop(3), fr("D", 3, [(11, "after1"), (55, "A")]), fr("D", 4, [(11, "after2"), (55, "B")])],
        # bursts of short frames (a coalesced resend reply / a busy market): many complete frames per read, the second
        # one longer than a single read of the reader (4096 bytes)
        "burst60": [logon] + [(hb(n) if n % 3 == 0 else fr("D", n, [(11, f"b{n}")])) for n in range(2, 62)],
        "burst110": [logon] + [(hb(n) if n % 4 == 0 else fr("D", n, [(11, f"c{n}")])) for n in range(2, 112)],
    }


def cut_classes(frames_off, cuts):
    """Classify each cut by where it falls. frames_off: list of (start, end, bl_lo, bl_hi, ck_lo)."""
    cl = set()
    for c in cuts:
        k = "between_or_garbage"
        for (s, e, bl_lo, bl_hi, ck_lo) in frames_off:
            if s < c <= s + 5:
                k = "in_start_marker"
            elif s + 5 < c < bl_lo:
                k = "in_beginstring"
            elif bl_lo <= c <= bl_hi:
                k = "in_bodylength"
            elif ck_lo <= c < e:
                k = "in_checksum"
            elif c == e:
                k = "at_frame_end"
            elif s < c < e:
                k = "in_body"
            else:
                continue
            break
        cl.add(k)
    return cl


class Case:
    def __init__(self, S, T, name, frames, gname, garbage):
        self.S, self.T, self.name, self.gname = S, T, name, gname
        self.frames = frames
        data = b""
        offs = []
        for i, f in enumerate(frames):
            if i > 0:
                data += garbage
            s = len(data)
            data += f
            e = len(data)
            bl_lo = s + f.index(b"\x019=") + 1
            bl_hi = s + f.index(b"\x01", f.index(b"\x019=") + 1)
            ck_lo = s + f.rindex(b"\x0110=") + 1
            offs.append((s, e, bl_lo, bl_hi, ck_lo))
        self.data = data
        self.offs = offs
        self.expected_app = []
        for f in frames:
            d = refs.fdict(refs.parse(f))
            if d["35"] not in ("A", "0", "1", "2", "4", "5"):
                self.expected_app.append((d["35"], d["34"]))

    def run(self, cuts):
        """Feed data split at cuts; return observation tuple."""
        w = World1("acceptor", S=self.S, T=self.T)
        try:
            w.connect()
            pos = 0
            for c in list(cuts) + [len(self.data)]:
                if c > pos:
                    w.feed(self.data[pos:c])
                    pos = c
            if w.livelock:
                return ("LIVELOCK",)
            deliv = tuple((t, n) for (t, n, _) in w.c.delivered)
            bodies_ok = True
            it = iter(w.c.delivered)
            rows = tuple(
                (seq, m) for (_, d, seq, m) in journal_rows(w.j) if d == 0
            )
            return (
                deliv,
                w.c.connection_state.name,
                num_in(w.c),
                len(rows) == len(self.frames)
                and all(r[0] == i + 1 and r[1].startswith(f) for i, (r, f) in enumerate(zip(rows, self.frames))),
                len(w.loop.errors),
            )
        finally:
            w.close()

    def expected(self):
        if self.name in DIFFERENTIAL:
            # streams on which the session layer itself reports an error (e.g. a journal conflict): the reference is what
            # the endpoint does when every frame arrives in a read of its own - every other split must give the same
            if getattr(self, "_exp", None) is None:
                self._exp = self.run([e for (_s, e, *_r) in self.offs[:-1]])
            return self._exp
        return (tuple(self.expected_app), "ACTIVE", len(self.frames) + 1, True, 0)


CASES = {}
DIFFERENTIAL = {"logon_rs_noop"}


def _work(item):
    key, cuts = item
    case = CASES[key]
    obs = case.run(cuts)
    exp = case.expected()
    if obs == exp:
        return None
    cl = cut_classes(case.offs, cuts)
    if case.gname != "none":
        cause = "garbage_between_frames:" + case.gname
    elif "in_start_marker" in cl:
        cause = "cut_in_start_marker"
    elif cl:
        cause = "cut:" + "+".join(sorted(cl))
    else:
        cause = "unsplit"
    what = "livelock" if obs == ("LIVELOCK",) else "mismatch"
    return {
        "signature": f"reassembly_{what}|{cause}",
        "clause": "same messages in the same order for every split of the stream",
        "detail": {"case": key, "cuts": list(cuts), "observed": obs, "expected": exp,
                   "stream_len": len(case.data)},
        "replay": {"S": case.S, "T": case.T, "case": case.name, "garbage": case.gname, "cuts": list(cuts)},
    }


def build_cases(seed, quick=False):
    S, T = POOL[seed % len(POOL)]
    cs = {}
    for name, frames in corpus(S, T).items():
        for gname, g in GARBAGE:
            if gname != "none" and len(frames) < 2:
                continue
            if quick and gname == "long_noise" and name not in ("logon_app", "logon_grp_tr"):
                continue
            if quick and gname != "none" and name in ("logon_padded", "logon_rs_noop"):
                continue
            if gname != "none" and name.startswith("burst"):
                continue
            cs[(name, gname)] = Case(S, T, name, frames, gname, g)
    return cs


def partitions(case, quick, full_two_cut):
    n = len(case.data)
    # streams added late (counterparty spellings, session-level failure): every single cut and chunking, a narrower
    # two-cut window and no three-cuts in the quick tier
    narrow = quick and case.name in ("logon_padded", "logon_rs_noop")
    if case.name.startswith("burst"):
        # long streams: unsplit, every single cut at / next to a frame boundary, every pair of frame boundaries
        # (quick: pairs with the first cut behind the Logon), fixed-size chunkings up to beyond the reader's own read size
        yield ()
        ends = [e for (_s, e, *_r) in case.offs[:-1]]
        for e in ends:
            for d in (-1, 0, 1):
                yield (e + d,)
        firsts = ends[:1] if quick else ends
        for a in firsts:
            for b in ends:
                if a < b:
                    yield (a, b)
        for k in (1, 2, 3, 7, 16, 64, 255, 1024, 4095, 4096, 4097):
            if k < n:
                yield tuple(range(k, n, k))
        return
    yield ()
    for c in range(1, n):
        yield (c,)
    if full_two_cut:
        for a, b in itertools.combinations(range(1, n), 2):
            yield (a, b)
    else:
        # two cuts: one anywhere, the other within +-8 bytes of a frame boundary
        near = set()
        for (s, e, *_r) in case.offs:
            for d in (range(-3, 4) if narrow else (range(-5, 6) if quick else range(-8, 9))):
                for p in ((s + d,) if quick else (s + d, e + d)):
                    if 0 < p < n:
                        near.add(p)
        for a in sorted(near):
            for b in range(1, n):
                if a != b:
                    yield tuple(sorted((a, b)))
    # all one-byte reads
    yield tuple(range(1, n))
    # every k-byte chunking
    for k in (2, 3, 5, 7, 16):
        yield tuple(range(k, n, k))
    # three cuts near frame boundaries
    near = set()
    for (s, e, *_r) in case.offs:
        for d in range(-8 if not quick else -5, 9 if not quick else 6):
            for p in (s + d,):
                if 0 < p < n:
                    near.add(p)
    near = sorted(near)
    if narrow:
        return
    if len(near) <= (60 if not quick else 30):
        for t in itertools.combinations(near, 3):
            yield t


def run(ctx):
    global CASES
    CASES = build_cases(ctx.seed, ctx.quick)
    ctx.rule = ("every partition (0,1,2 cuts exhaustively for small streams; 2 cuts with one near a frame "
                "boundary for larger ones; all 3-cuts near frame starts; 1-byte and k-byte chunkings) of each "
                "corpus stream x marker-free garbage between frames, fed to the real socket_read_task; two bursts of 60 / 110 short "
                "frames (more than one read of the reader): unsplit, cuts at / next to every frame boundary, pairs of boundaries, "
                "fixed-size chunkings 1..4097; "
                "non-trivial = partition with at least one cut strictly inside a frame")
    items = []
    seen = set()
    for key, case in CASES.items():
        name, gname = key
        small = len(case.data) <= (210 if ctx.quick else 420)
        full2 = small and (gname == "none" or not ctx.quick)
        for cuts in partitions(case, ctx.quick, full2):
            k = (key, cuts)
            if k in seen:
                continue
            seen.add(k)
            items.append(k)
    ctx.bounds = {"streams": len(CASES), "max_stream_len": max(len(c.data) for c in CASES.values()),
                  "partitions": len(items)}
    res = ctx.pmap(_work, items, chunk=200)
    nontriv = 0
    for (key, cuts), r in zip(items, res):
        case = CASES[key]
        if any(any(s < c < e for (s, e, *_r) in case.offs) for c in cuts):
            nontriv += 1
        if r:
            ctx.merge_violations([r])
    ctx.count(states=len(items), transitions=sum(len(c) + 1 for _, c in items), traces=len(items),
              evaluations=len(items), nontrivial=nontriv)
    ctx.outcomes.update(("ok",) if not ctx.violations else ("ok", "mismatch"))
    for k in items[:: max(1, len(items) // 5)][:5]:
        ctx.sample({"case": k[0], "cuts": list(k[1])[:8]})
    ctx.assumptions += ["TCP delivers bytes in order; each read returns exactly one fed chunk",
                        "frames in the corpus are built by the independent reference encoder"]


def replay(ctx, rep):
    S, T = rep["S"], rep["T"]
    frames = corpus(S, T)[rep["case"]]
    g = dict(GARBAGE)[rep["garbage"]]
    case = Case(S, T, rep["case"], frames, rep["garbage"], g)
    global CASES
    CASES = {(rep["case"], rep["garbage"]): case}
    r = _work(((rep["case"], rep["garbage"]), tuple(rep["cuts"])))
    return [r] if r else []
