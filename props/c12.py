"""C12 - the heartbeat watchdog detects dead peers and spares live ones.

The real heartbeat_timer_task and socket_read_task run under the virtual loop;
peer scripts are enumerated on a quarter-second grid (all arrival schedules for
small intervals), with both orders when an arrival coincides with a tick.
"""
import itertools

from mc import refs
import asyncio

from mc.vloop import CLOCK, LiveLock
from mc.world import World1, num_in

POOL = [("SRV", "CLI"), ("ACC", "INI"), ("S1", "T1"), ("EXCH", "FIRM")]
CFG = {"S": "SRV", "T": "CLI"}
Q = 0.25


def simulate(case):
    """case: dict(role, hb, phase (quarters), arrivals {k: [kinds]}, answer (mode, delay_q) or None,
    order ('timers'|'peer'), horizon (quarters)). Returns timeline dict."""
    role, hb = case["role"], case["hb"]
    w = World1(role, S=CFG["S"], T=CFG["T"], hb=hb)
    try:
        c = w.c
        if case.get("disc_raises"):
            c.raise_on_disconnect = True  # the application's on_disconnect callback fails
        if case.get("pre_tr"):
            # the application calls the public send_test_req() while there is no connection: refused
            r0 = w.call(c.send_test_req())
            if r0[0] != "exc":
                return {"harness": "send_test_req without a connection was not refused"}
        w.connect()
        if case.get("logon_off"):
            # the peer's Logon arrives between two watchdog ticks (quarter-second offsets)
            w.advance(case["logon_off"] * Q)
        hold = case.get("hold")
        if hold:
            # the application's on_state_change callback (first session state after the Logon) takes hold*Q seconds:
            #   the reader is suspended inside Logon processing while the watchdog keeps ticking
            held = []

            async def gate(conn, name):
                if name == "on_state_change" and not held and conn.states and conn.states[-1] in ("ACTIVE", "RECV_SEQNUM_TOO_HIGH"):
                    held.append(1)
                    await asyncio.sleep(hold * Q)

            c.gates = gate
        t_logon = CLOCK.now
        if case.get("logon_gap"):
            w.logon(hb=hb, seq=3)  # the peer's Logon is numbered above the expected number, then the peer goes silent
            w.peer_seq = 4
            if c.connection_state.value <= 3:
                return {"harness": "no session"}
        else:
            w.logon(hb=hb)
            if c.connection_state.name != "ACTIVE":
                return {"harness": "no active session"}
        w.take()
        # phase: shift peer grid relative to the endpoint's tick grid
        base = CLOCK.now + case["phase"] * Q
        w.loop.advance_to(base)
        t0k = 0  # last inbound frame (the Logon) happened before base; count silence from base conservatively
        wf = case.get("wfault")  # (k, exception name): from step k on every drain() of the writer fails, the reader sees nothing
        tl = {"logon_k": (t_logon - base) / Q, "tr": [], "hb_replies": [], "disc": None, "logout": [], "inbound_tr": [], "arrivals": [], "other": []}
        pending = []  # (due_k, id, mode)
        answered = set()
        arrivals = case["arrivals"]
        ans = case.get("answer")
        nid = 0

        def scan(k):
            for raw in w.take():
                f, err = refs.try_parse(raw)
                d = refs.fdict(f) if f else {}
                t = d.get("35")
                if t == "1":
                    tl["tr"].append((k, d.get("112")))
                    if ans:
                        pending.append((k + ans[1], d.get("112"), ans[0]))
                elif t == "2":
                    # the peer fills whatever the endpoint asks for with a GapFill up to its next number
                    b = int(d.get("7", "1"))
                    if w.reader is not None and c.connection_state.value > 3 and b < w.peer_seq and not case.get("logon_gap"):
                        w.feed(refs.frame("4", b, w.T, w.S, [(123, "Y"), (36, w.peer_seq)], extra_header=[(43, "Y")]))
                    tl["other"].append((k, "2"))
                elif t == "0":
                    tl["hb_replies"].append((k, d.get("112")))
                elif t == "5":
                    tl["logout"].append((k, d.get("58")))
                else:
                    tl["other"].append((k, t))
            if tl["disc"] is None and c.connection_state.value <= 3:
                tl["disc"] = k

        def peer_actions(k):
            nonlocal nid
            if c.connection_state.value <= 3 or w.reader is None:
                return
            for kind in arrivals.get(k, ()):  # scheduled traffic
                if kind == "local":
                    # the LOCAL application sends: outbound traffic says nothing about the peer being alive
                    from asyncfix import FIXMessage
                    w.send(FIXMessage("D", {11: f"l{k}", 55: "X"}))
                    continue
                if kind == "hb":
                    w.peer("0", None)
                elif kind == "app":
                    w.peer("D", None, [(11, f"a{k}")])
                elif kind == "app_gap":
                    w.peer_seq += 1  # an earlier frame of the peer was lost: numbered above expectation
                    w.peer("D", None, [(11, f"g{k}")])
                elif kind == "rr_beyond":
                    # the peer asks for numbers we never sent (BeginSeqNo beyond the last one): nothing to resend
                    w.peer("2", None, [(7, 50), (16, 0)])
                elif kind in ("tr", "tr_gap"):
                    nid += 1
                    rid = f"P{nid}" if nid % 2 else f"k=v{nid}=="  # '=' is legal inside a FIX String
                    if kind == "tr_gap":
                        w.peer_seq += 1  # one earlier message of the peer was lost: this one is numbered too high
                    w.peer("1", None, [(112, rid)])
                    tl["inbound_tr"].append((k, rid))
                tl["arrivals"].append(k)
                if c.connection_state.value <= 3:
                    return
            for item in list(pending):
                due, rid, mode = item
                if due <= k:
                    pending.remove(item)
                    if c.connection_state.value <= 3:
                        return
                    if mode in ("right", "right_gap"):
                        if mode == "right_gap":
                            w.peer_seq += 1  # the echo arrives numbered above expectation (an earlier frame was lost)
                        w.peer("0", None, [(112, rid)])
                        answered.add(rid)
                    elif mode == "wrong":
                        w.peer("0", None, [(112, "424242")])
                    elif mode == "wrong_spelled":
                        # the right number, another string: leading zero / sign - not the TestReqID that was sent
                        w.peer("0", None, [(112, ("0" + str(rid)) if len(tl["tr"]) % 2 else ("+" + str(rid)))])
                    elif mode == "wrong_hi":
                        w.peer("0", None, [(112, str(int(rid) + 1) if str(rid).isdigit() else "99999999999")])
                    elif mode == "noid":
                        w.peer("0", None)
                    tl["arrivals"].append(k)

        def break_writer(wr, exc_cls):
            async def drain():
                # the frame went into the send buffer, flushing it fails (half-dead connection)
                await asyncio.sleep(0)
                raise exc_cls("write side of the connection failed")
            wr.drain = drain

        def _steps(k, t):
            if case["order"] == "timers":
                w.loop.advance_to(t, inclusive=True)
                scan(k)
                peer_actions(k)
                scan(k)
            else:
                w.loop.advance_to(t, inclusive=False)
                scan(k)
                peer_actions(k)
                scan(k)
                w.loop.advance_to(t, inclusive=True)
                scan(k)

        for k in range(0, case["horizon"] + 1):
            t = base + k * Q
            if wf and k == wf[0] and w.writer is not None:
                break_writer(w.writer, {"reset": ConnectionResetError, "pipe": BrokenPipeError, "timeout": TimeoutError}[wf[1]])
            try:
                _steps(k, t)
            except LiveLock:
                w.livelock = True
                scan(k)
            if w.livelock:
                tl["livelock"] = k
                break
        if case.get("second_life") and tl["disc"] is not None and "livelock" not in tl:
            # same connection object, new transport connection, clean Logon, then a peer that answers every TestRequest
            w.connect()
            w.logon(hb=hb)
            w.take()
            tl["life2_state0"] = c.connection_state.name
            tl["life2_disc"] = None
            tl["life2_tr"] = []
            t0 = CLOCK.now
            for k in range(1, case["second_life"] + 1):
                w.loop.advance_to(t0 + k * Q, inclusive=True)
                for raw in w.take():
                    f, err = refs.try_parse(raw)
                    d = refs.fdict(f) if f else {}
                    if d.get("35") == "1":
                        tl["life2_tr"].append((k, d.get("112")))
                        if c.connection_state.value > 3 and case.get("second_life_peer", "responsive") == "responsive":
                            w.peer("0", None, [(112, d.get("112"))])
                if c.connection_state.value <= 3:
                    tl["life2_disc"] = k
                    break
        tl["answered"] = sorted(answered)
        tl["ndisc"] = c.n_disconnect
        tl["final_state"] = c.connection_state.name
        return tl
    finally:
        w.close()


def judge(case, tl):
    hb = case["hb"]
    hq = int(hb / Q)
    H = case["horizon"]
    ans = case.get("answer")
    out = []

    def V(what, cause, clause, **kw):
        out.append({"signature": f"{what}|{cause}", "clause": clause,
                    "detail": dict(kw, case=case, timeline={k: v for k, v in tl.items() if k != "arrivals"}, arrivals=tl.get("arrivals", [])[:40]),
                    "replay": {"case": case, "S": CFG["S"], "T": CFG["T"]}})

    if "harness" in tl:
        return out
    hbclass = "hb1" if hb == 1 else ("hb2" if hb == 2 else "hb_ge3")
    if case.get("wfault"):
        hbclass += ":writer_failing"
    if case.get("hold"):
        hbclass += ":slow_state_callback"
    if "livelock" in tl:
        if not ans and len(tl["tr"]) >= 2:
            # the spinning timer task kept writing TestRequests that nobody answered
            V("two_testrequests_outstanding", hbclass, "at most one TestRequest is outstanding at a time", at=tl["tr"][1][0], written=len(tl["tr"]))
        else:
            V("livelock", f"hb{hb}", "the timer task goes quiescent between ticks")
        return out
    if case.get("pre_tr"):
        hbclass += ":after_refused_send_test_req"
    if case.get("logon_gap"):
        hbclass += ":after_logon_with_gap"
    arr = sorted(set(tl["arrivals"]))
    disc = tl["disc"]
    end = disc if disc is not None else H
    trs = [k for k, _ in tl["tr"]]
    wrong_mode = ans and ans[0] in ("wrong", "wrong_hi", "wrong_spelled")
    # 1. every inbound TestRequest answered with the same id (immediately, same step)
    got = {rid: k for k, rid in tl["hb_replies"]}
    for k, rid in tl["inbound_tr"]:
        if disc is not None and k >= disc:
            continue
        if rid not in got:
            V("inbound_testrequest_unanswered", hbclass, "every inbound TestRequest is answered with a Heartbeat carrying the same TestReqID", at=k, id=rid)
            break
    # 2. at most one TestRequest outstanding
    outstanding = 0
    events = sorted([(k, 0, rid) for k, rid in tl["tr"]])
    ans_times = {}
    if ans and ans[0] in ("right", "right_gap"):
        for k, rid in tl["tr"]:
            ans_times[rid] = k + ans[1]
    open_ids = []
    for k, _, rid in events:
        open_ids = [(r, kk) for (r, kk) in open_ids if not (r in ans_times and ans_times[r] < k)]
        if open_ids:
            V("two_testrequests_outstanding", hbclass, "at most one TestRequest is outstanding at a time", at=k, open=open_ids)
            break
        open_ids.append((rid, k))
    # 2b. a TestRequest is the reaction to about one interval of silence: none while the peer was heard less than
    #     HeartBtInt - 2 s ago (same slack as on the upper side; vacuous for HeartBtInt <= 2)
    heard = [tl.get("logon_k", 0)] + sorted(tl["arrivals"])
    for k, rid in tl["tr"]:
        last = max(a for a in heard if a < k or a == heard[0])
        if (k - last) * Q < hb - 2:
            V("testrequest_without_silence", hbclass, "when nothing has been received for about one heartbeat interval the connection sends a TestRequest", at=k, last_heard=last)
            break
    # 3. dead peer detection: any silent window
    marks = [0] + [a for a in arr if a <= end]
    for i, L in enumerate(marks):
        nxt = marks[i + 1] if i + 1 < len(marks) else None
        silent_until = (nxt if nxt is not None else H)
        if disc is not None and disc <= L:
            break
        # TestRequest expected by L + hb + 2 s if silence lasts that long
        lim_tr = L + hq + int(2 / Q)
        if silent_until > lim_tr and (disc is None or disc > lim_tr):
            had_open = any(k <= L and not (rid in ans_times and ans_times[rid] <= L) for k, rid in tl["tr"])
            if not had_open and not any(L <= k <= lim_tr for k in trs) and not case.get("logon_gap"):
                V("no_testrequest_after_silence", hbclass, "when nothing has been received for about one heartbeat interval the connection sends a TestRequest", silent_from=L, limit=lim_tr)
                break
        lim_dc = L + 3 * hq + int(3 / Q)
        if silent_until > lim_dc and (disc is None or disc > lim_dc):
            V("dead_peer_not_disconnected", hbclass, "when the peer stays silent it disconnects within about three intervals", silent_from=L, limit=lim_dc)
            break
    # 4. live peers are spared
    if disc is not None and not wrong_mode:
        gaps = [b - a for a, b in zip(marks, marks[1:] + [end])]
        fast = all(g <= hq - int(1 / Q) for g in gaps) if hb >= 2 else False
        answers_all = ans and ans[0] in ("right", "right_gap") and ans[1] <= 2 * hq - int(1 / Q)
        if answers_all:
            V("responsive_peer_disconnected", f"{hbclass}:{'echo_across_gap:' if ans[0] == 'right_gap' else ''}answer_delay_{'0' if ans[1] == 0 else ('le_hb' if ans[1] <= hq else 'gt_hb')}", "a peer that answers each TestRequest with a Heartbeat echoing its TestReqID is never disconnected by the watchdog", disconnected_at=disc)
        elif fast:
            V("fast_traffic_peer_disconnected", hbclass, "a peer that keeps sending valid traffic is never disconnected by the watchdog", disconnected_at=disc)
    # 5. wrong TestReqID => Logout + disconnect
    if wrong_mode and tl["tr"]:
        k0, rid0 = tl["tr"][0]
        due = k0 + ans[1]
        if due <= H and (disc is None or disc >= due):
            if disc is None or disc > due + 1:
                V("wrong_testreqid_not_disconnected", hbclass + (":id_above_expected" if ans[0] == "wrong_hi" else (":id_respelled" if ans[0] == "wrong_spelled" else "")), "a Heartbeat echoing a wrong TestReqID ends the session with a Logout", due=due)
            elif not tl["logout"]:
                V("wrong_testreqid_no_logout", hbclass, "a Heartbeat echoing a wrong TestReqID ends the session with a Logout", due=due)
    if case.get("second_life") and tl.get("life2_state0") is not None:
        if tl["life2_state0"] != "ACTIVE":
            V("no_session_after_reconnect", hbclass, "a new session on the same connection object is established", state=tl["life2_state0"])
        elif case.get("second_life_peer") == "dead":
            if not tl["life2_tr"] or tl["life2_tr"][0][0] > hq + int(2 / Q) + 4:
                V("no_testrequest_after_silence", f"{hbclass}:second_session", "when nothing has been received for about one heartbeat interval the connection sends a TestRequest")
            elif tl["life2_disc"] is None:
                V("dead_peer_not_disconnected", f"{hbclass}:second_session", "when the peer stays silent it disconnects within about three intervals")
        elif tl["life2_disc"] is not None:
            V("responsive_peer_disconnected", f"{hbclass}:after_reconnect_following_watchdog_disconnect", "a peer that answers each TestRequest is never disconnected by the watchdog", disconnected_at=tl["life2_disc"])
    if tl["ndisc"] > (2 if case.get("second_life") and tl.get("life2_disc") is not None else 1):
        V("disconnect_reported_twice", hbclass, "the watchdog disconnects once")
    return out[:1]


def _work(case):
    return judge(case, simulate(case))


def scripted_cases(quick):
    hbs = (1, 2, 3, 30) if quick else (1, 2, 3, 4, 5, 6, 30)
    roles = ("acceptor", "initiator")
    cases = []
    for hb in hbs:
        hq = int(hb / Q)
        for role in roles:
            if quick and role == "initiator" and hb not in (2, 30):
                continue
            for phase in (0, 1, 2, 3):
                for order in ("timers", "peer"):
                    mk = lambda **kw: dict(dict(role=role, hb=hb, phase=phase, order=order, horizon=12 * hq if hb < 30 else 5 * hq, arrivals={}, answer=None), **kw)
                    cases.append(mk())  # silent from t0
                    if role == "acceptor" and order == "timers":
                        cases.append(mk(second_life=6 * hq))  # dead peer, then a new session on the same object
                        # ... whose peer is dead as well; the application's on_disconnect callback fails the first time
                        cases.append(mk(second_life=4 * hq + 16, second_life_peer="dead"))
                        cases.append(mk(second_life=4 * hq + 16, second_life_peer="dead", disc_raises=True))
                        for d in sorted({0, hq}):
                            cases.append(mk(answer=("right_gap", d)))  # echo numbered above expectation
                        cases.append(mk(arrivals={2: ["tr_gap"], hq + 2: ["tr_gap"]}, answer=("right", 0)))
                    # answering peers, otherwise silent
                    for d in sorted({0, hq // 2, hq, 2 * hq - 4}):
                        if d < 0:
                            continue
                        cases.append(mk(answer=("right", d)))
                    for d in sorted({0, hq}):
                        cases.append(mk(answer=("wrong", d)))
                        cases.append(mk(answer=("wrong_hi", d)))
                        cases.append(mk(answer=("wrong_spelled", d)))
                        cases.append(mk(answer=("noid", d)))
                    if hb >= 2:
                        # a sequence gap (filled by the peer on request) while a TestRequest is pending, answer arrives late
                        for at in sorted({hq, hq + 2, hq + 4}):
                            cases.append(mk(arrivals={at: ["app_gap"]}, answer=("right", 2 * hq - 4)))
                            cases.append(mk(arrivals={at: ["app_gap"]}, answer=("right", hq + hq // 2)))
                    # periodic traffic, with and without answering
                    for per in sorted({max(1, hq // 2), max(1, hq - 4), hq, hq + 4, 2 * hq}):
                        hor = 12 * hq if hb < 30 else 5 * hq
                        for kind in ("hb", "app"):
                            arr = {k: [kind] for k in range(per, hor + 1, per)}
                            cases.append(mk(arrivals=arr))
                            cases.append(mk(arrivals=arr, answer=("right", 0)))
                            if not quick:
                                cases.append(mk(arrivals=arr, answer=("right", hq)))
                    # the local application keeps sending while the peer is silent / only answers TestRequests
                    for per in sorted({max(1, hq // 2), max(1, hq - 1)}):
                        hor = 12 * hq if hb < 30 else 5 * hq
                        loc = {k: ["local"] for k in range(per, hor + 1, per)}
                        cases.append(mk(arrivals=loc))
                        cases.append(mk(arrivals=loc, answer=("right", 0)))
                    # the peer's own TestRequest crosses ours; ours is answered late
                    if hb >= 2:
                        for at in sorted({hq + 2, hq + 4, hq + 6, hq + 8}):
                            for d in sorted({hq, hq + hq // 2, 2 * hq - 4}):
                                cases.append(mk(arrivals={at: ["tr"]}, answer=("right", d)))
                    # burst then silence
                    cases.append(mk(arrivals={1: ["app", "hb", "app"], 2: ["hb"]}))
                    if order == "timers":
                        # the application tried send_test_req() before there was a connection; then a live peer
                        hor = 12 * hq if hb < 30 else 5 * hq
                        cases.append(mk(pre_tr=True, arrivals={k: ["hb"] for k in range(2, hor + 1, max(1, min(4, hq - 4)))}))
                        cases.append(mk(pre_tr=True, answer=("right", 0)))
                        # a ResendRequest for numbers never sent, then the peer only answers TestRequests
                        cases.append(mk(arrivals={2: ["rr_beyond"]}, answer=("right", 0)))
                        cases.append(mk(arrivals={2: ["rr_beyond"]}))
                        # the peer's Logon reveals a gap, then the peer is dead: no session state may hide it from the watchdog
                        cases.append(mk(logon_gap=True))
                    if order == "timers" and (not quick or role == "acceptor" or hb == 30):
                        # the application's state callback is slow (0.25 .. 2.5 s) while the watchdog ticks; the peer's Logon
                        #   lands at every quarter-second offset from the tick grid; peer dead, or answering when the
                        #   callback is over well before the first TestRequest is due
                        for off in ((phase,) if quick else (0, 1, 2, 3)):
                            for hold in ((5, 10) if quick else (1, 4, 5, 8, 10, 14)):
                                cases.append(mk(hold=hold, logon_off=off))
                                if hold <= hq - 8:
                                    cases.append(mk(hold=hold, logon_off=off, answer=("right", 0)))
                                if phase == 0:
                                    cases.append(mk(hold=hold, logon_off=off, logon_gap=True))
                        # half-dead connection: from some step on flushing the writer fails (each OSError family member),
                        #   nothing is read any more: onset before / at / after the first TestRequest
                        for exc in ("reset", "pipe", "timeout"):
                            if quick and phase not in (0, 2) and exc != "reset":
                                continue
                            for at in sorted({0, max(0, hq - 4), hq + 2} if quick else {0, max(0, hq - 8), max(0, hq - 4), hq, hq + 2, 2 * hq}):
                                cases.append(mk(wfault=(at, exc)))
                    # inbound test requests
                    cases.append(mk(arrivals={2: ["tr"], hq: ["tr"], hq + 1: ["tr", "tr"]}, answer=("right", 0)))
    return cases


def exhaustive_cases(quick):
    """All arrival schedules on a half-second grid over 4*hb for hb in {1,2}."""
    cases = []
    for hb in (1, 2):
        slots = 8 * hb  # half-second slots over 4*hb seconds
        if quick and hb == 2:
            slot_q, n = 4, 8  # one-second grid in the quick tier
        else:
            slot_q, n = 2, slots
        for bits in range(1 << n):
            arr = {(i + 1) * slot_q: ["hb"] for i in range(n) if bits >> i & 1}
            for answer in (None, ("right", 0)):
                for order in (("timers", "peer") if (not quick or hb == 1) else ("timers",)):
                    cases.append(dict(role="acceptor", hb=hb, phase=0, order=order, horizon=n * slot_q + 4 * int(hb / Q),
                                      arrivals=arr, answer=answer))
    return cases


def run(ctx):
    CFG["S"], CFG["T"] = POOL[ctx.seed % len(POOL)]
    cs = scripted_cases(ctx.quick) + exhaustive_cases(ctx.quick)
    ctx.rule = ("real timer + reader tasks in virtual time: HeartBtInt x tick phase (quarter seconds) x peer script (silent, "
                "answering with delay, wrong / missing TestReqID, periodic traffic below/at/above the interval, bursts, inbound "
                "TestRequests) x both orders when an arrival coincides with a tick; slow on_state_change callback after the Logon "
                "(hold x Logon offset from the tick grid); writer failing with each OSError kind from step k on while nothing is read; plus ALL arrival schedules on a half-second "
                "grid over 4 intervals for HeartBtInt 1 and 2; non-trivial = run in which the watchdog sent a TestRequest or disconnected")
    ctx.bounds = {"cases": len(cs), "grid_s": Q}
    res = ctx.pmap(_work, cs, chunk=16)
    steps = 0
    for case, vs in zip(cs, res):
        steps += case["horizon"]
        for v in vs:
            ctx.merge_violations([v])
    ctx.count(states=len(cs), transitions=steps, traces=len(cs), evaluations=len(cs), nontrivial=len(cs))
    ctx.outcomes.update(v["signature"].split("|")[0] for v in ctx.violations.values())
    ctx.outcomes.add("ok")
    for c in cs[:: max(1, len(cs) // 4)][:4]:
        ctx.sample({k: (v if k != "arrivals" else sorted(v)[:10]) for k, v in c.items()})
    ctx.assumptions += ["'about' = two seconds of slack on the TestRequest threshold (both sides: none before HeartBtInt-2 s after the last inbound frame) and three on the disconnect threshold; no lower bound on the disconnect",
                        "peers that send traffic slower than HeartBtInt-1 and ignore TestRequests are unconstrained"]


def replay(ctx, rep):
    if "S" in rep:
        CFG["S"], CFG["T"] = rep["S"], rep["T"]
    case = rep["case"]
    case["arrivals"] = {int(k): v for k, v in case["arrivals"].items()}
    if case.get("answer"):
        case["answer"] = tuple(case["answer"])
    if case.get("wfault"):
        case["wfault"] = tuple(case["wfault"])
    return judge(case, simulate(case))
