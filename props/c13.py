"""C13 - the journal is a faithful per-session, per-direction message store.

Explorer C: breadth-first search over operation sequences on the REAL
``asyncfix.journaler.Journaler`` (in-memory SQLite), with the state of the
reference model R5 as dedup key.  Every (model state, operation) pair met up to
the depth bound is executed on a fresh Journaler (the operation sequence that
first reached the state is replayed, then the operation is applied) and the
observable state afterwards is compared with the model:

  R5 = per session: next_out, next_in, {(direction, n) -> payload}

Operations (menu, simplest first):
  open(s)                 create_or_load(target, sender)         s in 3 sessions
  list                    sessions()
  store(s, d, n, v)       persist_msg(payload(s,d,n,v), handle, d)
  set(s, out, in)         set_seq_num(handle, next_num_out=out, next_num_in=in)
  sseq(s, out, in)        handle.next_num_out/in = out/in (None: as loaded); store_seq_num(handle)
                          model: counters change, no message removed
Handles are always freshly loaded by CompIDs right before the call (the way
``FIXConnection.__init__`` obtains its handle).  The query operations
(recover_messages on a grid of int and digit-string bounds incl. inverted
ones, recover_msg, get_all_msgs with every filter shape, both loading paths)
form the observation that is executed after every transition.

The oracle is three-valued: it demands only what the property sentence says
(plus two behaviours pinned by tests/test_journaler.py: a new session starts at
1/1, an absent single lookup gives None).  See ``run`` -> ctx.assumptions for
what is deliberately left unconstrained.
"""
import gc
import hashlib
import os

from mc import refs

IN, OUT = 0, 1
DNAME = {IN: "in", OUT: "out"}

NUMS = [1, 2, 3, 7, 2 ** 40]
SETVALS = [None, 1, 2, 3, 8]
SSEQVALS = [None, 1, 3]  # store_seq_num: None = the value the fresh handle was loaded with
MAXI = 2 ** 63 - 1  # sys.maxsize: the "open end" FIXConnection passes for EndSeqNo=0
GRID = [0, 1, 2, 3, 7, 8, 2 ** 40, MAXI]
STR_BOUNDS = [("1", "3"), ("2", "10"), ("10", "2"), ("0", str(MAXI)), (1, "3"), ("2", 8),
              ("3", "3"), (str(2 ** 40), str(2 ** 40))]
LOOKUPS = [0, 1, 2, 3, 7, 8, 2 ** 40]

# (T, S, S2): sessions are (T,S), its mirror (S,T) and (T,S2)
# In EVERY seed T and S are different strings with the same numeric value (numeric-looking CompIDs are
# legal FIX; a store that compares them numerically merges (T,S) with its mirror), S2 is alphabetic.
POOL = [("007", "7", "SND2"), ("07", "7", "FIRM"), ("7", "007", "CLI"), ("0010", "10", "EXCH")]

COLLIDING = [("7:7", "7", "SND2"), ("A|A", "A", "FIRM"), ("X-X", "X", "CLI"), ("Q:Q", "Q", "EXCH")]

CL_RANGE = ("a stored message is returned unchanged by every range query that includes its number, in "
            "ascending number order and only for its own session and direction")
CL_STORE = "storing number n makes n+1 that direction's next number"
CL_DUP = "storing a number twice fails with the duplicate error and changes nothing"
CL_SET = "setting the counters removes exactly the messages numbered at or above the new values"
CL_LOAD = ("every way of loading a session (by CompIDs or listing all) reports the same next inbound and "
           "outbound numbers")
CL_SSEQ = ("the journal behaves like a map ... plus two counters per session (store_seq_num is documented: 'Stores "
           "current session seq nums in journal (no messages deleted)')")
CL_MAP = "the journal behaves like a map from (session, direction, sequence number) to message bytes plus two counters per session"


def session_ids(names):
    T, S, S2 = names
    return [(T, S), (S, T), (T, S2)]


# --------------------------------------------------------------------------- payloads
_PAY = {}


def payload(names, si, d, n, v):
    k = (names, si, d, n, v)
    p = _PAY.get(k)
    if p is None:
        tgt, snd = session_ids(names)[si]
        sender, target = (snd, tgt) if d == OUT else (tgt, snd)
        label = "L%d%s%d" % (si, DNAME[d], v)
        if v == 0:
            # header fields ahead of MsgSeqNum(34) contain the text "34=" (SenderSubID, a tag ending in ..34)
            p = refs.build([(35, "D"), (49, sender), (56, target), (50, "DESK34=7"), (1034, "9"), (34, n),
                            (52, "20240101-00:00:00.000"), (11, label), (55, "MSFT"), (54, 1), (38, 100), (40, 1)])
        else:
            # arbitrary bytes in a text field: 0xff, NUL, '=', a fake "34=" without SOH in front
            p = refs.frame("B", n, sender, target, [(148, label), (58, "x\xff\x00y=34=9 z")])
        _PAY[k] = p
    return p


def all_payloads(names):
    rev = {}
    for si in range(3):
        for d in (IN, OUT):
            for n in NUMS:
                for v in (0, 1):
                    rev[payload(names, si, d, n, v)] = (si, d, n, v)
    return rev


# --------------------------------------------------------------------------- model R5
def m_init():
    return (None, None, None)


# file-backed variant (mode 2): the mirror pair only, a smaller alphabet, plus `reopen`
F_NUMS = [1, 3, 7]
F_VALS = [None, 1, 3]
MEM3, MEM2, FILE2 = 0, 1, 2


def m_enabled(state, mode=MEM3):
    """Menu, simplest first. mode MEM2: the third session (T,S2) may not be opened (deepest thorough level);
    FILE2: file-backed journal, mirror pair, reduced alphabet, `reopen` enabled."""
    if mode is True:
        mode = MEM3
    elif mode is False:
        mode = MEM2
    if mode == FILE2:
        ops = [("open", 0), ("open", 1), ("list",), ("reopen",)]
        for si in range(2):
            if state[si] is None:
                continue
            for n in F_NUMS:
                for d in (OUT, IN):
                    ops.append(("store", si, d, n, 0))
        for kind in ("set", "sseq"):
            for si in range(2):
                if state[si] is None:
                    continue
                for o in F_VALS:
                    for i in F_VALS:
                        ops.append((kind, si, o, i))
        return ops
    third = mode == MEM3
    ops = [("open", 0), ("open", 1), ("open", 2), ("list",)] if third else [("open", 0), ("open", 1), ("list",)]
    for si in range(3):
        if state[si] is None:
            continue
        for n in NUMS:
            for d in (OUT, IN):
                for v in (0, 1):
                    ops.append(("store", si, d, n, v))
    for si in range(3):
        if state[si] is None:
            continue
        for o in SETVALS:
            for i in SETVALS:
                ops.append(("set", si, o, i))
    for si in range(3):
        if state[si] is None:
            continue
        for o in SSEQVALS:
            for i in SSEQVALS:
                ops.append(("sseq", si, o, i))
    return ops


def m_step(state, op):
    """-> (new state, info). state[si] = None | (next_out, next_in, frozenset(((d, n), v)))"""
    st = list(state)
    kind = op[0]
    if kind == "open":
        si = op[1]
        if st[si] is None:
            st[si] = (1, 1, frozenset())
            return tuple(st), {"cls": "open_new"}
        return state, {"cls": "open_existing"}
    if kind == "list":
        return state, {"cls": "list"}
    if kind == "reopen":
        # dropping the Journaler and opening the same file again changes nothing
        low = any(s is not None and any(k[1] >= (s[0] if k[0] == OUT else s[1]) for k, _ in s[2]) for s in st)
        return state, {"cls": "reopen", "cause": "counter_not_above_highest_stored_number" if low else "counters_above_all_stored_numbers"}
    if kind == "store":
        _, si, d, n, v = op
        o, i, ms = st[si]
        for (k, v0) in ms:
            if k == (d, n):
                return state, {"cls": "store_dup", "same_payload": v0 == v}
        rel = []
        if any(k == (1 - d, n) for k, _ in ms):
            rel.append("same_number_in_other_direction")
        others = [sj for sj in range(3) if sj != si]
        others.sort(key=lambda sj: 0 if {si, sj} == {0, 1} else 1)  # the mirror image first
        for sj in others:
            if st[sj] is not None and any(k[1] == n for k, _ in st[sj][2]):
                rel.append("same_number_in_" + ("mirror_session" if {si, sj} == {0, 1} else "other_session"))
        cur = o if d == OUT else i
        order = "next" if n == cur else ("below_counter" if n < cur else "above_counter")
        ms = ms | {((d, n), v)}
        if d == OUT:
            o = n + 1
        else:
            i = n + 1
        st[si] = (o, i, ms)
        return tuple(st), {"cls": "store_new", "rel": rel[0] if rel else "number_unused_elsewhere", "order": order}
    if kind == "set":
        _, si, no, ni = op
        o, i, ms = st[si]
        if no is not None:
            o = no
        if ni is not None:
            i = ni
        keep = frozenset((k, v) for k, v in ms if k[1] < (o if k[0] == OUT else i))
        removed = len(ms) - len(keep)
        st[si] = (o, i, keep)
        return tuple(st), {"cls": "set", "removed": removed, "kept": len(keep), "new": {OUT: o, IN: i},
                           "explicit": {OUT: no is not None, IN: ni is not None}}
    if kind == "sseq":
        # store_seq_num(handle): "Stores current session seq nums in journal (no messages deleted)"
        _, si, no, ni = op
        o, i, ms = st[si]
        if no is not None:
            o = no
        if ni is not None:
            i = ni
        above = sum(1 for k, _ in ms if k[1] >= (o if k[0] == OUT else i))
        st[si] = (o, i, ms)
        return tuple(st), {"cls": "sseq", "above": above, "new": {OUT: o, IN: i},
                           "explicit": {OUT: no is not None, IN: ni is not None}}
    raise ValueError(op)


def m_key(state, pending=frozenset()):
    """Canonical dedup key (16-byte digest): model state + `pending` (see m_pending)."""
    canon = tuple(None if s is None else (s[0], s[1], tuple(sorted(s[2]))) for s in state)
    return hashlib.blake2b(repr((canon, sorted(pending))).encode(), digest_size=16).digest()


def m_pending(pending, op, info):
    """Refinement of the dedup key by possibly-unsaved work.  persist_msg is the operation documented to
    commit ("Commits encoded fix message into DB"); session creations and counter settings made since the
    last successful store are remembered (which session, which kind), so that histories such as
    open(new session) -> duplicate store are not folded into open -> store -> duplicate store."""
    c = info["cls"]
    if c == "store_new":
        return frozenset()
    if c == "open_new":
        return pending | {("open", op[1])}
    if c == "set":
        return pending | {("set", op[1])}
    if c == "sseq":
        return pending | {("sseq", op[1])}
    if c == "reopen":
        return frozenset({("reopened",)})  # a fresh connection: keep exploring behind the reopen
    return pending


# --------------------------------------------------------------------------- real side
class Real:
    """Thin driver around one real Journaler; counts public-method calls."""

    def __init__(self, names, path=None):
        from asyncfix.journaler import Journaler
        from asyncfix.message import MessageDirection
        from asyncfix.errors import DuplicateSeqNoError

        self.J = Journaler
        self.path = path
        self.j = Journaler(path)
        self.names = names
        self.sids = session_ids(names)
        self.D = {IN: MessageDirection.INBOUND, OUT: MessageDirection.OUTBOUND}
        self.Dup = DuplicateSeqNoError
        self.calls = 0
        self.dup_left_txn = 0

    def drop(self):
        self.j = None
        gc.collect()
        if self.path:
            for suffix in ("", "-journal", "-wal", "-shm"):
                try:
                    os.unlink(self.path + suffix)
                except OSError:
                    pass

    def load(self, si):
        self.calls += 1
        t, s = self.sids[si]
        return self.j.create_or_load(t, s)

    def apply(self, op):
        """-> outcome tuple; never raises."""
        kind = op[0]
        try:
            if kind == "open":
                h = self.load(op[1])
                return ("ok", h)
            if kind == "list":
                self.calls += 1
                return ("ok", self.j.sessions())
            if kind == "reopen":
                # never close explicitly: drop the object (its __del__ closes), collect, open the same file
                self.calls += 1
                self.j = None
                gc.collect()
                self.j = self.J(self.path)
                return ("ok", None)
            if kind == "store":
                _, si, d, n, v = op
                h = self.load(si)
                self.calls += 1
                try:
                    self.j.persist_msg(payload(self.names, si, d, n, v), h, self.D[d])
                except self.Dup as e:
                    if _in_txn(self.j) is True:
                        self.dup_left_txn += 1
                    return ("dup", str(e)[:80])
                return ("ok", None)
            if kind == "set":
                _, si, no, ni = op
                h = self.load(si)
                self.calls += 1
                r = self.j.set_seq_num(h, next_num_out=no, next_num_in=ni)
                return ("ok", r)
            if kind == "sseq":
                _, si, no, ni = op
                h = self.load(si)
                if no is not None:
                    h.next_num_out = no
                if ni is not None:
                    h.next_num_in = ni
                self.calls += 1
                r = self.j.store_seq_num(h)
                return ("ok", r)
        except Exception as e:  # noqa
            return ("exc", type(e).__name__ + ": " + str(e)[:120])
        raise ValueError(op)


def _in_txn(j):
    try:
        return bool(j.conn.in_transaction)
    except Exception:
        return None


def _bclass(lo, hi):
    a, b = isinstance(lo, str), isinstance(hi, str)
    return "str_bounds" if a and b else ("mixed_bounds" if a or b else "int_bounds")


class Judge:
    def __init__(self, names, rev):
        self.names = names
        self.rev = rev
        self.v = []
        self.evals = 0
        self.outcomes = set()

    def add(self, sig, clause, detail):
        for x in self.v:
            if x[0] == sig:
                return
        self.v.append((sig, clause, detail))


def _opclause(info):
    c = info["cls"]
    if c == "store_new":
        return "store", CL_STORE
    if c == "store_dup":
        return "duplicate", CL_DUP
    if c == "set":
        return "set_counters", CL_SET
    if c == "sseq":
        return "store_seq_num", CL_SSEQ
    if c == "reopen":
        return "reopen", CL_MAP + " - re-opening the journal file changes nothing (storing n makes n+1 the next number; every way of loading reports the same numbers)"
    return "load", CL_MAP  # open / list must not change anything that exists


def judge_transition(real, state0, op, state1, info, outcome, full, J):
    """Compare the outcome of `op` and the observable state after it with the model."""
    names = real.names
    cls = info["cls"]
    tag, oclause = _opclause(info)
    J.outcomes.add((op[0], outcome[0], cls))
    # ---- 1. outcome of the operation itself
    if outcome[0] == "exc":
        J.add("%s|unexpected_exception" % ("open" if op[0] == "open" else op[0]), CL_MAP,
              {"op": op, "exception": outcome[1]})
        return
    if cls == "store_new" and outcome[0] != "ok":
        J.add("store|refused_fresh_number:%s" % info["rel"], CL_MAP + " (a number is a duplicate only within "
              "its own session and direction)", {"op": op, "outcome": outcome})
    if cls == "store_dup" and outcome[0] != "dup":
        J.add("duplicate|no_error:%s" % ("same_payload" if info["same_payload"] else "different_payload"),
              CL_DUP, {"op": op, "outcome": outcome[0]})
    if op[0] == "open":
        h = outcome[1]
        si = op[1]
        t, s = real.sids[si]
        exp = state1[si]
        got = (_g(h, "target_comp_id"), _g(h, "sender_comp_id"), _g(h, "next_num_out"), _g(h, "next_num_in"))
        J.evals += 1
        if got[:2] != (t, s):
            J.add("load_paths|returned_handle_compids_wrong", CL_LOAD, {"op": op, "got": got, "expected": (t, s)})
        elif got[2:] != (exp[0], exp[1]):
            J.add("open|returned_counters_wrong:%s" % cls, CL_LOAD + " (new session starts at 1/1: pinned by "
                  "test_create_or_load)", {"op": op, "got": got[2:], "expected": (exp[0], exp[1])})
    # ---- 2. observable state
    observe(real, state1, op, info, full, J)


def _g(o, a):
    return getattr(o, a, "<no attribute>")


def observe(real, state, op, info, full, J):
    j = real.j
    names = real.names
    rev = J.rev
    tag, oclause = _opclause(info)
    condemned = False
    op_si = op[1] if len(op) > 1 else None
    # ---- loading paths
    try:
        real.calls += 1
        listing = j.sessions()
        lkeys = set(listing.keys())
    except Exception as e:  # noqa
        J.add("load_paths|listing_raises", CL_LOAD, {"exception": repr(e)[:200]})
        return
    exist = [si for si in range(3) if state[si] is not None]
    want = {real.sids[si] for si in exist}
    J.evals += 1
    if lkeys - want:
        J.add("load_paths|phantom_session_in_listing:after_%s" % info["cls"], CL_LOAD, {"listed": sorted(map(repr, lkeys)), "created": sorted(map(repr, want))})
        condemned = True
    handles = {}
    for si in exist:
        t, s = real.sids[si]
        try:
            h = real.load(si)
        except Exception as e:  # noqa
            J.add("load_paths|load_by_compids_raises", CL_LOAD, {"session": (t, s), "exception": repr(e)[:200]})
            return
        handles[si] = h
        mo, mi = state[si][0], state[si][1]
        ho, hi = _g(h, "next_num_out"), _g(h, "next_num_in")
        J.evals += 2
        if (_g(h, "target_comp_id"), _g(h, "sender_comp_id")) != (t, s):
            J.add("load_paths|returned_handle_compids_wrong", CL_LOAD, {"session": (t, s), "got": repr(h)})
            condemned = True
        for dn, got, exp in ((OUT, ho, mo), (IN, hi, mi)):
            if got != exp:
                # attribute to the operation that produced the model value
                if op[0] in ("store", "set", "sseq") and op_si == si:
                    if info["cls"] == "store_new":
                        what = "next_%s_wrong_after_storing_%s" % (DNAME[dn], DNAME[op[2]])
                    elif info["cls"] == "store_dup":
                        what = "counter_changed"
                    else:
                        what = "next_%s_wrong:%s" % (DNAME[dn], "explicit" if info["explicit"][dn] else "kept")
                    J.add("%s|%s" % (tag, what), oclause + " (as reported by loading the session by CompIDs)",
                          {"op": op, "session": (t, s), "counter": "next_" + DNAME[dn], "got": got, "expected": exp})
                elif op[0] == "reopen":
                    J.add("reopen|next_%s_changed:%s" % (DNAME[dn], info["cause"]), oclause,
                          {"op": op, "session": (t, s), "counter": "next_" + DNAME[dn], "got": got, "expected": exp})
                else:
                    J.add("%s|counter_of_%s_session_changed:next_%s" % (tag, "same" if op_si == si else "another", DNAME[dn]),
                          CL_MAP + " (an operation changes only the counters it addresses)",
                          {"op": op, "session": (t, s), "counter": "next_" + DNAME[dn], "got": got, "expected": exp})
        lh = listing.get((t, s)) if (t, s) in lkeys else None
        if lh is None:
            J.add("load_paths|session_missing_in_listing:after_%s" % info["cls"], CL_LOAD, {"session": (t, s), "after": op, "listed": sorted(map(repr, lkeys))})
            condemned = True
            continue
        J.evals += 3
        if _g(lh, "key") != _g(h, "key"):
            J.add("load_paths|key_differs", CL_LOAD + " (the two handles must address the same store)",
                  {"session": (t, s), "by_compids": _g(h, "key"), "listing": _g(lh, "key")})
        lo_, li_ = _g(lh, "next_num_out"), _g(lh, "next_num_in")
        if lo_ != ho:
            J.add("load_paths|next_out_differs", CL_LOAD,
                  {"session": (t, s), "by_compids": ho, "listing": lo_, "model": mo, "after": op})
        if li_ != hi:
            J.add("load_paths|next_in_differs", CL_LOAD,
                  {"session": (t, s), "by_compids": hi, "listing": li_, "model": mi, "after": op})
    keys = [_g(handles[si], "key") for si in exist]
    if len(set(map(repr, keys))) != len(keys):
        J.add("load_paths|two_sessions_share_a_key", CL_RANGE, {"keys": keys, "sessions": [real.sids[si] for si in exist]})
        condemned = True
    # ---- content through the widest range query of every (session, direction)
    for si in exist:
        for d in (OUT, IN):
            exp_items = sorted((k[1], v) for k, v in state[si][2] if k[0] == d)
            exp = [payload(names, si, d, n, v) for n, v in exp_items]
            try:
                real.calls += 1
                got = j.recover_messages(handles[si], real.D[d], 0, MAXI)
            except Exception as e:  # noqa
                J.add("range_query|raises:int_bounds", CL_RANGE, {"bounds": (0, MAXI), "exception": repr(e)[:200]})
                condemned = True
                continue
            J.evals += 1
            if got and d == OUT:
                J.outcomes.add(("wide", min(len(got), 3)))
            if got == exp:
                continue
            condemned = True
            kind = _content_diff(rev, si, d, state, exp_items, got, op, info)
            J.add("%s|%s" % (tag, kind), oclause if tag != "load" else CL_MAP,
                  {"op": op, "session": real.sids[si], "direction": DNAME[d],
                   "returned_numbers": [_num(rev, b) for b in got][:12], "expected_numbers": [n for n, _ in exp_items],
                   "query": "recover_messages(0, 2**63-1)"})
    if condemned or J.v and any(not x[0].startswith("load_paths|next_") for x in J.v):
        return
    if not full:
        # medium observation: also the complete dump
        _check_all(real, state, handles, exist, None, None, "unfiltered", J)
        return
    # ---- full grid
    for si in exist:
        h = handles[si]
        for d in (OUT, IN):
            items = sorted((k[1], v) for k, v in state[si][2] if k[0] == d)
            bounds = [(lo, hi) for lo in GRID for hi in GRID] + STR_BOUNDS
            for lo, hi in bounds:
                ilo, ihi = int(lo), int(hi)
                exp = [payload(names, si, d, n, v) for n, v in items if ilo <= n <= ihi]
                try:
                    real.calls += 1
                    got = j.recover_messages(h, real.D[d], lo, hi)
                except Exception as e:  # noqa
                    J.add("range_query|raises:%s" % _bclass(lo, hi), CL_RANGE, {"bounds": (lo, hi), "exception": repr(e)[:200]})
                    continue
                J.evals += 1
                if got == exp:
                    continue
                kind = _range_diff(rev, si, d, items, ilo, ihi, got, exp)
                J.add("range_query|%s|%s" % (kind, _bclass(lo, hi)), CL_RANGE,
                      {"session": real.sids[si], "direction": DNAME[d], "bounds": (lo, hi),
                       "returned_numbers": [_num(rev, b) for b in got][:12],
                       "expected_numbers": [n for n, _ in items if ilo <= n <= ihi], "stored_numbers": [n for n, _ in items]})
            have = dict(items)
            for n in LOOKUPS:
                exp = payload(names, si, d, n, have[n]) if n in have else None
                try:
                    real.calls += 1
                    got = j.recover_msg(h, real.D[d], n)
                except Exception as e:  # noqa
                    J.add("lookup|raises", CL_RANGE, {"n": n, "exception": repr(e)[:200]})
                    continue
                J.evals += 1
                if got != exp:
                    kind = "stored_message_not_found" if exp is not None and got is None else (
                        "found_absent_number" if exp is None else "wrong_message")
                    J.add("lookup|%s" % kind, CL_RANGE + " (single lookup = range [n, n]; None when absent: pinned by test_persist_recover)",
                          {"session": real.sids[si], "direction": DNAME[d], "n": n, "got": got, "expected": exp})
    # ---- get_all_msgs with each filter shape
    _check_all(real, state, handles, exist, None, None, "unfiltered", J)
    for d in (OUT, IN):
        _check_all(real, state, handles, exist, None, d, "direction_only", J)
    for si in exist:
        _check_all(real, state, handles, exist, [si], None, "one_session", J)
        _check_all(real, state, handles, exist, [si], None, "one_session_by_key", J, by_key=True)
        for d in (OUT, IN):
            _check_all(real, state, handles, exist, [si], d, "one_session_and_direction", J)
    if len(exist) >= 2:
        _check_all(real, state, handles, exist, exist[:2], None, "two_sessions", J)
        _check_all(real, state, handles, exist, exist[-2:], OUT, "two_sessions_and_direction", J)


def _num(rev, b):
    r = rev.get(b)
    if r is None:
        return "?"
    return "%s%s:%d" % ("s%d." % r[0], DNAME[r[1]], r[2])


def _content_diff(rev, si, d, state, exp_items, got, op, info):
    """Classify how the complete content of (si, d) differs from the model (cause relative to the last op)."""
    want = dict(exp_items)
    seen = {}
    kinds = []
    op_si = op[1] if len(op) > 1 else None
    for b in got:
        r = rev.get(b)
        if r is None:
            kinds.append("bytes_altered")
            continue
        sj, dj, n, v = r
        if sj != si:
            kinds.append("returns_message_of_%s_session" % ("mirror" if {si, sj} == {0, 1} else "other"))
        elif dj != d:
            kinds.append("returns_message_of_other_direction")
        elif n not in want:
            if info["cls"] == "set" and op_si == si and n >= info["new"][d]:
                kinds.append("not_removed_at_or_above_new_value:%s" % ("explicit" if info["explicit"][d] else "kept"))
            else:
                kinds.append("returns_removed_or_never_stored_number")
        elif want[n] != v:
            kinds.append("stored_bytes_replaced")
        elif n in seen:
            kinds.append("returned_twice")
        seen[n] = v
    for n, v in exp_items:
        if n not in seen:
            if info["cls"] == "set":
                if op_si != si:
                    kinds.append("removed_in_%s_session" % ("mirror" if {si, op_si} == {0, 1} else "other"))
                elif n < info["new"][d]:
                    kinds.append("removed_below_new_value:%s" % ("explicit" if info["explicit"][d] else "kept"))
                else:
                    kinds.append("message_lost")
            elif info["cls"] == "sseq":
                if op_si != si:
                    kinds.append("removed_in_%s_session" % ("mirror" if {si, op_si} == {0, 1} else "other"))
                elif n >= info["new"][d]:
                    kinds.append("removed_at_or_above_stored_counter:%s" % ("explicit" if info["explicit"][d] else "kept"))
                else:
                    kinds.append("removed_below_stored_counter")
            elif info["cls"] == "store_new" and op[1:4] == (si, d, n):
                kinds.append("stored_message_not_returned")
            elif info["cls"] in ("store_new", "store_dup"):
                if op_si != si:
                    kinds.append("message_lost_in_%s_session" % ("mirror" if {si, op_si} == {0, 1} else "other"))
                elif op[2] != d:
                    kinds.append("message_lost_in_other_direction")
                else:
                    kinds.append("message_lost_same_direction")
            else:
                kinds.append("message_lost")
    if not kinds:
        nums = [rev[b][2] for b in got]
        kinds.append("not_ascending" if nums != sorted(nums) else "content_differs")
    return sorted(set(kinds))[0]


def _range_diff(rev, si, d, items, lo, hi, got, exp):
    have = dict(items)
    got_n = []
    for b in got:
        r = rev.get(b)
        if r is None:
            return "bytes_altered"
        sj, dj, n, v = r
        if sj != si:
            return "returns_message_of_%s_session" % ("mirror" if {si, sj} == {0, 1} else "other")
        if dj != d:
            return "returns_message_of_other_direction"
        if have.get(n) != v:
            return "returns_message_not_in_store"
        if not (lo <= n <= hi):
            if lo > hi:
                return "inverted_bounds_return_messages"
            return "returns_number_below_lower_bound" if n < lo else "returns_number_above_upper_bound"
        got_n.append(n)
    for n, _ in items:
        if lo <= n <= hi and n not in got_n:
            if n == lo and n == hi:
                return "omits_number_equal_to_both_bounds"
            if n == lo:
                return "omits_number_equal_to_lower_bound"
            if n == hi:
                return "omits_number_equal_to_upper_bound"
            return "omits_number_inside_bounds"
    if got_n != sorted(got_n):
        return "not_ascending"
    return "returned_twice" if len(got_n) != len(set(got_n)) else "content_differs"


def _check_all(real, state, handles, exist, sfilter, dfilter, fclass, J, by_key=False):
    names = real.names
    exp = []
    for si in exist:
        if sfilter is not None and si not in sfilter:
            continue
        key = _g(handles[si], "key")
        for (d, n), v in state[si][2]:
            if dfilter is not None and d != dfilter:
                continue
            exp.append((n, payload(names, si, d, n, v), real.D[d].value, key))
    kw = {}
    if sfilter is not None:
        kw["sessions"] = [(_g(handles[si], "key") if by_key else handles[si]) for si in sfilter]
    if dfilter is not None:
        kw["direction"] = real.D[dfilter]
    try:
        real.calls += 1
        got = real.j.get_all_msgs(**kw)
        got_t = [tuple(x) for x in got]
    except Exception as e:  # noqa
        J.add("get_all_msgs|raises:%s" % fclass, CL_MAP, {"filter": fclass, "exception": repr(e)[:200]})
        return
    J.evals += 1
    ks = lambda r: (repr(r[3]), r[2], r[0], r[1]) if len(r) == 4 else (repr(r),)  # noqa
    try:
        a, b = sorted(got_t, key=ks), sorted(exp, key=ks)
    except Exception:
        a, b = got_t, exp
    if a == b:
        return
    sa, sb = set(a), set(b)
    kind = "row_missing" if sb - sa else ("extra_row" if sa - sb else "row_repeated")
    if (sb - sa) and (sa - sb):
        kind = "row_fields_differ"
    J.add("get_all_msgs|%s:%s" % (kind, fclass), CL_MAP + " (get_all_msgs lists exactly the stored entries that pass the filter; order not constrained)",
          {"filter": fclass, "sessions": None if sfilter is None else [real.sids[s] for s in sfilter],
           "direction": None if dfilter is None else DNAME[dfilter],
           "got": [(r[0], r[2], r[3]) if len(r) == 4 else repr(r) for r in a][:10],
           "expected": [(r[0], r[2], r[3]) for r in b][:10]})


# --------------------------------------------------------------------------- one case
_TMP = {"dir": None, "n": 0}


def _path():
    _TMP["n"] += 1
    return os.path.join(_TMP["dir"], "j%d_%d.store" % (os.getpid(), _TMP["n"]))


def _pre_observe(real, state):
    """Every read-only call of the journal, results ignored: the observers must not change what the next operation
    and the observation after it see (anything the object remembers from a read is hidden state the model key
    cannot contain)."""
    j = real.j
    try:
        j.sessions()
    except Exception:  # noqa
        pass
    for si in range(3):
        if state[si] is None:
            continue
        try:
            h = real.load(si)
            for d in (IN, OUT):
                j.recover_messages(h, real.D[d], 0, MAXI)
                j.recover_msg(h, real.D[d], 1)
            j.get_all_msgs([h.key])
        except Exception:  # noqa
            pass
    try:
        j.get_all_msgs()
        j.sessions()
    except Exception:  # noqa
        pass


def run_case(names, ops, full=True, filemode=False, preobs=False):
    """Replay ops[:-1] on a fresh real Journaler, apply ops[-1], judge. -> (violations, stats)
    preobs: every observer is called once between the prefix and the last operation ("observers are pure")."""
    names = tuple(names)
    ops = [tuple(o) for o in ops]
    rev = _REV.get(names)
    if rev is None:
        rev = _REV[names] = all_payloads(names)
    own_tmp = None
    if filemode and _TMP["dir"] is None:  # replay outside the explorer
        from mc.world import TmpDir
        own_tmp = TmpDir()
        _TMP["dir"] = own_tmp.path
    real = Real(names, _path() if filemode else None)
    state = m_init()
    for op in ops[:-1]:
        state, _ = m_step(state, op)
        real.apply(op)
    last = ops[-1]
    state1, info = m_step(state, last)
    if preobs:
        _pre_observe(real, state)
    outcome = real.apply(last)
    J = Judge(names, rev)
    judge_transition(real, state, last, state1, info, outcome, full, J)
    tainted = 0
    if len(ops) > 1 and any(not x[0].startswith(PATHS_ONLY) for x in J.v):
        # Attribute a divergence to the FIRST operation that causes it: if the state before the last
        # operation already differs from the model, the prefix (itself an explored transition) reports it.
        pre = Real(names, _path() if filemode else None)
        for op in ops[:-1]:
            pre.apply(op)
        J0 = Judge(names, rev)
        observe(pre, state, ("list",), {"cls": "list"}, False, J0)
        real.calls += pre.calls
        if filemode:
            pre.drop()
        if any(not x[0].startswith(PATHS_ONLY) for x in J0.v):
            tainted = 1
            J.v = [x for x in J.v if x[0].startswith(PATHS_ONLY)]
    out = []
    for sig, clause, detail in J.v:
        if preobs:
            sig = "observer_changes_outcome:" + sig
            detail = dict(detail, note="the same sequence without the read-only calls before the last operation is fine")
        out.append({"signature": sig, "clause": clause,
                    "detail": dict(detail, sequence=[list(o) for o in ops]),
                    "replay": {"names": list(names), "ops": [list(o) for o in ops], "full": bool(full),
                               "file": bool(filemode), "preobs": bool(preobs)}})
    if filemode:
        real.drop()
        if own_tmp is not None:
            own_tmp.cleanup()
            _TMP["dir"] = None
    nontrivial = _nontrivial(info)
    return out, (real.calls, J.evals, J.outcomes, real.dup_left_txn, nontrivial, tainted)


_REV = {}
PATHS_ONLY = "load_paths|next_"  # disagreement between the two real loading paths: judged without the model


def _nontrivial(info):
    c = info["cls"]
    if c == "store_dup":
        return True
    if c == "store_new":
        return info["rel"] != "number_unused_elsewhere" or info["order"] == "below_counter"
    if c == "set":
        return info["removed"] > 0 and info["kept"] > 0
    if c == "sseq":
        return info["above"] > 0  # counters stored below existing rows
    if c == "reopen":
        return info["cause"] == "counter_not_above_highest_stored_number"
    return False


# --------------------------------------------------------------------------- explorer
NAMES = None
FULL_ALL = True


def _expand(item):
    """item = (parent op sequence, indices of enabled ops whose successor state is new)."""
    seq, newidx, mode = item
    if mode == FILE2 and not _TMP.get("frozen"):
        gc.freeze()  # makes the gc.collect() after every dropped Journaler cheap in this worker
        _TMP["frozen"] = True
    state = m_init()
    for op in seq:
        state, _ = m_step(state, op)
    viol = {}
    calls = evals = txn = nontriv = n = taint = 0
    outcomes = set()
    for idx, op in enumerate(m_enabled(state, mode)):
        full = FULL_ALL or idx in newidx
        vs, (c, e, oc, t, nt, tn) = run_case(NAMES, list(seq) + [op], full, mode == FILE2)
        if not vs and not tn and seq:
            # differential pass: the same transition with every observer called before the operation
            vs, (c2, e2, oc2, _t2, _nt2, tn2) = run_case(NAMES, list(seq) + [op], False, mode == FILE2, preobs=True)
            c += c2
            e += e2
            if tn2:
                vs = []
        taint += tn
        n += 1
        calls += c
        evals += e
        txn += t
        nontriv += 1 if nt else 0
        outcomes |= oc
        for v in vs:
            cur = viol.get(v["signature"])
            if cur is None:
                v["count"] = 1
                viol[v["signature"]] = v
            else:
                cur["count"] += 1
    return n, calls, evals, txn, nontriv, sorted(outcomes, key=repr), list(viol.values()), taint


def run(ctx):
    global NAMES, FULL_ALL
    NAMES = POOL[ctx.seed % len(POOL)]
    depth = 4 if ctx.quick else 6
    full_depth = 4 if ctx.quick else 5  # transitions at depth <= full_depth get the full observation;
    # deeper ones get it when the successor model state is new, the medium observation otherwise
    ctx.rule = ("depth %d%s; " % (depth, "" if ctx.quick else " (depth 5 over all three sessions with the full observation everywhere; depth 6 "
                "over the mirror pair (T,S),(S,T) only, expanded from one representative per pure model state, full observation where the successor model state is new, "
                "loading paths + widest range queries + unfiltered get_all_msgs otherwise)") +
                "dedup key = reference model state + the set of (session, kind) of session creations / counter settings "
                "made since the last successful store (possibly unsaved work); "
                "BFS over operation sequences {open x3 sessions (T,S),(S,T),(T,S2); list; store x sessions x 2 directions x "
                "n in {1,2,3,7,2^40} x 2 payloads; set_seq_num x sessions x {None,1,2,3,8}^2; store_seq_num x sessions x handle counters {kept,1,3}^2 (incl. below existing rows)} with the reference model state as "
                "dedup key; every (model state, op) pair up to the depth is executed on a fresh in-memory Journaler by replaying "
                "the representative sequence; after it both loading paths, the widest range query per (session,direction), and "
                "(full observation) all range queries on an 8x8 int bound grid + 8 digit-string/mixed pairs, 7 single lookups "
                "and get_all_msgs with 7 filter shapes are compared with the model. non-trivial = duplicate store, store of a "
                "number that exists in another direction/session or lies below the counter, a set that removes some and "
                "keeps some messages, a store_seq_num below existing rows, or a reopen while a counter is not above the "
                "highest stored number. SECOND, separate BFS (depth %d, same dedup key, full observation): FILE-backed journal "
                "(temporary directory, /dev/shm preferred), mirror pair only, n in {1,3,7}, one payload, set_seq_num / "
                "store_seq_num values {None,1,3}^2, plus `reopen` = drop the Journaler object, gc.collect(), open the same "
                "file again; model: reopen changes nothing" % (4 if ctx.quick else 5))
    seen = {m_key(m_init())}
    level = [((), m_init(), frozenset())]
    tot = dict(tr=0, calls=0, evals=0, txn=0, nontriv=0, taint=0)
    per_level = []
    last_level = level
    for dpt in range(1, depth + 1):
        FULL_ALL = dpt <= full_depth
        third = dpt <= full_depth  # deepest thorough level: only the mirror pair (T,S),(S,T)
        if not third:
            # ... and one representative per pure model state (the refinement by unsaved work is not
            # carried into the deepest level: it would double the 4.5M transitions of that level)
            reps, pure = [], set()
            for x in level:
                if x[1][2] is None:
                    k0 = m_key(x[1])
                    if k0 not in pure:
                        pure.add(k0)
                        reps.append(x)
            level = reps
        items = []
        nxt = []
        for seq, state, pend in level:
            newidx = []
            for idx, op in enumerate(m_enabled(state, MEM3 if third else MEM2)):
                s2, inf = m_step(state, op)
                p2 = m_pending(pend, op, inf)
                k = m_key(s2, p2)
                if k not in seen:
                    seen.add(k)
                    newidx.append(idx)
                    if dpt < depth:
                        nxt.append((seq + (op,), s2, p2))
            items.append((seq, frozenset(newidx), MEM3 if third else MEM2))
        res = ctx.pmap(_expand, items, chunk=max(1, min(64, len(items) // (ctx.workers * 6) or 1)))
        ltr = 0
        for (n, calls, evals, txn, nontriv, outcomes, viols, taint) in res:
            ltr += n
            tot["taint"] += taint
            tot["tr"] += n
            tot["calls"] += calls
            tot["evals"] += evals
            tot["txn"] += txn
            tot["nontriv"] += nontriv
            ctx.outcomes.update(tuple(o) for o in outcomes)
            ctx.merge_violations(viols)
        per_level.append({"depth": dpt, "new_states": len(nxt) if dpt < depth else None, "transitions": ltr,
                          "sessions": 3 if third else "2 (mirror pair only)",
                          "observation": "full" if FULL_ALL else "full on new states, medium otherwise"})
        if nxt:
            last_level = nxt
        level = nxt
    # ---- second, smaller BFS: FILE-backed journal with the `reopen` operation
    from mc.world import TmpDir
    fdepth = 4 if ctx.quick else 5
    mem_tr = tot["tr"]
    seen_f = {m_key(m_init())}
    level = [((), m_init(), frozenset())]
    FULL_ALL = True
    # CompIDs of this pass: T contains the separators a careless composite key would join with, so that (T,S) and
    # its mirror (S,T) render to the same string under "T<sep>S" for ':' - legal FIX strings, distinct sessions
    NAMES = COLLIDING[ctx.seed % len(COLLIDING)]
    tmp = TmpDir()
    _TMP["dir"] = tmp.path
    try:
        for dpt in range(1, fdepth + 1):
            items, nxt = [], []
            for seq, state, pend in level:
                newidx = []
                for idx, op in enumerate(m_enabled(state, FILE2)):
                    s2, inf = m_step(state, op)
                    p2 = m_pending(pend, op, inf)
                    k = m_key(s2, p2)
                    if k not in seen_f:
                        seen_f.add(k)
                        newidx.append(idx)
                        if dpt < fdepth:
                            nxt.append((seq + (op,), s2, p2))
                items.append((seq, frozenset(newidx), FILE2))
            res = ctx.pmap(_expand, items, chunk=max(1, min(32, len(items) // (ctx.workers * 6) or 1)))
            ltr = 0
            for (n, calls, evals, txn, nontriv, outcomes, viols, taint) in res:
                ltr += n
                tot["taint"] += taint
                tot["tr"] += n
                tot["calls"] += calls
                tot["evals"] += evals
                tot["nontriv"] += nontriv
                ctx.outcomes.update(tuple(o) for o in outcomes)
                ctx.merge_violations(viols)
            per_level.append({"depth": dpt, "journal": "file + reopen", "new_states": len(nxt) if dpt < fdepth else None,
                              "transitions": ltr, "sessions": "2 (mirror pair only)", "observation": "full"})
            level = nxt
    finally:
        _TMP["dir"] = None
        tmp.cleanup()
    ctx.count(file_backed_states=len(seen_f), file_backed_transitions=tot["tr"] - mem_tr)
    seen = list(seen) + [b"F" + k for k in seen_f]
    ctx.count(states=len(seen), transitions=tot["tr"], traces=tot["tr"], evaluations=tot["evals"],
              nontrivial=tot["nontriv"], journaler_calls=tot["calls"], duplicate_left_open_transaction=tot["txn"],
              transitions_not_judged_because_prefix_diverged=tot["taint"])
    ctx.bounds = {"depth": depth, "file_backed_depth": fdepth, "file_backed_numbers": F_NUMS,
                  "file_backed_set_and_store_seq_num_values": [str(v) for v in F_VALS], "sessions": [list(s) for s in session_ids(NAMES)], "numbers": NUMS,
                  "set_values": [str(v) for v in SETVALS], "store_seq_num_values": [str(v) for v in SSEQVALS], "int_bound_grid": GRID, "string_bounds": [list(b) for b in STR_BOUNDS],
                  "lookups": LOOKUPS, "payload_variants": 2, "per_level": per_level}
    ctx.sample({"sequence": [["open", 0], ["store", 0, OUT, 1, 0], ["list"]], "meaning": "store(s, direction 1=out/0=in, n, payload variant)"})
    for seq, _, _ in last_level[:: max(1, len(last_level) // 4)][:4]:
        ctx.sample({"sequence": [list(o) for o in seq]})
    if tot["txn"]:
        ctx.notes.append("hidden state, not judged: after %d refused duplicate stores sqlite3 conn.in_transaction was True (the "
                         "failed INSERT - like the failed INSERT of create_or_load on an existing session - opens an implicit "
                         "transaction that is neither committed nor rolled back); invisible through the public methods of the "
                         "same in-memory Journaler" % tot["txn"])
    ctx.assumptions += [
        "in-memory journals (filename None) for the main exploration, file journals with clean reopen (object dropped, no "
        "crash) for the second one; durability under crashes is C08",
        "handles are freshly loaded by CompIDs before each store/set; with next_num_* = None set_seq_num keeps the handle's "
        "value (pinned by test_seq_set), which for a fresh handle is the stored counter; stale handles are not explored",
        "payloads are frames built by the independent reference encoder; the number is the header's tag 34",
        "unconstrained (not exercised): non-digit / None / float / >= 2^63 bounds, counters <= 0, payload without tag 34, "
        "get_all_msgs(sessions=[]) and the order of get_all_msgs rows, mutation of the handle object by set_seq_num, "
        "session creation order is not part of the dedup key",
        "pinned by tests and therefore demanded: a new session starts at 1/1; recover_msg returns None for an absent number; "
        "get_all_msgs rows are (seq_no, bytes, direction.value, session key)",
    ]


def replay(ctx, rep):
    vs, _ = run_case(tuple(rep["names"]), rep["ops"], rep.get("full", True), rep.get("file", False), rep.get("preobs", False))
    return vs
