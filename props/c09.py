"""C09 - restarting an endpoint is transparent to the session.

Part A (one endpoint, file-backed journal): BFS over session histories (application
traffic both ways, gaps, resends, gap fills spanning several numbers, sequence
resets); at every quiescent point the counters a NEW connection object built over a
fresh Journaler on the same file would start with must equal the live ones.

Part B (two endpoints, file-backed journals): the C07 world plus restart events -
graceful stop at any quiescent point, kill in the middle of a send (after the
transport write, frame delivered or lost, before the journal write) - followed by
a new incarnation over the same file, reconnect and Logon.
"""
import os
import sqlite3
import tempfile
import shutil

from mc import bfs, refs
from mc.world import World1, num_in, num_out, journal_rows, conn_key, task_result, TmpDir
from mc.world2 import World2, norm_frame
from props import c07

POOL = [("SRV", "CLI"), ("ACC", "INI"), ("S1", "T1"), ("EXCH", "FIRM")]
CFG = {"S": "SRV", "T": "CLI", "quick": True, "max_sends": 2, "max_restarts": 1, "max_breaks": 0}


def fresh_counters(path, target, sender):
    """What a new incarnation would load: through a brand-new sqlite connection (committed data only)."""
    con = sqlite3.connect(path)
    try:
        r = con.execute("SELECT inboundSeqNo, outboundSeqNo FROM session WHERE targetCompId=? AND senderCompId=?",
                        (target, sender)).fetchone()
    finally:
        con.close()
    return None if r is None else (r[0] + 1, r[1] + 1)


class _NoWait:
    """sqlite3 stand-in for asyncfix.journaler: never sleep on a lock held by the still-living old object."""

    def connect(self, *a, **kw):
        kw.setdefault("timeout", 0)
        return sqlite3.connect(*a, **kw)

    def __getattr__(self, k):
        return getattr(sqlite3, k)


def load_via_public_path(path, target, sender):
    """Counters of a new Journaler.create_or_load on the file, or None while the old (still living) object
    holds a write lock - a lock dies with the process and is not part of the property."""
    import asyncfix.journaler as jm
    from asyncfix import Journaler

    old = jm.sqlite3
    jm.sqlite3 = _NoWait()
    try:
        j2 = Journaler(path)
        s2 = j2.create_or_load(target, sender)
        got = (s2.next_num_in, s2.next_num_out)
        del j2
        return got
    except sqlite3.OperationalError:
        return None
    finally:
        jm.sqlite3 = old


# =========================================================================== Part A
INBOUND_A = ("app", "app_pad", "gap_app", "gapfill1", "gapfill3", "gapfill_close", "reset_fwd", "reset_noop", "reset_back", "pd_fill", "rr", "tr", "hb")


class SimA:
    def __init__(self, root):
        from asyncfix import Journaler

        _, role, S, T = root
        self.root = root
        from mc import sqlproxy

        self.tmp = TmpDir()
        self.path = os.path.join(self.tmp.path, "j.db")
        self.steps = sqlproxy.Steps()
        sqlproxy.install(self.steps)
        self.w = World1(role, S=S, T=T, journal=Journaler(self.path))
        self.w.connect()
        self.w.logon()
        self.peer_seq = self.w.peer_seq
        self.uid = 0
        self.gap = False

    @classmethod
    def build(cls, hist):
        s = cls(hist[0])
        for ev in hist[1:]:
            s.apply(ev)
        return s

    def close(self):
        self.w.close()
        self.tmp.cleanup()

    def nontrivial(self):
        return self.gap

    def enabled(self):
        if self.w.c.connection_state.value <= 3:
            return []
        return [("in", k) for k in INBOUND_A] + [("send", "app"), ("send", "bad")]

    def key(self):
        c = self.w.c
        from props.c05 import _row_class
        rows = tuple((d, seq, _row_class(m) if d == 1 else None) for (_, d, seq, m) in journal_rows(self.w.j))
        return (self.root, conn_key(c), rows, self.peer_seq, fresh_counters(self.path, self.w.T, self.w.S))

    def apply(self, ev):
        from asyncfix import FIXMessage

        w, c = self.w, self.w.c
        self.uid += 1
        st = c.connection_state.name
        snaps = []

        def before(n, kind, sql):
            # what a process killed right before this SQL step leaves behind
            dst = os.path.join(self.tmp.path, f"k{len(snaps)}.db")
            shutil.copyfile(self.path, dst)
            if os.path.exists(self.path + "-journal"):
                shutil.copyfile(self.path + "-journal", dst + "-journal")
            snaps.append(dst)
            wire_at.append(len(w.writer.out))

        wire_at = []
        in_before = fresh_counters(self.path, w.T, w.S)[0]
        wire0 = len(w.writer.out)
        self.steps.before = before
        try:
            v = self._apply(ev, w, c, st)
        finally:
            self.steps.before = None
        side = False
        if v is None:
            v = self._killed_states_consistent(snaps, ev, st)
            if v is None:
                v = self._wire_never_ahead_of_journal(snaps, wire_at, wire0, ev, st)
            if v is None:
                v = self._inbound_counter_never_behind(snaps, in_before, ev, st)
            side = v is not None
        if side:
            # verdict about what a kill at an intermediate step would have left behind: the live run is intact, the
            # history is explored further (otherwise an open finding of this kind would hide everything behind the event)
            v = dict(v, **{"continue": True})
        for p_ in snaps:
            for q_ in (p_, p_ + "-journal"):
                if os.path.exists(q_):
                    os.unlink(q_)
        return v

    def _killed_states_consistent(self, snaps, ev, st):
        """Kill at any point between the journal operations of this event: the file must never hold a message row
        whose number is at or above the stored counter of its direction on the OUTBOUND side (the next
        incarnation would reuse that number), i.e. a row never exists without its counter update."""
        for i, path in enumerate(snaps):
            con = sqlite3.connect(path, timeout=0)
            try:
                r = con.execute("SELECT sessionId, outboundSeqNo FROM session WHERE targetCompId=? AND senderCompId=?",
                                (self.w.T, self.w.S)).fetchone()
                if r is None:
                    continue
                mx = con.execute("SELECT MAX(seqNo) FROM message WHERE session=? AND direction=1", (r[0],)).fetchone()[0]
            finally:
                con.close()
            if mx is not None and mx > r[1]:
                return {"signature": f"killed_between_journal_operations|outbound_row_without_counter:{ev[0]}_{ev[1]}",
                        "clause": "killed at any point while sending or receiving ... without ever reusing an outbound MsgSeqNum for a different message",
                        "detail": {"event": ev, "sql_step": i, "highest_outbound_row": mx, "stored_last_outbound": r[1], "state_before": st}}
        return None

    def _inbound_counter_never_behind(self, snaps, in_before, ev, st):
        """Kill at any SQL-step boundary of this event: the stored inbound counter must lie between what was stored
        before the event and what is stored after it - a new incarnation must not start BEHIND what the old one had
        already made durable (it would ask for, and deliver, completed messages again)."""
        in_after = fresh_counters(self.path, self.w.T, self.w.S)[0]
        lo, hi = min(in_before, in_after), max(in_before, in_after)
        for i, path in enumerate(snaps):
            con = sqlite3.connect(path, timeout=0)
            try:
                r = con.execute("SELECT inboundSeqNo FROM session WHERE targetCompId=? AND senderCompId=?", (self.w.T, self.w.S)).fetchone()
            finally:
                con.close()
            if r is None:
                continue
            cur = r[0] + 1
            if cur < lo or cur > hi:
                kind = "gap_fill" if ev[1].startswith("gapfill") else ("sequence_reset" if ev[1].startswith("reset") else ev[1])
                return {"signature": f"killed_between_journal_operations|inbound_counter_outside_before_after:{kind}",
                        "clause": "killed at any point while ... receiving ... the restored counters equal those the old object held for everything it had completed",
                        "detail": {"event": ev, "sql_step": i, "stored_next_in_at_kill": cur, "stored_before_event": in_before,
                                   "stored_after_event": in_after, "state_before": st}}
        return None

    def _wire_never_ahead_of_journal(self, snaps, wire_at, wire0, ev, st):
        """Kill at any SQL-step boundary of this event: every frame that had ALREADY been handed to the transport under a
        new number at that moment must be in the file the dead process leaves behind (row + counter) - otherwise the
        next incarnation reuses a number the peer has already seen for a different message."""
        out = self.w.writer.out
        for i, path in enumerate(snaps):
            new = []
            for raw in out[wire0:wire_at[i]]:
                f, _ = refs.try_parse(raw)
                if not f:
                    continue
                d = refs.fdict(f)
                if d.get("43") == "Y" or d.get("35") == "4":
                    continue
                new.append(int(d["34"]))
            if not new:
                continue
            con = sqlite3.connect(path, timeout=0)
            try:
                r = con.execute("SELECT sessionId, outboundSeqNo FROM session WHERE targetCompId=? AND senderCompId=?",
                                (self.w.T, self.w.S)).fetchone()
                have = {x[0] for x in con.execute("SELECT seqNo FROM message WHERE session=? AND direction=1", (r[0],))} if r else set()
            finally:
                con.close()
            for n in new:
                if n not in have or r[1] < n:
                    return {"signature": f"killed_between_journal_operations|on_wire_before_journaled:{ev[0]}_{ev[1]}",
                            "clause": "killed at any point while sending ... comes back without ever reusing an outbound MsgSeqNum for a different message",
                            "detail": {"event": ev, "sql_step": i, "number_on_wire": n, "rows_in_file": sorted(have),
                                       "stored_last_outbound": r[1] if r else None, "state_before": st}}
        return None

    def _apply(self, ev, w, c, st):
        from asyncfix import FIXMessage

        if ev[0] == "send":
            # "bad": a message that cannot be put on the wire (text not encodable as utf-8) - whatever the send call
            # answers, the counters a restart comes back with are those of the live object
            w.send(FIXMessage("D", {11: f"s{self.uid}", 58: "bad \udc80 text"} if ev[1] == "bad" else {11: f"s{self.uid}"}))
        else:
            k = ev[1]
            E = num_in(c)
            n = self.peer_seq
            T, S = w.T, w.S
            if k == "app":
                fr = refs.frame("D", n, T, S, [(11, f"p{self.uid}")])
            elif k == "app_pad":
                # counterparty renders MsgSeqNum with a fixed width (legal FIX int)
                fr = refs.frame("D", "%06d" % n, T, S, [(11, f"z{self.uid}")])
            elif k == "gap_app":
                n = self.peer_seq + 2
                fr = refs.frame("D", n, T, S, [(11, f"q{self.uid}")])
                self.gap = True
            elif k == "gapfill1":
                fr = refs.frame("4", E, T, S, [(123, "Y"), (36, E + 1)], extra_header=[(43, "Y")])
                n = max(self.peer_seq - 1, E)
            elif k == "gapfill3":
                fr = refs.frame("4", E, T, S, [(123, "Y"), (36, E + 3)], extra_header=[(43, "Y")])
                n = max(self.peer_seq - 1, E + 2)
                self.gap = True
            elif k == "gapfill_close":
                new = max(self.peer_seq, E + 1)
                fr = refs.frame("4", E, T, S, [(123, "Y"), (36, new)], extra_header=[(43, "Y")])
                n = new - 1
            elif k == "reset_fwd":
                new = max(self.peer_seq, E) + 2
                fr = refs.frame("4", n, T, S, [(36, new)])
                n = new - 1
                self.gap = True
            elif k == "reset_noop":
                # reset-mode SequenceReset whose own number and NewSeqNo are both the expected number: changes nothing,
                # the announced message with that number follows
                fr = refs.frame("4", n, T, S, [(36, n)])
                n = n - 1
            elif k == "reset_back":
                # reset-mode SequenceReset to a LOWER number (the library honours it; pinned by its tests): the journal
                # may then hold rows above the counters - a restart must still come back with the live counters
                new = max(1, E - 2)
                fr = refs.frame("4", n, T, S, [(36, new)])
                n = new - 1
                self.gap = True
            elif k == "pd_fill":
                fr = refs.frame("D", E, T, S, [(11, f"r{self.uid}")], extra_header=[(43, "Y"), (122, "20240101-00:00:00.000")])
                n = max(self.peer_seq - 1, E)
            elif k == "rr":
                fr = refs.frame("2", n, T, S, [(7, 1), (16, 0)])
            elif k == "tr":
                fr = refs.frame("1", n, T, S, [(112, "T")])
            elif k == "hb":
                fr = refs.frame("0", n, T, S)
            self.peer_seq = n + 1
            w.feed(fr)
        if w.livelock:
            return {"signature": f"livelock|{ev[1]}:{st}", "clause": "quiescence", "detail": {"event": ev}}
        live = (num_in(c), num_out(c))
        stored = fresh_counters(self.path, w.T, w.S)
        if stored != live:
            which = "+".join(x for x, a, b in (("in", stored[0], live[0]), ("out", stored[1], live[1])) if a != b)
            evc = {"gapfill1": "sequence_reset", "gapfill3": "sequence_reset", "gapfill_close": "sequence_reset",
                   "reset_fwd": "sequence_reset", "rr": "resend_request"}.get(ev[1], f"{ev[0]}_{ev[1]}")
            cause = f"{which}:after_{evc}"
            return {"signature": f"restored_counters_differ|{cause}",
                    "clause": "the restored counters equal those the old object held for everything it had completed",
                    "detail": {"event": ev, "live": live, "stored": stored, "state_before": st, "state_after": c.connection_state.name}}
        # a new connection object over a fresh Journaler really starts with these numbers
        got = load_via_public_path(self.path, w.T, w.S)
        if got is not None and got != live:
            return {"signature": f"new_object_counters_differ|after_{ev[0]}_{ev[1]}",
                    "clause": "the restored counters equal those the old object held", "detail": {"event": ev, "live": live, "loaded": got}}
        return None


# =========================================================================== Part B
class SimB(c07.Sim):
    """C07 world with file-backed journals and restart events."""

    def __init__(self, root):
        _, A, B = root
        self.root = root
        self.w = World2(A=A, B=B, files=True)
        self.accepted = {"A": [], "B": []}
        self.maybe = {"A": [], "B": []}
        self.order = {"A": [], "B": []}
        self.nsend = 0
        self.nbreak = 0
        self.nconn = 0
        self.nrestart = 0
        self.nlogout = 0
        self.nticks = 0
        self.logon_seen = {"A": False, "B": False}
        self.dead = False
        self.graceful_clean = False  # last outage was a graceful restart with nothing in flight / lost
        self.rr_seen_after_clean = False
        self.w.connect()
        self.nconn = 1

    def nontrivial(self):
        return self.nrestart > 0 and self.nsend > 0

    def enabled(self):
        if self.dead:
            return []
        w = self.w
        evs = []
        if w.flight["AB"]:
            evs.append(("dlv", "AB"))
        if w.flight["BA"]:
            evs.append(("dlv", "BA"))
        if self.nsend < CFG["max_sends"]:
            evs.append(("send", "A"))
            evs.append(("send", "B"))
        if w.up and self.nrestart < CFG["max_restarts"]:
            for x in "AB":
                evs.append(("restart", x))
                if self.nsend < CFG["max_sends"] and w.side(x).c.connection_state.name == "ACTIVE":
                    evs.append(("kill_send", x, "lost"))
                    evs.append(("kill_send", x, "delivered"))
        if w.up and self.nbreak < CFG["max_breaks"]:
            evs.append(("brk", "eof"))
        if (w.up and self.nlogout < 1 and all(self.logon_seen.values()) and not w.flight["AB"] and not w.flight["BA"]
                and w.a.c.connection_state.name == "ACTIVE" and w.b.c.connection_state.name == "ACTIVE"):
            evs.append(("logout", "A"))
            evs.append(("logout", "B"))
            evs.append(("eod", "A"))
            evs.append(("eod", "B"))
        if w.can_connect():
            evs.append(("rec",))
        return evs

    def key(self):
        return (super().key(), self.nrestart, self.nlogout, getattr(self, "something_lost", False), tuple(sorted(getattr(self, "clean_from", {}).items())), self.graceful_clean, tuple(s.incarnation for s in (self.w.a, self.w.b)))

    def _discard(self, x):
        """The process of side x is gone: cancel its tasks, forget the object."""
        import asyncio
        w = self.w
        s = w.side(x)
        for t in list(asyncio.all_tasks(w.loop)):
            co = t.get_coro()
            fr = getattr(co, "cr_frame", None)
            owner = fr.f_locals.get("self") if fr is not None else None
            if owner is s.c:
                t.cancel()
        w.run()
        if x == "B":
            w.server_task = None
            w.net.servers.pop(1, None)
        old = s.c
        seen_by_app = list(old.delivered)
        s.c = None
        s.j = None
        for k_, v_ in list(vars(old).items()):
            if v_.__class__.__name__ == "Journaler":
                setattr(old, k_, None)
        del old
        import gc
        gc.collect()
        w._make_endpoint(s)
        # the application's record of what it received survives the restart (harness-side bookkeeping)
        s.c.delivered.extend(seen_by_app)

    def apply(self, ev):
        from asyncfix import FIXMessage
        w = self.w
        k = ev[0]
        if k == "restart":
            x = ev[1]
            clean = not w.flight["AB"] and not w.flight["BA"]
            if not clean:
                self.something_lost = True
            # lost-in-flight frames make a later ResendRequest legitimate
            live = (num_in(w.side(x).c), num_out(w.side(x).c))
            self.nrestart += 1
            w.brk("eof")
            self.logon_seen = {"A": False, "B": False}
            self._discard(x)
            self.graceful_clean = clean
            self.clean_from = {d: len(w.wire[d]) for d in ("AB", "BA")}
            got = (num_in(w.side(x).c), num_out(w.side(x).c))
            if got != live:
                which = "+".join(n for n, a, b in (("in", got[0], live[0]), ("out", got[1], live[1])) if a != b)
                return self._v("restored_counters_differ", f"{which}:graceful", "the restored counters equal those the old object held for everything it had completed", ev, live=live, restored=got)
            return None
        if k == "kill_send":
            x, fate = ev[1], ev[2]
            s = w.side(x)
            self.nsend += 1
            self.nrestart += 1
            mid = f"{x.lower()}{self.nsend}"
            s.writer.pause()
            t = w.loop.create_task(s.c.send_msg(FIXMessage("D", {11: mid, 55: "X"})))
            w.run()
            # the process dies here: after the transport write, before drain returned / the journal write
            self.maybe[x].append(mid)
            self.order[x].append(mid)
            self.something_lost = True
            d = "AB" if x == "A" else "BA"
            if fate == "delivered":
                while w.flight[d]:
                    w.deliver(d)
            w.brk("eof")
            self.logon_seen = {"A": False, "B": False}
            self._discard(x)
            self.graceful_clean = False
            return self._post(ev)
        if k in ("brk",):
            self.graceful_clean = False
            self.something_lost = True
        if k == "logout":
            # the application ends the session in an orderly way: Logout, then the transport is closed; the peer
            # answers by closing as well.  Nothing is in flight when it starts.
            from asyncfix.connection import ConnectionState
            x = ev[1]
            self.nlogout += 1
            self.graceful_clean = True
            self.clean_from = {d: len(w.wire[d]) for d in ("AB", "BA")}
            w.loop.create_task(w.side(x).c.disconnect(ConnectionState.DISCONNECTED_WCONN_TODAY, logout_message=""))
            w.run()
            self.logon_seen = {"A": False, "B": False}
            return self._post(ev)
        if k == "eod":
            # an application message on whose receipt the OTHER side's application ends the session from inside its
            # on_message callback (Logout + close); nothing is in flight when it starts, nothing gets lost
            x = ev[1]
            y = "B" if x == "A" else "A"
            self.nlogout += 1
            self.graceful_clean = True
            self.clean_from = {d: len(w.wire[d]) for d in ("AB", "BA")}
            w.side(y).c.disconnect_filter = lambda m: str(m.get(11, "")).startswith("EOD")
            mid = f"EOD{x.lower()}{self.nlogout}"
            r = w.send(x, FIXMessage("D", {11: mid, 55: "X"}))
            if r[0] == "ok":
                self.accepted[x].append(mid)
                self.order[x].append(mid)
            d = "AB" if x == "A" else "BA"
            while w.flight[d]:
                w.deliver(d)
            self.logon_seen = {"A": False, "B": False}
            if w.side(y).c.connection_state.value > 3:
                return self._v("application_disconnect_ignored", "from_on_message", "the application ends the session", ev)
            return self._post(ev)
        if k == "dlv":
            from mc.world2 import EOF_MARK
            q = w.flight[ev[1]]
            dst = w.b if ev[1] == "AB" else w.a
            if q and q[0] is not EOF_MARK and dst.c.connection_state.value <= 3:
                self.graceful_clean = False  # a frame reaches an end that has already closed: it is lost
                self.something_lost = True
        if k == "rec":
            from mc.world2 import EOF_MARK
            if any(f is not EOF_MARK for q in w.flight.values() for f in q):
                self.graceful_clean = False  # something was still in flight when the connection ended: it is lost
                self.something_lost = True
        v = super().apply(ev)
        if v is not None:
            return v
        return self._post(ev)

    def _post(self, ev):
        w = self.w
        # no number is ever used for two different non-retransmitted messages
        for d in ("AB", "BA"):
            seen = {}
            for raw in w.wire[d]:
                f, _ = refs.try_parse(raw)
                if not f:
                    continue
                dd = refs.fdict(f)
                if dd.get("43") == "Y" or dd.get("35") == "4":
                    continue
                n = dd.get("34")
                ident = (dd.get("35"), dd.get("11"), dd.get("7"), dd.get("112"))
                if n in seen and seen[n] != ident and not (dd.get("35") == "A" and False):
                    return self._v("number_reused_for_different_message", f"restarts:{self.nrestart}:{'kill' if any(self.maybe.values()) else 'graceful'}",
                                   "without ever reusing an outbound MsgSeqNum for a different message", ev, number=n, first=seen[n], second=ident)
                seen.setdefault(n, ident)
        # no ResendRequest when nothing was lost (graceful restart, nothing in flight)
        if self.graceful_clean and not getattr(self, "something_lost", False) and not any(self.maybe.values()):
            for d in ("AB", "BA"):
                for raw in w.wire[d][getattr(self, "clean_from", {}).get(d, 0):]:
                    f, _ = refs.try_parse(raw)
                    if f and refs.fdict(f).get("35") == "2":
                        return self._v("resend_request_when_nothing_lost", "after_logout" if self.nlogout else "graceful_restart", "without a ResendRequest when nothing was lost", ev)
        return None

    def _ctx(self):
        return f"restarts:{self.nrestart}:{'kill' if any(self.maybe.values()) else 'graceful'}:breaks:{self.nbreak}"


def run(ctx):
    S, T = POOL[ctx.seed % len(POOL)]
    CFG["S"], CFG["T"] = S, T
    ctx.rule = ("Part A: BFS over single-endpoint histories (in-order / too-high application frames, GapFills spanning 1 and 3 numbers, "
                "gap-closing GapFill, forward Reset, PossDup retransmission, ResendRequest, TestRequest, Heartbeat, sends) with a "
                "file-backed journal; after every event the counters read through a brand-new sqlite connection and through a new "
                "Journaler.create_or_load must equal the live ones. Part B: C07 world with file journals + graceful restart at any "
                "point, kill in the middle of a send (frame delivered / lost); non-trivial = history with a gap (A) or a restart and a send (B)")
    depthA = 4 if ctx.quick else 5
    rootsA = [(("rootA", role, S, T),) for role in ("acceptor", "initiator")]
    stA = bfs.explore(ctx, SimA, rootsA, depthA, max_states=(40000 if ctx.quick else 400000), label="C09/A")
    if ctx.quick:
        CFG.update(max_sends=2, max_restarts=1, max_breaks=0)
        depthB = 11
    else:
        CFG.update(max_sends=2, max_restarts=2, max_breaks=1)
        depthB = 12
    c07.CFG.update(max_sends=CFG["max_sends"], max_breaks=CFG["max_breaks"], kinds=("eof",))
    A, B = c07.POOL[ctx.seed % len(c07.POOL)]
    stB = bfs.explore(ctx, SimB, [(("rootB", A, B),)], depthB, max_states=(60000 if ctx.quick else 200000), label="C09/B")
    ctx.bounds = {"partA": dict(stA, depth=depthA), "partB": dict(stB, depth=depthB, **{k: CFG[k] for k in ("max_sends", "max_restarts", "max_breaks")})}
    ctx.outcomes.update(v["signature"].split("|")[0] for v in ctx.violations.values())
    ctx.outcomes.add("ok")
    ctx.assumptions += ["a killed process leaves the journal file as it is at that instant (page cache survives)",
                        "kill points explored: between transport write and journal write of a send (frame delivered or lost); "
                        "kill points between the journal operations of inbound processing are covered for the journal alone by C08",
                        "the peer sees EOF when the endpoint stops"]


def replay(ctx, rep):
    hist = [tuple(e) for e in rep["hist"]]
    out = []
    if hist[0][0] == "rootA":
        s = SimA(hist[0])
    else:
        CFG.update(max_sends=99, max_restarts=99, max_breaks=99)
        s = SimB(hist[0])
    try:
        for ev in hist[1:]:
            v = s.apply(ev)
            if v:
                out.append(v)
                break
    finally:
        s.close()
    return out
