"""C02 - every frame put on the wire is a well-formed FIX frame.

Part "enc"/"transport" (props/c02_enc.py): every message of the C01 generator plus
non-ASCII values through Codec.encode and through a real endpoint's transport.
Part "history": the independent framer R1 is attached to the link while the
session histories of C05 (one endpoint: logon, heartbeats, test requests, resend
replays, gap fills, logout, refused sends) and of C07 (two endpoints across link
loss) are explored; every byte string handed to a transport must parse.
"""
from mc import bfs, refs
from props import c02_enc, c02_reuse, c05, c07

CLAUSE = "every byte string a connection hands to its transport is accepted by an independent FIX parser"


def _frame_violation(raw, where, ev):
    f, err = refs.try_parse(raw)
    if f is not None:
        return None
    d = {}
    try:
        d = dict(p.split(b"=", 1) for p in raw.split(b"\x01") if b"=" in p)
    except Exception:
        pass
    mt = d.get(b"35", b"?").decode("latin-1")
    kind = "session_frame" if mt in ("A", "0", "1", "2", "4", "5") else "application_frame"
    pd = "retransmission" if d.get(b"43") == b"Y" else ("gapfill" if mt == "4" else "new")
    return {"signature": f"history_frame_malformed|{where}:{kind}:{pd}:{err}", "clause": CLAUSE,
            "detail": {"frame": raw, "reason": err, "event": ev}}


class Sim5(c05.Sim):
    """C05's world; C05's own verdicts are ignored here, frames are judged."""

    def __init__(self, root):
        super().__init__(root)
        self.checked = 0

    def apply(self, ev):
        super().apply(ev)  # verdict of the send monitor is C05's business
        w = self.w
        if w.writer is not None:
            if self.checked > len(w.writer.out):
                self.checked = 0
            for raw in w.writer.out[self.checked:]:
                v = _frame_violation(raw, "single_endpoint", ev)
                if v:
                    return v
            self.checked = len(w.writer.out)
        return None

    def key(self):
        return (super().key(), self.checked == 0)


class Sim7(c07.Sim):
    def __init__(self, root):
        self.checked = {"AB": 0, "BA": 0}
        super().__init__(root)

    def apply(self, ev):
        v0 = super().apply(ev)
        for d in ("AB", "BA"):
            for raw in self.w.wire[d][self.checked[d]:]:
                v = _frame_violation(raw, "two_endpoints", ev)
                if v:
                    return v
            self.checked[d] = len(self.w.wire[d])
        if v0 is not None:
            self.dead = True  # delivery verdicts are C07's business; do not continue a broken history
        return None


def run(ctx):
    c02_enc.run_part(ctx)
    c02_reuse.run_part(ctx)
    enc_rule = ctx.rule + (" || reuse part: one message object encoded again after every sequence of <= 2 in-place edits "
                           "(all positions incl. group items reached through accessors); R1 must accept each frame and a "
                           "freshly built equal message must encode to the same bytes")
    # history part
    c05.CFG["S"], c05.CFG["T"] = c05.POOL[ctx.seed % len(c05.POOL)]
    c05.CFG["quick"] = True
    st5 = bfs.explore(ctx, Sim5, c05.roots(), 4 if ctx.quick else 6, max_states=(60000 if ctx.quick else 400000), label="C02/h5")
    c07.CFG["A"], c07.CFG["B"] = c07.POOL[ctx.seed % len(c07.POOL)]
    if ctx.quick:
        c07.CFG.update(max_sends=2, max_breaks=1, kinds=("eof",))
        d7 = 11
    else:
        c07.CFG.update(max_sends=2, max_breaks=2, kinds=("eof", "reset"))
        d7 = 14
    st7 = bfs.explore(ctx, Sim7, [(("root", c07.CFG["A"], c07.CFG["B"]),)], d7, max_states=200000, label="C02/h7")
    ctx.rule = enc_rule + (" || history part: R1 attached to the link during BFS over single-endpoint histories (C05 alphabet) "
                           "and two-endpoint histories with link loss (C07 alphabet); every written frame is parsed")
    ctx.bounds["history_single_endpoint"] = st5
    ctx.bounds["history_two_endpoints"] = st7
    ctx.outcomes.add("history_ok")


def replay(ctx, rep):
    if isinstance(rep, dict) and "hist" in rep:
        hist = [tuple(e) for e in rep["hist"]]
        two = len(hist[0]) == 3
        if two:
            c07.CFG.update(max_sends=99, max_breaks=99)
        s = (Sim7 if two else Sim5)(hist[0])
        out = []
        try:
            for ev in hist[1:]:
                v = s.apply(ev)
                if v:
                    out.append(v)
                    break
        finally:
            s.close()
        return out
    if isinstance(rep, dict) and rep.get("part") == "reuse":
        return c02_reuse.replay_part(ctx, rep)
    return c02_enc.replay_part(ctx, rep)
