"""C15 - schema validation accepts exactly the messages the FIX dictionary allows.

Explorer C (bounded exhaustive inputs).  An independent dictionary walker (R10,
props/c15_walker.py: xml.etree, components inlined, no code of schema.py) expands
every message type of tests/FIX44.xml, tests/TT-FIX44.xml, tests/schema_fix_simple.xml
and of one synthetic in-memory dictionary.  From the expansion this module generates

  * valid instances (minimal, maximal, minimal + each optional member at every
    nesting depth, two-item groups, every enumerator, canonical typed values (temporal types:
    cross product year 0000 / ordinary / 9999 x special day x leap second x fraction, temporal_family()),
    reversed top-level order, with header / trailer fields, ...)       -> validate() is True
  * from the minimal and the maximal instance (and from every item of an instance
    with two items in every group) EVERY single-fault mutation at every applicable
    position and nesting depth                                         -> FIXMessageError
  * permutations of the <components> declaration order                 -> same outcome

Signatures: valid_rejected|<instance class>[|top/nested], valid_raised|...,
fault_accepted|<fault class>|<top/nested>, fault_wrong_exception|<fault class>|<top/nested>,
order_dependence|verdict_differs, order_dependence|dictionary_rejected_in_this_order,
history_dependence|<fault class> / history_dependence|valid:<instance class> (verdict of a case
changes with what the same FIXSchema instance validated before).
'top' = message body / header, 'nested' = inside a repeating group item (any depth).

Oracle is three-valued: only what the property sentence states is demanded, see
`ctx.assumptions` for what is left unconstrained.
"""
import copy
import gc
import hashlib
import itertools
import os
import xml.etree.ElementTree as ET

from props.c15_walker import Dictionary, count_positions

# --------------------------------------------------------------------------------------
# R9 (excerpt): canonical members / non-members of the FIX 4.4 datatypes.  Only values
# that are unquestionably inside (resp. outside) the type for the FIX specification.
# --------------------------------------------------------------------------------------
STRING_POOL = ["abc", "XYZ", "ord1", "Q7"]

CANON = {
    "INT": ["5", "0", "-3", "12"],
    "LENGTH": ["1"],
    "DATA": ["x"],
    "SEQNUM": ["7", "1", "123456"],
    "NUMINGROUP": ["1", "2"],
    "DAYOFMONTH": ["15", "1", "31"],
    "FLOAT": ["1.5", "0", "-1.5", "10", "0.25"],
    "QTY": ["100", "1.5", "0"],
    "PRICE": ["1.5", "10", "0.25", "-1.5"],
    "PRICEOFFSET": ["0.5", "-0.5", "1"],
    "AMT": ["1.5", "100", "-2.5"],
    "PERCENTAGE": ["0.05", "0.5", "1"],
    "CHAR": ["A", "1", "z"],
    "BOOLEAN": ["Y", "N"],
    "STRING": ["abc", "A b-c_1."],
    "MULTIPLEVALUESTRING": ["A", "A B", "1 2 3"],
    "MULTIPLESTRINGVALUE": ["A", "A B", "1 2 3"],
    "COUNTRY": ["US", "GB"],
    "CURRENCY": ["USD", "EUR"],
    "EXCHANGE": ["XNYS", "XLON"],
    "LOCALMKTDATE": ["20240102", "19991231"],
    "UTCDATEONLY": ["20240102", "19991231"],
    "UTCTIMESTAMP": ["20240102-03:04:05", "20240102-03:04:05.123", "20241231-23:59:59"],
    "UTCTIMEONLY": ["03:04:05", "03:04:05.123", "23:59:59"],
    "MONTHYEAR": ["202401", "20240115", "202401w2"],
}

BAD = {
    # numbers: garbage, then values that START like a legal literal and have an illegal tail (FIX int =
    # digits with optional sign, FIX float = digits with optional decimal point and sign: no blanks, no
    # line feed, no digit grouping, no exponent, one decimal point, no letters)
    "INT": ["abc", "1 ", "12a", "1_0", "1\n", "1.0"],
    "LENGTH": ["abc", "1 ", "1_0", "1\n"],
    "SEQNUM": ["abc", "0", "1 ", "-1", "1_0", "1\n"],  # "must be positive" (EndSeqNo(16)=0 is the one exception)
    "NUMINGROUP": ["abc", "1 ", "1_0"],
    "DAYOFMONTH": ["32", "abc", "1 ", "0", "1_0", "1\n"],
    "FLOAT": ["abc", "1e2", "1.2.3", "10.5 ", "1_0.5", "1\n", "1.5x"],
    "QTY": ["abc", "1e2", "1.2.3", "10.5 ", "1_0.5", "1\n", "1.5x"],
    "PRICE": ["abc", "1e2", "1.2.3", "10.5 ", "1_0.5", "1\n", "1.5x"],
    "PRICEOFFSET": ["abc", "1e2", "1.2.3", "10.5 ", "1_0.5", "1\n", "1.5x"],
    "AMT": ["abc", "1e2", "1.2.3", "10.5 ", "1_0.5", "1\n", "1.5x"],
    "PERCENTAGE": ["abc", "1e2", "1.2.3", "10.5 ", "1_0.5", "1\n", "1.5x"],
    "CHAR": ["ab"],
    "BOOLEAN": ["X", "YN"],
    "STRING": ["a\x01b"],
    "MULTIPLEVALUESTRING": ["a\x01b"],
    "MULTIPLESTRINGVALUE": ["a\x01b"],
    "COUNTRY": ["USA", "U\x01"],       # ISO 3166 alpha-2: exactly two letters
    "CURRENCY": ["USDX", "US\x01"],    # ISO 4217: exactly three letters
    "EXCHANGE": ["N\x01Y"],
    "LOCALMKTDATE": ["abc", "20241301"],
    "UTCDATEONLY": ["abc", "20241301"],
    "UTCTIMESTAMP": ["abc", "20240102-25:00:00"],
    "UTCTIMEONLY": ["abc", "25:00:00"],
    "MONTHYEAR": ["abc", "202413"],
    # DATA: every byte string is a member - no fault exists
}

TEMPORAL = ("UTCTIMESTAMP", "UTCTIMEONLY", "UTCDATEONLY", "LOCALMKTDATE", "MONTHYEAR")


def temporal_family(thorough):
    """R9, temporal datatypes: the cross product of the special cases the FIX 4.4 datatype table states
    (YYYY = 0000-9999, MM = 01-12, DD = 01-31, HH = 00-23, MM = 00-59, SS = 00-60 (60 = UTC leap second),
    optional .sss milliseconds; MonthYear = YYYYMM | YYYYMMDD | YYYYMMWW, WW = w1..w5) for each temporal
    type: year (first / ordinary / last [thorough: + 0001, 2000, 1900]) x day (first of January, last of
    December, last of June, leap day in leap years) x time (midnight, ordinary, last second, leap second on the
    two days UTC inserts it) x fraction (none, .sss).  -> ({type: members}, {type: non-members}); a non-member
    has exactly one component outside its range, every other component is one of the special cases above."""
    years = ["0000", "2024", "9999"] + (["0001", "2000", "1900"] if thorough else [])
    leap = ("0000", "2024", "2000")   # proleptic Gregorian calendar (ISO 8601): year 0000 is a leap year
    fracs = ["", ".123"]
    good = {t: [] for t in TEMPORAL}
    bad = {t: [] for t in TEMPORAL}

    def days(y):
        return ["0101", "1231", "0630"] + (["0229"] if y in leap else [])

    def times(d):
        return ["00:00:00", "03:04:05", "23:59:59"] + (["23:59:60"] if d in ("1231", "0630") else [])

    for y in years:
        for d in days(y):
            good["UTCDATEONLY"].append(y + d)
            good["LOCALMKTDATE"].append(y + d)
            for tm in times(d):
                for f in fracs:
                    good["UTCTIMESTAMP"].append("%s%s-%s%s" % (y, d, tm, f))
        for mm in ("01", "12"):
            good["MONTHYEAR"] += [y + mm, y + mm + "01", y + mm + "31", y + mm + "w1", y + mm + "w5"]
        good["MONTHYEAR"].append(y + "0229" if y in leap else y + "0228")
    for tm in ("00:00:00", "03:04:05", "23:59:59", "23:59:60"):
        for f in fracs:
            good["UTCTIMEONLY"].append(tm + f)
    # one component out of range, the others special
    bad_times = ["23:59:61", "24:00:00", "23:60:60", "24:59:60", "23:59:6", "23:59:60.", "23:59:60.x23"]
    bad["UTCTIMEONLY"] += bad_times
    for y in (years if thorough else ["0000", "2024"]):
        nonleap_day = [] if y in leap else ["0229"]
        bad_days = ["1301", "0001", "0100", "0132", "0230", "0631"] + nonleap_day
        for d in bad_days:
            bad["UTCDATEONLY"].append(y + d)
            bad["LOCALMKTDATE"].append(y + d)
        for d in bad_days[:4] if not thorough else bad_days:
            for tm in ("03:04:05", "23:59:60"):
                for f in fracs:
                    bad["UTCTIMESTAMP"].append("%s%s-%s%s" % (y, d, tm, f))
        for tm in bad_times:
            bad["UTCTIMESTAMP"].append("%s1231-%s" % (y, tm))
        bad["UTCTIMESTAMP"] += [y + "1231 23:59:60", y + "1231-23:59:60-", y + "123-23:59:60"]
        bad["MONTHYEAR"] += [y + "13", y + "00", y + "0132", y + "0100", y + "0230", y + "01w0", y + "01w6",
                             y + "13w1", y + "0"]
    bad["UTCDATEONLY"] += ["000101", "0000-01-01"]
    bad["LOCALMKTDATE"] += ["000101", "0000-01-01"]
    return good, bad


FAMILY_ONLY = set()   # members added by the temporal family (not in the hand-written CANON table)
BAD_EXT = {}   # type -> further non-members (temporal family); used where bad_values() gets all_values == "ext"


def install_temporal(thorough):
    """Append the members of the temporal family to the canonical table (idempotent; the first entries, which
    canon_value() uses, stay what they were) and put its non-members into BAD_EXT."""
    good, bad = temporal_family(thorough)
    for t in TEMPORAL:
        for v in good[t]:
            if v not in CANON[t]:
                CANON[t].append(v)
                FAMILY_ONLY.add((t, v))
        BAD_EXT[t] = [v for v in bad[t] if v not in BAD[t]]


MULTI = ("MULTIPLEVALUESTRING", "MULTIPLESTRINGVALUE")
# tag -> extra valid value stated by the FIX specification for that field
SPECIAL_VALID = {"16": "0"}  # EndSeqNo=0: "all messages after BeginSeqNo"

SEED = 0

# --------------------------------------------------------------------------------------
# synthetic dictionary (in memory): 6 components with a dependency chain, nesting depth 3,
# required groups at every depth, a group whose first member comes from a component, a
# group whose first member is a nested group, every datatype as spelled in FIX44.xml
# and in TT-FIX44.xml, a "required inside optional component" member.
# --------------------------------------------------------------------------------------
_SYN_TYPED = [
    ("TInt", "INT"), ("TLen", "LENGTH"), ("TData", "DATA"), ("TSeq", "SEQNUM"), ("TDay", "DAYOFMONTH"),
    ("TFloat", "FLOAT"), ("TQty", "QTY"), ("TPrice", "PRICE"), ("TPxOff", "PRICEOFFSET"), ("TAmt", "AMT"),
    ("TPct", "PERCENTAGE"), ("TChar", "CHAR"), ("TBool", "BOOLEAN"), ("TStr", "STRING"),
    ("TMvs", "MULTIPLEVALUESTRING"), ("TMsv", "MULTIPLESTRINGVALUE"), ("TCountry", "COUNTRY"),
    ("TCcy", "CURRENCY"), ("TExch", "EXCHANGE"), ("TLocDate", "LOCALMKTDATE"), ("TUtcDate", "UTCDATEONLY"),
    ("TUtcTs", "UTCTIMESTAMP"), ("TUtcTime", "UTCTIMEONLY"), ("TMonthYear", "MONTHYEAR"),
]


def synthetic_xml():
    typed_members = "".join("<field name='%s' required='N'/>" % n for n, _ in _SYN_TYPED)
    fields = [
        (8, "BeginString", "STRING", ()), (9, "BodyLength", "LENGTH", ()), (35, "MsgType", "STRING", ()),
        (49, "SenderCompID", "STRING", ()), (56, "TargetCompID", "STRING", ()), (34, "MsgSeqNum", "SEQNUM", ()),
        (52, "SendingTime", "UTCTIMESTAMP", ()), (43, "PossDupFlag", "BOOLEAN", ("Y", "N")),
        (122, "OrigSendingTime", "UTCTIMESTAMP", ()),
        (93, "SignatureLength", "LENGTH", ()), (89, "Signature", "DATA", ()), (10, "CheckSum", "STRING", ()),
        (5001, "AlphaID", "STRING", ()), (5002, "AlphaText", "STRING", ()), (5003, "NoAlphaLegs", "NUMINGROUP", ()),
        (5004, "LegRef", "STRING", ()), (5005, "NoLegSubs", "NUMINGROUP", ()), (5006, "SubID", "STRING", ()),
        (5007, "SubQty", "QTY", ()), (5008, "NoSubParts", "NUMINGROUP", ()), (5009, "BetaFlag", "BOOLEAN", ()),
        (5010, "A1", "STRING", ()), (5011, "NoAItems", "NUMINGROUP", ()), (5012, "AItem", "INT", ()),
        (5013, "B1", "PRICE", ()), (5014, "C1", "CHAR", ("1", "2", "3")), (5015, "C2", "STRING", ()),
        (5016, "NoCParts", "NUMINGROUP", ()), (5017, "CPartNote", "STRING", ()), (5018, "D1", "INT", ("1", "2", "7")),
        (5019, "D2", "CURRENCY", ()), (5020, "NoEHeads", "NUMINGROUP", ()), (5021, "NoEFirst", "NUMINGROUP", ()),
        (5022, "EF1", "STRING", ()), (5023, "EH2", "STRING", ()), (5024, "GammaID", "STRING", ()),
        (5025, "NoTypedTop", "NUMINGROUP", ()), (5026, "TypedRef", "STRING", ()),
        (5027, "NoTypedNested", "NUMINGROUP", ()), (5028, "TypedRef2", "STRING", ()),
        (5029, "EnumMvs", "MULTIPLEVALUESTRING", ("a", "b", "c")), (5030, "EnumStr", "STRING", ("AA", "BB")),
        (5031, "Unused", "STRING", ()), (5032, "BetaNote", "STRING", ()), (5033, "NoDeltaItems", "NUMINGROUP", ()),
        (627, "NoHops", "NUMINGROUP", ()), (628, "HopCompID", "STRING", ()), (629, "HopSendingTime", "UTCTIMESTAMP", ()),
        (630, "HopRefID", "SEQNUM", ()),
        (7, "BeginSeqNo", "SEQNUM", ()), (16, "EndSeqNo", "SEQNUM", ()), (36, "NewSeqNo", "SEQNUM", ()),
        (45, "RefSeqNum", "SEQNUM", ()), (5034, "EpsCount", "INT", ()), (5035, "EpsDay", "DAYOFMONTH", ()),
    ]
    n = 5100
    for name, typ in _SYN_TYPED:
        fields.append((n, name, typ, ()))
        n += 1
    fx = []
    for num, name, typ, en in fields:
        if en:
            fx.append("<field number='%d' name='%s' type='%s'>%s</field>" % (
                num, name, typ, "".join("<value enum='%s' description='V%s'/>" % (e, e) for e in en)))
        else:
            fx.append("<field number='%d' name='%s' type='%s'/>" % (num, name, typ))
    return """<fix type='FIX' major='4' minor='4' servicepack='0'>
 <header>
  <field name='BeginString' required='Y'/><field name='BodyLength' required='Y'/>
  <field name='MsgType' required='Y'/><field name='SenderCompID' required='Y'/>
  <field name='TargetCompID' required='Y'/><field name='MsgSeqNum' required='Y'/>
  <field name='PossDupFlag' required='N'/><field name='SendingTime' required='Y'/>
  <field name='OrigSendingTime' required='N'/>
  <group name='NoHops' required='N'>
   <field name='HopCompID' required='N'/><field name='HopSendingTime' required='N'/>
   <field name='HopRefID' required='N'/>
  </group>
 </header>
 <messages>
  <message name='Alpha' msgtype='UA' msgcat='app'>
   <field name='AlphaID' required='Y'/>
   <component name='CompA' required='Y'/>
   <field name='AlphaText' required='N'/>
   <group name='NoAlphaLegs' required='Y'>
    <field name='LegRef' required='Y'/>
    <component name='CompC' required='N'/>
    <group name='NoLegSubs' required='Y'>
     <field name='SubID' required='N'/>
     <field name='SubQty' required='Y'/>
     <group name='NoSubParts' required='Y'>
      <component name='CompD' required='Y'/>
      <field name='CPartNote' required='N'/>
     </group>
    </group>
   </group>
  </message>
  <message name='Beta' msgtype='UB' msgcat='app'>
   <component name='CompB' required='N'/>
   <field name='BetaFlag' required='Y'/>
   <component name='CompE' required='Y'/>
   <field name='BetaNote' required='N'/>
  </message>
  <message name='Delta' msgtype='UD' msgcat='app'>
   <field name='TMvs' required='Y'/>
   <group name='NoDeltaItems' required='N'>
    <field name='TypedRef' required='Y'/>
    <field name='TMvs' required='Y'/>
   </group>
  </message>
  <message name='Eps' msgtype='UE' msgcat='app'>
   <field name='BeginSeqNo' required='Y'/>
   <field name='EndSeqNo' required='Y'/>
   <field name='NewSeqNo' required='N'/>
   <field name='RefSeqNum' required='N'/>
   <field name='EpsCount' required='N'/>
   <field name='EpsDay' required='N'/>
  </message>
  <message name='Gamma' msgtype='UC' msgcat='app'>
   <field name='GammaID' required='Y'/>
   <component name='CompT' required='N'/>
   <field name='EnumMvs' required='N'/>
   <field name='EnumStr' required='N'/>
   <group name='NoTypedTop' required='N'>
    <field name='TypedRef' required='Y'/>
    <component name='CompT' required='N'/>
    <group name='NoTypedNested' required='N'>
     <field name='TypedRef2' required='N'/>
     <component name='CompT' required='N'/>
     <field name='EnumStr' required='N'/>
    </group>
   </group>
  </message>
 </messages>
 <trailer>
  <field name='SignatureLength' required='N'/><field name='Signature' required='N'/>
  <field name='CheckSum' required='Y'/>
 </trailer>
 <components>
  <component name='CompA'>
   <field name='A1' required='Y'/>
   <component name='CompB' required='Y'/>
   <group name='NoAItems' required='N'>
    <field name='AItem' required='Y'/>
    <component name='CompD' required='N'/>
   </group>
  </component>
  <component name='CompB'>
   <field name='B1' required='N'/>
   <component name='CompC' required='Y'/>
  </component>
  <component name='CompC'>
   <field name='C1' required='Y'/>
   <field name='C2' required='N'/>
   <group name='NoCParts' required='N'>
    <component name='CompD' required='Y'/>
    <field name='CPartNote' required='N'/>
   </group>
  </component>
  <component name='CompD'>
   <field name='D1' required='Y'/>
   <field name='D2' required='N'/>
  </component>
  <component name='CompE'>
   <group name='NoEHeads' required='Y'>
    <group name='NoEFirst' required='N'>
     <field name='EF1' required='Y'/>
    </group>
    <field name='EH2' required='N'/>
   </group>
  </component>
  <component name='CompT'>%s</component>
 </components>
 <fields>%s</fields>
</fix>""" % (typed_members, "".join(fx))


DICT_IDS = ["SIMPLE", "SYN", "FIX44", "TT"]


def dict_root(did, repo):
    if did == "SYN":
        return ET.fromstring(synthetic_xml())
    fn = {"FIX44": "FIX44.xml", "TT": "TT-FIX44.xml", "SIMPLE": "schema_fix_simple.xml"}[did]
    return ET.parse(os.path.join(repo, "tests", fn)).getroot()


def permuted_root(root, perm):
    r = copy.deepcopy(root)
    comps = r.find("components")
    kids = list(comps)
    assert sorted(perm) == list(range(len(kids)))
    comps[:] = [kids[i] for i in perm]
    return r


# --------------------------------------------------------------------------------------
# instances: tree = list of nodes [tag, value]; value = str | list of items (item = tree)
# --------------------------------------------------------------------------------------
def canon_value(m):
    if m["en"]:
        return m["en"][0]
    t = m["typ"].upper()
    if t == "STRING":
        return STRING_POOL[SEED % len(STRING_POOL)]
    if t in CANON:
        return CANON[t][0]
    return "abc"  # datatype unknown to FIX 4.4: nothing is demanded about its values


def build(members, in_group, mode, target=None, two=False, path=()):
    """mode 'min': required (and 'required?') members, group delimiters, members on `target`;
    mode 'groups': as 'min' plus every repeating group; mode 'max': everything.
    two: every group gets a second item (built in mode 'min', or 'groups' when mode is 'groups')."""
    nodes = []
    for i, m in enumerate(members):
        p = path + (m["tag"],)
        inc = (mode == "max" or m["req"] != "N" or (in_group and i == 0) or (mode == "groups" and m["k"] == "g")
               or (target is not None and target[:len(p)] == p))
        if not inc:
            continue
        if m["k"] == "f":
            nodes.append([m["tag"], canon_value(m)])
        else:
            items = [build(m["mem"], True, mode, target, two, p)]
            if two:
                if mode == "groups":
                    items.append(build(m["mem"], True, "groups", None, True, p))
                else:
                    items.append(build(m["mem"], True, "min", None, False, p))
            nodes.append([m["tag"], items])
    return nodes


def set_value(tree, path, value):
    """Copy of tree with the plain field at `path` (tags; first item of each group) set to value."""
    t = list(tree)
    for i, (tag, val) in enumerate(t):
        if tag == path[0]:
            if len(path) == 1:
                t[i] = [tag, value]
            else:
                items = list(val)
                items[0] = set_value(items[0], path[1:], value)
                t[i] = [tag, items]
            return t
    raise KeyError(path)


def positions(members, path=(), level=0):
    """Every member position of a message: (path, member, level, index in its container)."""
    for i, m in enumerate(members):
        p = path + (m["tag"],)
        yield p, m, level, i
        if m["k"] == "g":
            for x in positions(m["mem"], p, level + 1):
                yield x


def has_group(tree):
    return any(isinstance(v, list) for _t, v in tree)


def tree_size(tree):
    n = 0
    for _t, v in tree:
        n += 1
        if isinstance(v, list):
            for it in v:
                n += tree_size(it)
    return n


def containers(tree, members, level=0, addr=()):
    """Every container of a concrete instance: (addr, nodes, dictionary members, level)."""
    yield addr, tree, members, level
    idx = {m["tag"]: m for m in members}
    for ni, (tag, val) in enumerate(tree):
        if isinstance(val, list) and tag in idx and idx[tag]["k"] == "g":
            for ii, item in enumerate(val):
                for x in containers(item, idx[tag]["mem"], level + 1, addr + ((ni, ii),)):
                    yield x


def replace(tree, addr, newc):
    if not addr:
        return newc
    (ni, ii), rest = addr[0], addr[1:]
    node = tree[ni]
    items = list(node[1])
    items[ii] = replace(items[ii], rest, newc)
    t = list(tree)
    t[ni] = [node[0], items]
    return t


def level_name(level):
    """'top' = message body, 'nested' = inside a repeating group item (any depth)."""
    return "top" if level == 0 else "nested"


# --------------------------------------------------------------------------------------
# per dictionary context (walker side + library side), built before forking
# --------------------------------------------------------------------------------------
class DCtx:
    def __init__(self, did, repo):
        from asyncfix.protocol.schema import FIXSchema

        self.did = did
        self.root = dict_root(did, repo)
        self.d = Dictionary(self.root, did)
        self.load_error = None
        try:
            self.schema = FIXSchema(ET.ElementTree(copy.deepcopy(self.root)))
        except BaseException as e:  # noqa - the library cannot load this dictionary at all
            self.schema = None
            self.load_error = "EXC:%s: %s" % (type(e).__name__, str(e)[:200])
        d = self.d
        self.msgs = d.messages
        # plain (never used as a group, not header/trailer) fields in tag order: candidates for
        # "known but not allowed here"
        self.plain = sorted(
            (t for t, (n, ty, en) in d.by_tag.items()
             if t not in d.group_tags and t not in d.header_tags and t not in d.trailer_tags
             and ty.upper() != "NUMINGROUP"),
            key=int)
        pool = ["9999", "29999", "39999", "49999", "59999"]
        pool = pool[SEED % len(pool):] + pool[:SEED % len(pool)]
        self.unknown = next(t for t in pool if t not in d.by_tag)
        # members of header / trailer groups (e.g. HopCompID of NoHops): allowed only inside that group
        env_top = set(m["tag"] for m in d.header) | set(m["tag"] for m in d.trailer)
        self.env_group_members = sorted(
            (t for t in (d.header_tags | d.trailer_tags) - env_top
             if t not in d.group_tags and d.by_tag[t][1].upper() != "NUMINGROUP"), key=int)
        # plain fields that occur only inside groups, in no message body at top level
        top_anywhere = set(m["tag"] for _n, _t, mem in self.msgs for m in mem)
        self.group_only = [t for t in self.plain if t not in top_anywhere]
        # first top-level and first nested position of every plain field (walk order of the dictionary)
        self.first_pos = set()
        seen = set()
        for mi, (_n, _t, mem) in enumerate(self.msgs):
            for p, m, level, _i in positions(mem):
                k = (m["tag"], level > 0)
                if m["k"] == "f" and k not in seen:
                    seen.add(k)
                    self.first_pos.add((mi, p))

    def field_member(self, tag):
        n, ty, en = self.d.by_tag[tag]
        return {"k": "f", "tag": tag, "name": n, "typ": ty, "en": en, "req": "N"}


DC = {}


def get_dc(did, repo):
    if did not in DC:
        DC[did] = DCtx(did, repo)
    return DC[did]


def to_msg(mt, tree):
    from asyncfix import FIXMessage
    from asyncfix.message import FIXContainer

    def fill(cont, nodes):
        for tag, val in nodes:
            if isinstance(val, list):
                cont.set_group(tag, [fill(FIXContainer(), it) for it in val])
            else:
                cont.set(tag, val)
        return cont

    return fill(FIXMessage(mt), tree)


def verdict(schema, mt, tree):
    """'True' | 'FIXMessageError' | 'EXC:<type>' | 'RET:<repr>' - observed at FIXSchema.validate."""
    from asyncfix.errors import FIXMessageError

    msg = to_msg(mt, tree)  # container construction is the harness' business: let it raise
    try:
        r = schema.validate(msg)
    except FIXMessageError:
        return "FIXMessageError"
    except BaseException as e:  # noqa
        return "EXC:" + type(e).__name__
    return "True" if r is True else "RET:" + repr(r)[:40]


# --------------------------------------------------------------------------------------
# valid instances
# --------------------------------------------------------------------------------------
def header_nodes(dc, mt, optional):
    """Header part of a complete message (plain fields only), or None if the dictionary's
    MsgType enumeration does not contain mt."""
    nodes = []
    for m in dc.d.header:
        if m["k"] != "f":
            continue
        if m["req"] == "N" and not optional:
            continue
        v = canon_value(m)
        if m["tag"] == "8":
            v = "FIX.4.4"
        elif m["tag"] == "35":
            if m["en"] and mt not in m["en"]:
                return None
            v = mt
        nodes.append([m["tag"], v])
    return nodes


def trailer_nodes(dc, optional):
    nodes = []
    for m in dc.d.trailer:
        if m["k"] != "f" or m["tag"] == "10":
            continue
        if optional:
            nodes.append([m["tag"], canon_value(m)])
    nodes.append(["10", "123"])
    return nodes


def valid_instances(dc, mi, quick_subset, thorough=True):
    """yield (class, tree) - every one is a message built according to the dictionary."""
    name, mt, members = dc.msgs[mi]
    mn = build(members, False, "min")
    mx = build(members, False, "max")
    yield "minimal", mn
    yield "maximal", mx
    yield "top_level_order_reversed", list(reversed(mx))
    yield "two_item_groups", build(members, False, "max", two=True)
    yield "two_item_groups", build(members, False, "groups", two=True)
    h = header_nodes(dc, mt, False)
    if h is not None:
        yield "with_header", h + mn + trailer_nodes(dc, False)
        ho = header_nodes(dc, mt, True)
        yield "with_header", ho + mx + trailer_nodes(dc, False)
        hg = [m for m in dc.d.header if m["k"] == "g"]
        if hg:
            yield "with_header_group", ho + build(hg, False, "max", two=True) + mn + trailer_nodes(dc, False)
        if len(dc.d.trailer) > 1:
            yield "with_optional_trailer_fields", h + mn + trailer_nodes(dc, True)
    # framing / trailer tags early in the tag order (a decoded message that was amended, a hand-built one)
    for pname, wrap in framings(dc, mt):
        yield "framing_tags_" + pname, wrap(mx)
        yield "framing_tags_" + pname, wrap(build(members, False, "groups", two=True))
    if quick_subset:
        return
    for p, m, level, i in positions(members):
        lv = level_name(level)
        if m["req"] == "N" and not (level > 0 and i == 0):
            yield "minimal_plus_optional_" + ("group" if m["k"] == "g" else "field") + "|" + lv, \
                build(members, False, "min", target=p)
        if m["k"] != "f":
            continue
        if not thorough and (mi, p) not in dc.first_pos:
            continue  # quick tier: value variants at the first top-level / nested position of each field
        base = None
        if m["en"]:
            base = build(members, False, "min", target=p)
            for e in m["en"][1:]:
                yield "enumerator|" + lv, set_value(base, p, e), base
            # Deliberately NOT demanded: "enum1 enum2" for enumerated MultipleValueString fields.  FIX allows
            # space separated lists there, but C19 states that enumerated fields accept exactly the enumerated
            # values - the two statements leave this cell open, so it is unconstrained (the library rejects it).
        else:
            t = m["typ"].upper()
            for v in CANON.get(t, [])[1:]:
                if base is None:
                    base = build(members, False, "min", target=p)
                yield "typed_value:" + t + "|" + lv, set_value(base, p, v), base
        if m["tag"] in SPECIAL_VALID and not m["en"]:
            if base is None:
                base = build(members, False, "min", target=p)
            yield "special_value_tag" + m["tag"], set_value(base, p, SPECIAL_VALID[m["tag"]]), base
    if not thorough:
        return
    # maximal minus each optional member (never a group delimiter)
    for addr, nodes, mem, level in containers(mx, members):
        idx = {m["tag"]: (j, m) for j, m in enumerate(mem)}
        for ni, (tag, _v) in enumerate(nodes):
            j, m = idx[tag]
            if m["req"] == "N" and not (level > 0 and j == 0):
                yield "maximal_minus_optional|" + level_name(level), replace(mx, addr, nodes[:ni] + nodes[ni + 1:])


# --------------------------------------------------------------------------------------
# single-fault mutations
# --------------------------------------------------------------------------------------
def outside_enum(m):
    t = m["typ"].upper()
    if t in ("INT", "NUMINGROUP", "SEQNUM", "LENGTH", "DAYOFMONTH"):
        cands = ["987654", "876543", "765432"]
    elif t in ("CHAR", "BOOLEAN"):
        cands = ["~", "^", "|", "}"]
    else:
        cands = ["ZZZ9", "YYY8", "~~"]
    for c in cands:
        if c not in m["en"] and not any(c in e.split(" ") for e in m["en"]):
            return c
    return None


def bad_values(m, all_values):
    """(class, value) - values outside the enumeration / outside the declared type."""
    if m["en"]:
        v = outside_enum(m)
        if v is not None:
            yield "value_outside_enum", v
        return
    t = m["typ"].upper()
    vals = BAD.get(t, [])
    if all_values == "ext":
        vals = vals + BAD_EXT.get(t, [])
    for v in (vals if all_values else vals[:2]):
        if SPECIAL_VALID.get(m["tag"]) == v:
            continue
        yield "value_outside_type:" + t, v


def message_tags(members):
    s = set()
    for _p, m, _l, _i in positions(members):
        s.add(m["tag"])
    return s


def faults(dc, mi, base, thorough, only_in_groups=False, swap_first_only=False, members=None):
    """yield (class, level name, tree, note) - each one differs from a valid instance by
    exactly one violation of the dictionary.  members: member list of `base` when it is not the body of
    message mi (header + trailer)."""
    name, mt, _members = dc.msgs[mi]
    if members is None:
        members = _members
    all_tags = message_tags(members)
    top_tags = set(m["tag"] for m in members)
    nested_only = sorted(all_tags - top_tags, key=int)
    absent = [t for t in dc.plain if t not in all_tags]
    for addr, nodes, mem, level in containers(base, members):
        if only_in_groups and level == 0:
            continue
        lv = level_name(level)
        idx = {m["tag"]: (j, m) for j, m in enumerate(mem)}
        here = set(idx)
        for ni, (tag, val) in enumerate(nodes):
            j, m = idx[tag]
            without = nodes[:ni] + nodes[ni + 1:]
            # -- removals
            if level > 0 and j == 0:
                yield "missing_group_first_member", lv, replace(base, addr, without), m["name"]
            elif m["req"] == "Y":
                cls = "missing_required_group" if m["k"] == "g" else "missing_required_field"
                yield cls, lv, replace(base, addr, without), m["name"]
            if m["k"] == "f":
                # -- values
                for cls, v in bad_values(m, thorough):
                    yield cls, lv, replace(base, addr, nodes[:ni] + [[tag, v]] + nodes[ni + 1:]), m["name"]
                if thorough or level > 0 or ni == 0:
                    yield "empty_value", lv, replace(base, addr, nodes[:ni] + [[tag, ""]] + nodes[ni + 1:]), m["name"]
                # -- plain field given as a repeating group
                inner = "1" if tag != "1" else "2"
                yield "field_given_as_group", lv, \
                    replace(base, addr, nodes[:ni] + [[tag, [[[inner, "x"]]]]] + nodes[ni + 1:]), m["name"]
            else:
                # -- repeating group given as a plain field
                yield "group_given_as_field", lv, \
                    replace(base, addr, nodes[:ni] + [[tag, "1"]] + nodes[ni + 1:]), m["name"]
                # -- repeating group with zero items (goes on the wire as NoXxx=0): a required group (or the
                #    delimiter group of an item) is then missing, an optional one has a NumInGroup that is not positive
                zcls = "zero_items_required_group" if (m["req"] == "Y" or (level > 0 and j == 0)) \
                    else "zero_items_optional_group"
                if m["req"] != "?":
                    yield zcls, lv, replace(base, addr, nodes[:ni] + [[tag, []]] + nodes[ni + 1:]), m["name"]
            # -- order inside a group item
            if level > 0 and ni + 1 < len(nodes) and (ni == 0 or not swap_first_only):
                sw = list(nodes)
                sw[ni], sw[ni + 1] = sw[ni + 1], sw[ni]
                yield "group_member_out_of_order", lv, replace(base, addr, sw), m["name"]
        # -- additions
        spots = [len(nodes)] + ([1] if thorough and len(nodes) > 1 else [])
        for at in spots:
            def ins(node):
                return replace(base, addr, nodes[:at] + [node] + nodes[at:])

            yield "unknown_tag", lv, ins([dc.unknown, "1"]), dc.unknown
            if absent:
                t = absent[(SEED + level) % len(absent)] if level else absent[SEED % len(absent)]
                yield "known_tag_not_in_message", lv, ins([t, canon_value(dc.field_member(t))]), t
            if level == 0:
                cands = [t for t in nested_only if t in dc.plain]
                if cands:
                    t = cands[0]
                    yield "group_member_outside_its_group", lv, ins([t, canon_value(dc.field_member(t))]), t
            else:
                # a member of another container of this message, foreign to this group
                cands = [t for t in sorted(all_tags - here, key=int) if t in dc.plain]
                if cands:
                    t = cands[0]
                    yield "member_of_other_container", lv, ins([t, canon_value(dc.field_member(t))]), t
            if at != len(nodes):
                continue
            # a tag that the dictionary allows only inside some repeating group, none of this message
            gonly = [t for t in dc.group_only if t not in all_tags]
            if gonly and (thorough or level == 0):
                t = gonly[(SEED + level) % len(gonly)]
                yield "group_only_tag_not_in_message", lv, ins([t, canon_value(dc.field_member(t))]), t
            # a member of a header / trailer group (HopCompID ...) as a plain tag
            env = [t for t in dc.env_group_members if t not in all_tags]
            for t in (env if thorough else env[SEED % len(env):][:1] if level == 0 and env else []):
                yield "header_group_member_outside_its_group", lv, ins([t, canon_value(dc.field_member(t))]), t


def framings(dc, mt):
    """(name, wrap): wrap(body tree) -> the same body with framing / trailer tags in front of it or after
    its first member.  The body members that follow are judged exactly as without those tags."""
    tr_all = trailer_nodes(dc, True)     # 93, 89 (if the dictionary has them) and 10
    out = [("checksum_first", lambda t: [["10", "123"]] + t),
           ("trailer_after_first_member", lambda t: t[:1] + tr_all + t[1:])]
    h = header_nodes(dc, mt, False)
    if h is not None:
        out.append(("header_and_trailer_first", lambda t: h + tr_all + t))
    return out


ENV_CLASS = {"unknown_tag": "foreign_member", "known_tag_not_in_message": "foreign_member",
             "member_of_other_container": "foreign_member", "group_only_tag_not_in_message": "foreign_member",
             "header_group_member_outside_its_group": "foreign_member", "empty_value": "bad_value",
             "value_outside_enum": "bad_value"}


def envelope_faults(dc, mi, thorough):
    """Structural faults in the header / trailer part, which belongs to every message of the dictionary:
    plain header / trailer field given as a group, header group given as a plain field or with zero items,
    and every group-item fault inside the header group(s) (NoHops); bad values of trailer fields.
    Two carriers: 'complete' (all header and trailer members present) and 'bare' (the minimal body plus the
    one faulty member)."""
    name, mt, members = dc.msgs[mi]
    hdr = header_nodes(dc, mt, True)
    if hdr is None:
        return
    hgroups = [m for m in dc.d.header if m["k"] == "g"]
    tgroups = [m for m in dc.d.trailer if m["k"] == "g"]
    tr = trailer_nodes(dc, True)
    env = hdr + build(hgroups, False, "max", two=True) + tr[:-1] + build(tgroups, False, "max", two=True) + tr[-1:]
    env_members = list(dc.d.header) + list(dc.d.trailer)
    if _dups_flat(env_members):
        return
    declared = set(m["tag"] for m in env_members)
    extra = [n for n in env if n[0] not in declared]   # CheckSum when the dictionary has no <trailer>
    env = [n for n in env if n[0] in declared]
    trailer_tags = set(m["tag"] for m in dc.d.trailer)
    body = build(members, False, "min")
    for cls, lv, tree, note in faults(dc, mi, env, thorough, members=env_members):
        changed = [n for n in tree if n not in env]
        if len(changed) != 1:
            continue  # removals at the top level of the envelope: see header_faults
        tag = changed[0][0]
        part = "trailer" if tag in trailer_tags else "header"
        if lv == "top":
            if tag not in dc.d.header_tags and tag not in dc.d.trailer_tags:
                continue  # added foreign tag at message level: same as in the body
            if cls.startswith("value_outside") or cls == "empty_value":
                if part == "header":
                    continue  # header_faults
                cls2, lv2 = "bad_value", "trailer_field"
            else:
                cls2, lv2 = cls, part + "_member"
        else:
            cls2 = ENV_CLASS.get(cls, "bad_value" if cls.startswith("value_outside") else cls)
            lv2 = part + "_group_item"
        hp = [n for n in tree if n[0] not in trailer_tags]
        tp = [n for n in tree if n[0] in trailer_tags]
        yield cls2, lv2, body + changed, note + " (bare: " + cls + ")"
        yield cls2, lv2, hp + body + tp + extra, note + " (complete: " + cls + ")"


def _dups_flat(members):
    seen = set()
    for m in members:
        if m["tag"] in seen:
            return True
        seen.add(m["tag"])
    return False


def header_faults(dc, mi, thorough):
    """Complete message (BeginString present): faults in the header part."""
    name, mt, members = dc.msgs[mi]
    hreq = header_nodes(dc, mt, False)
    hall = header_nodes(dc, mt, True)
    if hreq is None:
        return
    body = build(members, False, "min")
    tr = trailer_nodes(dc, False)
    hm = {m["tag"]: m for m in dc.d.header if m["k"] == "f"}
    for ni, (tag, val) in enumerate(hreq):
        m = hm[tag]
        if tag == "8":
            continue  # without BeginString the message is not a complete message: unconstrained
        yield "missing_required_header_field", "top", hreq[:ni] + hreq[ni + 1:] + body + tr, m["name"]
        for cls, v in bad_values(m, thorough):
            yield cls, "top", hreq[:ni] + [[tag, v]] + hreq[ni + 1:] + body + tr, m["name"]
    for t in dc.env_group_members:
        yield "header_group_member_outside_its_group", "top", \
            hreq + [[t, canon_value(dc.field_member(t))]] + body + tr, t
    # optional header fields, enumerated ones first (simplest counterexample first)
    for tag, val in sorted(hall, key=lambda n: (not hm[n[0]]["en"],)):
        m = hm[tag]
        if m["req"] == "N":
            for cls, v in bad_values(m, thorough):
                yield "bad_value", "header_optional_field", hreq + [[tag, v]] + body + tr, m["name"]


VALID_CLAUSE = ("a message built according to the dictionary (required members present, only allowed members, "
                "values of the declared type or enumeration, groups in dictionary order starting with the first "
                "member) validates")
FAULT_CLAUSE = ("any single violation (at any nesting depth) is rejected with the library's message error "
                "(FIXMessageError) and no other exception")
ORDER_CLAUSE = "the outcome does not depend on the order in which components are declared in the XML"


def judge_valid(did, mname, mt, cls, tree, v):
    if v == "True":
        return None
    kind = "valid_rejected" if v == "FIXMessageError" else "valid_raised"
    return {
        "signature": "%s|%s" % (kind, cls),
        "clause": VALID_CLAUSE,
        "detail": {"dictionary": did, "message": mname, "msgtype": mt, "instance": cls, "observed": v,
                   "expected": "True", "size": tree_size(tree), "tree": _short(tree)},
        "replay": {"kind": "case", "dict": did, "msgtype": mt, "tree": tree, "expect": "True",
                   "signature_ok": "%s|%s" % ("%s", cls)},
    }


def judge_fault(did, mname, mt, base_name, cls, lv, note, tree, v):
    if v == "FIXMessageError":
        return None
    kind = "fault_accepted" if v == "True" else "fault_wrong_exception"
    if cls == "empty_value":
        sig = "%s|empty_value" % kind
    else:
        sig = "%s|%s|%s" % (kind, cls, lv)
    return {
        "signature": sig,
        "clause": FAULT_CLAUSE,
        "detail": {"dictionary": did, "message": mname, "msgtype": mt, "base": base_name, "fault": cls, "level": lv,
                   "member": note, "observed": v, "expected": "FIXMessageError", "size": tree_size(tree),
                   "tree": _short(tree)},
        "replay": {"kind": "case", "dict": did, "msgtype": mt, "tree": tree, "expect": "FIXMessageError",
                   "signature_ok": "%s|" + (("%s|%s" % (cls, lv)) if cls != "empty_value" else "empty_value")},
    }


def _short(tree, cap=40):
    def r(nodes):
        out = []
        for t, v in nodes:
            if isinstance(v, list):
                out.append("%s=[%s]" % (t, "; ".join(r(it) for it in v)))
            else:
                out.append("%s=%s" % (t, v))
        return "|".join(out)

    s = r(tree)
    return s if len(s) <= 600 else s[:600] + "..."


def _hash(tree):
    return hashlib.blake2b(repr(tree).encode("utf-8", "surrogatepass"), digest_size=8).digest()


# --------------------------------------------------------------------------------------
# workers
# --------------------------------------------------------------------------------------
REPO = "/repo"


def _work(item):
    """item = (did, mi, part, thorough) ; part in valid / faults_min / faults_max / faults_two / header"""
    did, mi, part, thorough = item
    # all values of the fault tables everywhere in the thorough tier, in the small dictionaries and on
    # the small bases; the first value only at the positions of the maximal instance in the quick tier
    thorough_values = thorough or did in ("SIMPLE", "SYN") or part != "faults_max"
    # the non-members of the temporal family (BAD_EXT): everywhere in the two small dictionaries (the synthetic
    # one has every temporal type at top level, at nesting depth 1 and 2, and in the header); thorough tier:
    # also at every position of the minimal instance and the header of the real dictionaries
    if thorough_values and (did in ("SIMPLE", "SYN") or (thorough and part in ("faults_min", "header"))):
        thorough_values = "ext"
    dc = get_dc(did, REPO)
    name, mt, members = dc.msgs[mi]
    seen = {}
    res = {"n": 0, "calls": 0, "nontrivial": 0, "viol": [], "vsigs": {}, "outcomes": set(), "classes": {},
           "base_invalid": 0}

    def record(j):
        if j is None:
            return
        s = j["signature"]
        if s in res["vsigs"]:
            res["vsigs"][s] += 1
        else:
            res["vsigs"][s] = 1
            res["viol"].append(j)

    def run_one(tree, again=False):
        h = _hash(tree)
        if h in seen:
            return seen[h] if again else None
        res["calls"] += 1
        if has_group(tree):
            res["nontrivial"] += 1
        v = verdict(dc.schema, mt, tree)
        seen[h] = v
        res["outcomes"].add(v)
        return v

    if part == "valid":
        for tup in valid_instances(dc, mi, not thorough and did == "TT", thorough or did in ("SIMPLE", "SYN")):
            cls, tree = tup[0], tup[1]
            if len(tup) > 2 and run_one(tup[2], again=True) != "True":
                # a value variant of an instance that is itself not accepted: that instance is reported
                # (minimal / minimal_plus_optional_*), the variant would only repeat it
                res["base_invalid"] += 1
                continue
            v = run_one(tree)
            if v is None:
                continue
            k = "valid:" + cls.split("|")[0].split(":")[0]
            res["classes"][k] = res["classes"].get(k, 0) + 1
            record(judge_valid(did, name, mt, cls, tree, v))
    elif part == "header":
        for cls, lv, tree, note in header_faults(dc, mi, thorough_values):
            v = run_one(tree)
            if v is None:
                continue
            k = "fault:" + cls.split(":")[0] + "|" + lv
            res["classes"][k] = res["classes"].get(k, 0) + 1
            record(judge_fault(did, name, mt, "minimal+header", cls, lv, note, tree, v))
    elif part == "envelope":
        for cls, lv, tree, note in envelope_faults(dc, mi, thorough_values):
            v = run_one(tree)
            if v is None:
                continue
            k = "fault:" + cls + "|" + lv
            res["classes"][k] = res["classes"].get(k, 0) + 1
            j = judge_fault(did, name, mt, "minimal+envelope", cls, lv, note, tree, v)
            record(j)
    elif part == "faults_framed":
        # the faults of the minimal instance (all fault values) and the in-group faults of the all-groups
        # instance, placed AFTER framing / trailer tags
        mn = build(members, False, "min")
        gr = build(members, False, "groups")
        for pname, wrap in framings(dc, mt):
            gens = []
            if run_one(wrap(mn), again=True) == "True":
                gens.append(("minimal", faults(dc, mi, mn, True)))
            else:
                res["base_invalid"] += 1
            if pname == "checksum_first" and gr != mn:
                if run_one(wrap(gr), again=True) == "True":
                    gens.append(("all_groups", faults(dc, mi, gr, False, only_in_groups=True)))
                else:
                    res["base_invalid"] += 1
            for bname, gen in gens:
                for cls, lv, tree, note in gen:
                    if cls.startswith("zero_items"):
                        continue  # judged without framing tags only (own signatures)
                    tree = wrap(tree)
                    v = run_one(tree)
                    if v is None:
                        continue
                    lv2 = lv + "_after_framing_tags"
                    k = "fault:" + cls.split(":")[0] + "|" + lv2
                    res["classes"][k] = res["classes"].get(k, 0) + 1
                    # one cause class for everything that is skipped behind framing tags
                    record(judge_fault(did, name, mt, bname + "+" + pname,
                                       "empty_value" if cls == "empty_value" else "any_fault", lv2,
                                       cls + ":" + str(note), tree, v))
    else:
        mn = build(members, False, "min")
        if part == "faults_min":
            base, bname, second = mn, "minimal", False
        elif part == "faults_max":
            base, bname, second = build(members, False, "max"), "maximal", False
            if base == mn:
                base = None
        else:
            # every group of the message with two small items each: faults in first and in second items
            base, bname, second = build(members, False, "groups", two=True), "all_groups_two_items", True
        nbase = 0
        if base is not None:
            nbase = 0 if _hash(base) in seen else 1  # the base itself is counted by the valid part
        if base is not None and run_one(base, again=True) != "True":
            # faults of an instance that is itself rejected prove nothing (the valid part reports it)
            res["base_invalid"] += 1
            base = None
        if base is not None:
            for cls, lv, tree, note in faults(dc, mi, base, thorough_values, only_in_groups=second):
                v = run_one(tree)
                if v is None:
                    continue
                k = "fault:" + cls.split(":")[0] + "|" + lv
                res["classes"][k] = res["classes"].get(k, 0) + 1
                record(judge_fault(did, name, mt, bname, cls, lv, note, tree, v))
    res["n"] = len(seen) - (nbase if part in ("faults_min", "faults_max", "faults_two") else 0)
    return res


# ---- declaration order ---------------------------------------------------------------
ORDER_CORPUS = {}   # did -> list of (mt, tree)
ORDER_BASE = {}     # did -> list of verdicts under the declared order


def order_corpus(dc, size):
    """Verdict-sensitive corpus: valid instances plus the faults whose verdict depends on the
    member lists, their order and their required flags.
    size 'all': every fault of the minimal and the maximal instance; 'medium': structural faults of the
    maximal instance; 'small': removals, and one swap (delimiter <-> successor) per group item."""
    out = []
    for mi, (name, mt, members) in enumerate(dc.msgs):
        mn = build(members, False, "min")
        mx = build(members, False, "max")
        out.append((mt, mn))
        out.append((mt, mx))
        out.append((mt, build(members, False, "max", two=True)))
        if size == "all":
            for cls, lv, tree, note in faults(dc, mi, mx, True):
                out.append((mt, tree))
            for cls, lv, tree, note in faults(dc, mi, mn, True):
                out.append((mt, tree))
        else:
            keep = ("missing_required_field", "missing_group_first_member", "missing_required_group",
                    "group_member_out_of_order", "unknown_tag", "member_of_other_container",
                    "group_given_as_field")
            if size == "small":
                keep = keep[:4]
            for cls, lv, tree, note in faults(dc, mi, mx, False, swap_first_only=(size == "small")):
                if cls in keep:
                    out.append((mt, tree))
    return out


def _order_work(item):
    did, perm, size = item
    from asyncfix.protocol.schema import FIXSchema

    dc = get_dc(did, REPO)
    corpus = ORDER_CORPUS[(did, size)]
    base = ORDER_BASE[(did, size)]
    res = {"calls": 0, "viol": [], "vsigs": {}, "parse": "ok"}
    try:
        schema = FIXSchema(ET.ElementTree(permuted_root(dc.root, perm)))
    except BaseException as e:  # noqa
        res["parse"] = "EXC:" + type(e).__name__
        names = dc.d.component_order
        res["viol"].append({
            "signature": "order_dependence|dictionary_rejected_in_this_order",
            "clause": ORDER_CLAUSE,
            "detail": {"dictionary": did, "order": [names[i] for i in perm][:12], "observed": res["parse"] + ": " + str(e)[:200],
                       "expected": "parses as under the declared order"},
            "replay": {"kind": "order", "dict": did, "perm": list(perm), "case": None},
        })
        res["vsigs"][res["viol"][0]["signature"]] = 1
        return res
    for ci, (mt, tree) in enumerate(corpus):
        v = verdict(schema, mt, tree)
        res["calls"] += 1
        if v != base[ci]:
            sig = "order_dependence|verdict_differs"
            if sig in res["vsigs"]:
                res["vsigs"][sig] += 1
                continue
            res["vsigs"][sig] = 1
            names = dc.d.component_order
            res["viol"].append({
                "signature": sig,
                "clause": ORDER_CLAUSE,
                "detail": {"dictionary": did, "order": [names[i] for i in perm][:12], "msgtype": mt,
                           "observed": v, "declared_order_gives": base[ci], "tree": _short(tree)},
                "replay": {"kind": "order", "dict": did, "perm": list(perm), "case": {"msgtype": mt, "tree": tree}},
            })
    return res


def real_permutations(dc, quick):
    n = len(dc.d.component_order)
    ident = list(range(n))
    perms = []
    if n < 2:
        return perms
    perms.append(ident[::-1])
    # dependencies first / dependencies last (topological orders)
    deps = dc.d.component_deps()
    names = dc.d.component_order
    order, done = [], set()

    def visit(c):
        if c in done:
            return
        done.add(c)
        for x in sorted(deps[c]):
            visit(x)
        order.append(c)

    for c in names:
        visit(c)
    first = [names.index(c) for c in order]
    perms.append(first)
    perms.append(first[::-1])
    step_r = 13 if quick else 1
    for k in range(1, n, step_r):
        perms.append(ident[k:] + ident[:k])
    step_t = 6 if quick else 1
    for k in range(0, n - 1, step_t):
        p = list(ident)
        p[k], p[k + 1] = p[k + 1], p[k]
        perms.append(p)
    out, seen = [], {tuple(ident)}
    for p in perms:
        if tuple(p) not in seen:
            seen.add(tuple(p))
            out.append(p)
    return out


# ---- validation history --------------------------------------------------------------
HISTORY_CLAUSE = ("the verdict is a function of the message and the dictionary (a message built according to the "
                  "dictionary validates, any single violation is rejected) - it does not depend on what the same "
                  "FIXSchema instance validated before")
HIST = {}        # did -> list of (kind, class, mt, tree, focus values)
HIST_ORDERS = ("forward", "reversed", "valid_first", "faults_first")


def leaves(tree, out=None):
    out = set() if out is None else out
    for t, v in tree:
        if isinstance(v, list):
            for it in v:
                leaves(it, out)
        else:
            out.add((t, v))
    return out


def history_corpus(dc):
    """Small cases that put the same literal value into different fields / datatypes: per message the
    minimal instance and every fault of it (all fault values), the header faults, and at the first position of
    every field each canonical / special / enumerated value.  focus = the values the case adds to its base."""
    out = []
    for mi, (name, mt, members) in enumerate(dc.msgs):
        mn = build(members, False, "min")
        base_leaves = leaves(mn)
        out.append(("valid", "minimal", mt, mn, frozenset(v for _t, v in base_leaves)))
        for cls, lv, tree, note in faults(dc, mi, mn, "ext" if dc.did in ("SIMPLE", "SYN") else True):
            out.append(("fault", cls, mt, tree, frozenset(v for _t, v in leaves(tree) - base_leaves)))
        hb = header_nodes(dc, mt, False)
        if hb is not None:
            hl = leaves(hb + mn + trailer_nodes(dc, False))
            for cls, lv, tree, note in header_faults(dc, mi, True):
                out.append(("fault", cls, mt, tree, frozenset(v for _t, v in leaves(tree) - hl)))
    for mi, p in sorted(dc.first_pos):
        name, mt, members = dc.msgs[mi]
        m = None
        for pp, mm, _l, _i in positions(members):
            if pp == p:
                m = mm
        base = build(members, False, "min", target=p)
        vals = []
        if m["en"]:
            vals = [("enumerator", e) for e in m["en"][:3]]
        else:
            # (the temporal family: history runs of the two small dictionaries only)
            vals = [("typed_value:" + m["typ"].upper(), v) for v in CANON.get(m["typ"].upper(), [])
                    if dc.did in ("SIMPLE", "SYN") or (m["typ"].upper(), v) not in FAMILY_ONLY]
        if m["tag"] in SPECIAL_VALID and not m["en"]:
            vals.insert(0, ("special_value_tag" + m["tag"], SPECIAL_VALID[m["tag"]]))
        for cls, v in vals:
            out.append(("valid", cls, mt, set_value(base, p, v), frozenset([v])))
    return out


def hist_sequence(corpus, order):
    idx = list(range(len(corpus)))
    if order == "reversed":
        idx.reverse()
    elif order == "valid_first":
        idx = [i for i in idx if corpus[i][0] == "valid"] + [i for i in idx if corpus[i][0] != "valid"]
    elif order == "faults_first":
        idx = [i for i in idx if corpus[i][0] != "valid"] + [i for i in idx if corpus[i][0] == "valid"]
    return idx


def fresh_schema(dc):
    from asyncfix.protocol.schema import FIXSchema

    return FIXSchema(ET.ElementTree(copy.deepcopy(dc.root)))


def _hist_work(item):
    """('seq', did, order): one fresh FIXSchema validates the whole corpus in that order -> verdict per index.
    ('pair', did, ia, ib): fresh instance validates A then B, another fresh instance B then A."""
    dc = get_dc(item[1], REPO)
    corpus = HIST[item[1]]
    if item[0] == "seq":
        schema = fresh_schema(dc)
        out = [None] * len(corpus)
        for i in hist_sequence(corpus, item[2]):
            out[i] = verdict(schema, corpus[i][2], corpus[i][3])
        return out
    ia, ib = item[2], item[3]
    a, b = corpus[ia], corpus[ib]
    s1 = fresh_schema(dc)
    a_fresh = verdict(s1, a[2], a[3])
    b_after_a = verdict(s1, b[2], b[3])
    s2 = fresh_schema(dc)
    b_fresh = verdict(s2, b[2], b[3])
    a_after_b = verdict(s2, a[2], a[3])
    return (a_fresh, b_after_a, b_fresh, a_after_b)


def hist_signature(case):
    kind, cls = case[0], case[1]
    return "history_dependence|" + ("valid:" if kind == "valid" else "") + cls


def hist_violation(did, case, fresh, observed, first, how):
    return {
        "signature": hist_signature(case),
        "clause": HISTORY_CLAUSE,
        "detail": {"dictionary": did, "msgtype": case[2], "case": case[1], "tree": _short(case[3]),
                   "verdict_on_fresh_instance": fresh, "verdict_after_history": observed, "history": how,
                   "validated_before": None if first is None else {"msgtype": first[2], "case": first[1],
                                                                    "tree": _short(first[3])}},
        "replay": {"kind": "history", "dict": did, "seed": SEED, "signature": hist_signature(case),
                   "first": None if first is None else {"msgtype": first[2], "tree": first[3]},
                   "then": {"msgtype": case[2], "tree": case[3]}, "how": how},
    }


def history_pairs(corpus, cap):
    """(valid A, fault B) pairs whose added values intersect; pairs involving a field-specific special value first."""
    by_val = {}
    for i, c in enumerate(corpus):
        if c[0] == "fault":
            for v in c[4]:
                by_val.setdefault(v, []).append(i)
    for v in by_val:
        by_val[v].sort(key=lambda i: (tree_size(corpus[i][3]), i))  # smallest counterpart first
    pairs, seen = [], set()
    valid = [i for i, c in enumerate(corpus) if c[0] == "valid" and c[1] != "minimal"]
    valid.sort(key=lambda i: (not corpus[i][1].startswith("special_value"), i))
    per_value = {}
    for ia in valid:
        for v in sorted(corpus[ia][4]):
            for ib in by_val.get(v, []):
                k = (corpus[ia][1], corpus[ib][1], v)
                # a few representatives per (valid class, fault class, value)
                if per_value.get(k, 0) >= (6 if corpus[ia][1].startswith("special_value") else 1):
                    continue
                if (ia, ib) in seen:
                    continue
                per_value[k] = per_value.get(k, 0) + 1
                seen.add((ia, ib))
                pairs.append((ia, ib))
    return pairs[:cap]


def find_polluter(dc, corpus, order, i, fresh):
    """A single earlier case of that run after which case i gets another verdict than on a fresh instance."""
    seq = hist_sequence(corpus, order)
    before = seq[:seq.index(i)]
    cands = [j for j in reversed(before) if corpus[j][4] & corpus[i][4]]
    for j in cands[:24]:
        s = fresh_schema(dc)
        verdict(s, corpus[j][2], corpus[j][3])
        if verdict(s, corpus[i][2], corpus[i][3]) != fresh:
            return j
    return None


def run_history(ctx):
    items = []
    npairs = {}
    for did in DICT_IDS:
        dc = DC[did]
        if dc.schema is None:
            continue
        HIST[did] = history_corpus(dc)
        for o in HIST_ORDERS:
            items.append(("seq", did, o))
        pairs = history_pairs(HIST[did], 400 if did in ("SIMPLE", "SYN") else (12 if ctx.quick else 60))
        npairs[did] = len(pairs)
        items += [("pair", did, ia, ib) for ia, ib in pairs]
    gc.collect()
    gc.freeze()
    items.sort(key=lambda x: (x[0] != "seq", DICT_IDS.index(x[1]) if x[0] != "seq" else -len(HIST[x[1]])))
    res = ctx.pmap(_hist_work, items, chunk=1)
    seqs = {}
    for it, r in zip(items, res):
        did = it[1]
        corpus = HIST[did]
        if it[0] == "seq":
            seqs.setdefault(did, {})[it[2]] = r
            ctx.count(states=1, transitions=len(r) + 1, traces=len(r), evaluations=len(r), schema_parses=1,
                      history_sequences=1)
            ctx.outcomes.update(r)
            continue
        a, b = corpus[it[2]], corpus[it[3]]
        a_fresh, b_after_a, b_fresh, a_after_b = r
        ctx.count(states=2, transitions=6, traces=4, evaluations=4, schema_parses=2, history_pairs=1)
        if b_after_a != b_fresh:
            ctx.merge_violations([hist_violation(did, b, b_fresh, b_after_a, a, "pair")])
        if a_after_b != a_fresh:
            ctx.merge_violations([hist_violation(did, a, a_fresh, a_after_b, b, "pair")])
    for did in DICT_IDS:
        if did not in seqs:
            continue
        dc, corpus, runs = DC[did], HIST[did], seqs[did]
        for i, case in enumerate(corpus):
            vs = [runs[o][i] for o in HIST_ORDERS]
            if len(set(vs)) == 1:
                continue
            sig = hist_signature(case)
            if sig in ctx.violations:
                ctx.violations[sig]["count"] += 1
                continue
            fresh = verdict(fresh_schema(dc), case[2], case[3])
            ctx.count(transitions=2, schema_parses=1)
            o = next(o for o in HIST_ORDERS if runs[o][i] != fresh)
            j = find_polluter(dc, corpus, o, i, fresh)
            v = hist_violation(did, case, fresh, runs[o][i], None if j is None else corpus[j],
                               "one earlier validation" if j is not None else "sequence:%s:%d" % (o, i))
            if j is None:
                v["replay"]["sequence"] = {"order": o, "index": i}
            ctx.merge_violations([v])
    return {did: {"history_corpus": len(HIST[did]), "history_orders": len(HIST_ORDERS), "history_pairs": npairs[did]}
            for did in HIST}


# --------------------------------------------------------------------------------------
def run(ctx):
    global SEED, REPO
    SEED = ctx.seed
    REPO = ctx.repo
    thorough = not ctx.quick
    install_temporal(thorough)
    for did in DICT_IDS:
        dc = get_dc(did, REPO)
        if dc.load_error:
            ctx.violation("dictionary_rejected|declared_order", VALID_CLAUSE,
                          {"dictionary": did, "observed": dc.load_error,
                           "expected": "FIXSchema loads the dictionary (R10 expands it without error)"},
                          {"kind": "load", "dict": did})
            ctx.count(states=1, transitions=1)
    ctx.rule = (
        "R10 (independent xml.etree walker, components inlined) expands every message type of FIX44.xml, "
        "TT-FIX44.xml, schema_fix_simple.xml and one synthetic dictionary; per message: valid instances (minimal, "
        "maximal, reversed top-level order, two-item groups, all-groups-two-items, with required / all header fields, "
        "with optional trailer fields, minimal + each optional member at every depth, every further enumerator and "
        "every canonical typed value [quick: at the first top-level and first nested position of each field; "
        "thorough: at every position], two enumerators in an enumerated MultipleValueString, EndSeqNo=0; thorough: "
        "maximal minus each optional member) and, from the minimal instance, the maximal instance and every group "
        "item (first and second) of the all-groups-two-items instance, every single-fault mutation at every member "
        "position of every container (remove required field / required group / group delimiter, value outside enum "
        "/ outside type, empty value, field as group, group as field, swap adjacent group members, add unknown / "
        "not-in-message / other-container tag; header: remove required field, bad value); then the verdicts of a "
        "corpus are recomputed under permutations of <components> (all 720 / 6 for the synthetic / toy dictionary, "
        "reversal + dependencies-first + dependencies-last + rotations + adjacent transpositions for FIX44.xml). "
        "Value faults of numeric datatypes include literals with a legal start and an illegal tail (blank, line "
        "feed, digit grouping, exponent, second decimal point, letters). Temporal datatypes (UTCTimestamp, "
        "UTCTimeOnly, UTCDateOnly, LocalMktDate, MonthYear): the valid values are the cross product of the special "
        "cases the datatype table states - year (0000, 2024, 9999 [thorough: + 0001, 2000, 1900]) x day (0101, 1231, "
        "0630, 0229 in leap years) x time (00:00:00, 03:04:05, 23:59:59, leap second 23:59:60 on 1231 / 0630) x "
        "fraction (none, .sss); MonthYear: year x (YYYYMM, YYYYMMDD first / last day, YYYYMMw1, w5, end of "
        "February) - placed like every canonical value; the value faults are that family with exactly ONE component "
        "out of range (month 13 / 00, day 00 / 32 / 0230 / 0631, second 61, hour 24, minute 60, truncated / "
        "dangling fraction, wrong separator, week w0 / w6) at every temporal position of the toy and the synthetic "
        "dictionary (top level, nesting depth 1 and 2, header) [thorough: also at every position of the minimal "
        "instance and the header of the real dictionaries]. Framing: valid instances and all faults of "
        "the minimal instance (plus the in-group faults of the all-groups instance) are repeated with CheckSum(10) "
        "in front, with the trailer tags after the first member and with header + trailer in front of the body. "
        "Foreign tags are also drawn from the members of header / trailer groups (HopCompID ...) and from tags the "
        "dictionary allows only inside groups. Validation history: per dictionary a corpus of small cases that put "
        "the same literal value into different fields / datatypes (minimal instances, all their faults, header "
        "faults, canonical / special / enumerated values at the first position of every field) is validated by "
        "ONE fresh FIXSchema in four orders (forward, reversed, valid first, faults first) and the four verdicts "
        "of every case must agree; (valid, fault) pairs sharing a value (EndSeqNo(16)=0 first) are validated A,B "
        "and B,A on fresh instances and compared with the fresh-instance verdict. "
        "Faults of a base instance that does not validate are not judged. non-trivial = instance containing at "
        "least one repeating group")
    items = []
    for did in DICT_IDS:
        dc = DC[did]
        if dc.schema is None:
            continue
        for mi, (name, mt, members) in enumerate(dc.msgs):
            sz = count_positions(members)
            parts = ["valid", "faults_min", "faults_max", "faults_two", "faults_framed", "header", "envelope"]
            if ctx.quick and did == "TT":
                parts = ["valid", "faults_min", "faults_two", "faults_framed", "header", "envelope"]
            for part in parts:
                items.append((sz, DICT_IDS.index(did), mi, part))
    # big first for load balance; merged simplest-first below
    sched = sorted(items, key=lambda x: (-x[0], x[1], x[2], x[3]))
    work = [(DICT_IDS[di], mi, part, thorough) for (sz, di, mi, part) in sched]
    gc.collect()
    gc.freeze()  # keep the inherited dictionaries out of the workers' collector (less copy-on-write)
    results = ctx.pmap(_work, work, chunk=1)
    rank = {"valid": 0, "faults_min": 1, "faults_max": 2, "faults_two": 3, "header": 4, "faults_framed": 5, "envelope": 6}
    merged = sorted(zip(sched, results), key=lambda x: (x[0][3] in ("header", "envelope"), x[0][0], x[0][1], x[0][2], rank[x[0][3]]))
    classes = {}
    for (sz, di, mi, part), r in merged:
        ctx.count(states=r["n"], transitions=r["calls"], traces=r["calls"], evaluations=r["calls"],
                  nontrivial=r["nontrivial"], not_judged_because_base_instance_rejected=r["base_invalid"])
        ctx.outcomes.update(r["outcomes"])
        for k, n in r["classes"].items():
            classes[k] = classes.get(k, 0) + n
        for v in r["viol"]:
            v = dict(v)
            v["count"] = r["vsigs"][v["signature"]]
            ctx.merge_violations([v])
    # ---- declaration order
    order_items = []
    nperm = {}
    ncorpus = {}
    for did in DICT_IDS:
        dc = DC[did]
        n = len(dc.d.component_order)
        if n < 2 or dc.schema is None:
            nperm[did] = 0
            continue
        if did in ("SIMPLE", "SYN"):
            perms = [list(p) for p in itertools.permutations(range(n))][1:]
            if ctx.quick and did == "SYN":
                # quick tier: all 120 orders of the five inter-dependent components, the independent
                # last one (CompT) stays in place; thorough: all 720
                perms = [p for p in perms if p[-1] == n - 1]
            plan = [(p, "all" if (did == "SIMPLE" or not ctx.quick) else "medium") for p in perms]
        else:
            perms = real_permutations(dc, ctx.quick)
            # every order on the small corpus; in the thorough tier reversal, dependencies-first,
            # dependencies-last and every 10th further order also on the medium corpus
            plan = [(p, "small") for p in perms]
            if not ctx.quick:
                plan += [(p, "medium") for i, p in enumerate(perms) if i < 3 or i % 10 == 0]
        for size in sorted(set(sz for _p, sz in plan)):
            corpus = order_corpus(dc, size)
            ORDER_CORPUS[(did, size)] = corpus
            ORDER_BASE[(did, size)] = [verdict(dc.schema, mt, tree) for mt, tree in corpus]
            ctx.count(transitions=len(corpus), evaluations=len(corpus))
            ncorpus.setdefault(did, {})[size] = len(corpus)
        nperm[did] = len(perms)
        order_items += [(did, p, sz) for p, sz in plan]
    gc.collect()
    gc.freeze()
    order_items.sort(key=lambda x: {"medium": 0, "all": 1, "small": 2}[x[2]] if x[0] not in ("SIMPLE", "SYN") else 3)
    ores = ctx.pmap(_order_work, order_items, chunk=1)
    parse_outcomes = set()
    seen_orders = set()
    for (did, p, sz), r in zip(order_items, ores):
        if (did, tuple(p)) not in seen_orders:
            seen_orders.add((did, tuple(p)))
            ctx.count(states=1)
        ctx.count(transitions=r["calls"] + 1, traces=r["calls"], evaluations=r["calls"], schema_parses=1)
        parse_outcomes.add(r["parse"])
        for v in r["viol"]:
            v = dict(v)
            v["count"] = r["vsigs"][v["signature"]]
            ctx.merge_violations([v])
    ctx.outcomes.update("parse:" + p for p in parse_outcomes)
    hist_bounds = run_history(ctx)
    ctx.bounds = {
        "dictionaries": {did: {"messages": len(DC[did].msgs),
                               "member_positions": sum(count_positions(m) for _n, _t, m in DC[did].msgs),
                               "components": len(DC[did].d.component_order),
                               "component_orders_tried": nperm[did],
                               "order_corpus": ncorpus.get(did, {})} for did in DICT_IDS},
        "validation_history": hist_bounds,
        "cases_per_class": dict(sorted(classes.items())),
        "tier": ctx.tier,
    }
    for did in DICT_IDS:
        for nm, why in DC[did].d.skipped:
            ctx.notes.append("skipped %s/%s: %s" % (did, nm, why))
    dc = DC["FIX44"]
    name, mt, members = dc.msgs[1]
    ctx.sample({"valid": "minimal", "dict": "FIX44", "msgtype": mt, "tree": _short(build(members, False, "min"))})
    for did, mi in (("SIMPLE", 1), ("FIX44", 14)):
        dc = DC[did]
        name, mt, members = dc.msgs[mi]
        fl = list(faults(dc, mi, build(members, False, "max"), False))
        for cls, lv, tree, note in fl[:: max(1, len(fl) // 2)][:2]:
            ctx.sample({"fault": cls, "level": lv, "dict": did, "msgtype": mt, "member": note, "tree": _short(tree)[:300]})
    ctx.assumptions += [
        "instances are FIXMessage/FIXContainer objects (one value per tag and container); wire-level duplicates are "
        "out of scope",
        "requiredness of a member declared required='Y' inside a <component required='N'> reference is not fixed by "
        "the property: such members are always present in valid instances and never removed as a fault (none occurs "
        "in the two real dictionaries)",
        "a message without BeginString(8) is judged on its body only; header faults are injected only into complete "
        "messages (BeginString present); removing BeginString itself is unconstrained",
        "top-level order of body fields is free; a repeating group with zero items is a fault (required: the group is missing; optional: NumInGroup "
        "is not positive); mismatching LENGTH/DATA pairs and "
        "conditionally required fields are unconstrained",
        "values: only unquestionable members / non-members of each FIX 4.4 datatype are used (lexical corner cases "
        "belong to C19); temporal values are members when every component is inside the range the FIX 4.4 datatype "
        "table states (YYYY 0000-9999, SS 00-60, optional .sss; 0000 is a leap year of the proleptic Gregorian "
        "calendar) - whether a leap second really occurred on that day is not asked; enumerated fields: any declared enumerator is valid, a value equal to no enumerator is a "
        "fault; MultipleValueString with enumerators: two declared enumerators separated by one space are valid",
    ]


def replay(ctx, rep):
    global SEED, REPO
    SEED = ctx.seed
    REPO = ctx.repo
    install_temporal(not getattr(ctx, "quick", True))
    from asyncfix.protocol.schema import FIXSchema

    dc = get_dc(rep["dict"], REPO)
    if rep["kind"] == "load" or dc.schema is None:
        if dc.load_error:
            return [{"signature": "dictionary_rejected|declared_order", "clause": VALID_CLAUSE,
                     "detail": {"dictionary": rep["dict"], "observed": dc.load_error}, "replay": rep}]
        return []
    if rep["kind"] == "history":
        SEED = rep.get("seed", SEED)
        then = rep["then"]
        fresh = verdict(fresh_schema(dc), then["msgtype"], then["tree"])
        s2 = fresh_schema(dc)
        if rep.get("first"):
            verdict(s2, rep["first"]["msgtype"], rep["first"]["tree"])
        elif rep.get("sequence"):
            DC.clear()  # regenerate the corpus with the recorded seed
            dc = get_dc(rep["dict"], REPO)
            corpus = history_corpus(dc)
            seq = hist_sequence(corpus, rep["sequence"]["order"])
            s2 = fresh_schema(dc)
            for i in seq[:seq.index(rep["sequence"]["index"])]:
                verdict(s2, corpus[i][2], corpus[i][3])
        after = verdict(s2, then["msgtype"], then["tree"])
        if after == fresh:
            return []
        return [{"signature": rep.get("signature", "history_dependence"), "clause": HISTORY_CLAUSE,
                 "detail": {"dictionary": rep["dict"], "verdict_on_fresh_instance": fresh,
                            "verdict_after_history": after, "tree": _short(then["tree"]),
                            "validated_before": _short(rep["first"]["tree"]) if rep.get("first") else rep.get("how")},
                 "replay": rep}]
    if rep["kind"] == "case":
        mt, tree = rep["msgtype"], rep["tree"]
        v = verdict(dc.schema, mt, tree)
        if v == rep["expect"]:
            return []
        if rep["expect"] == "True":
            kind = "valid_rejected" if v == "FIXMessageError" else "valid_raised"
            clause = VALID_CLAUSE
        else:
            kind = "fault_accepted" if v == "True" else "fault_wrong_exception"
            clause = FAULT_CLAUSE
        return [{"signature": rep["signature_ok"] % kind, "clause": clause,
                 "detail": {"dictionary": rep["dict"], "msgtype": mt, "observed": v, "expected": rep["expect"],
                            "tree": _short(tree)},
                 "replay": rep}]
    # declaration order
    perm = rep["perm"]
    try:
        schema = FIXSchema(ET.ElementTree(permuted_root(dc.root, perm)))
    except BaseException as e:  # noqa
        return [{"signature": "order_dependence|dictionary_rejected_in_this_order", "clause": ORDER_CLAUSE,
                 "detail": {"dictionary": rep["dict"], "observed": "EXC:%s: %s" % (type(e).__name__, str(e)[:200])},
                 "replay": rep}]
    if not rep.get("case"):
        return []
    mt, tree = rep["case"]["msgtype"], rep["case"]["tree"]
    a = verdict(dc.schema, mt, tree)
    b = verdict(schema, mt, tree)
    if a == b:
        return []
    return [{"signature": "order_dependence|verdict_differs", "clause": ORDER_CLAUSE,
             "detail": {"dictionary": rep["dict"], "msgtype": mt, "declared_order_gives": a, "observed": b,
                        "tree": _short(tree)},
             "replay": rep}]
