"""C18 - message containers behave as ordered tag maps with strict duplicate rules.

Explorer C over operation sequences: level-synchronous BFS over sequences of
mutating operations on the REAL FIXMessage / FIXContainer, deduplicated by the
state of an independent reference model (R6: insertion-ordered tuple of
(tag, str | tuple of items)).  In every distinct state every observer is applied
and judged by the model; every mutator variant (all tag spellings, all value
types, both group item forms, all indexes) is executed on a fresh real object
rebuilt by replaying the canonical path and the resulting real state is read
back through the public API and compared with the model.

The oracle is three-valued: only what the property sentence says is demanded.
"""
import hashlib
import pickle

from asyncfix import FIXMessage, FTag
from asyncfix.errors import (
    DuplicatedTagError,
    FIXMessageError,
    TagNotFoundError,
    UnmappedRepeatedGrpError,
)
from asyncfix.message import FIXContainer
from asyncfix.protocol import FOrdSide

CLAUSES = {
    "readback": "values read back are the string form of what was written, whether the tag is given as int, "
                "decimal string or tag enum",
    "ordered_map": "a message container behaves like an insertion-ordered map from integer tags to strings or "
                   "lists of nested containers",
    "dup_refused": "setting an existing tag fails unless replacement is requested and leaves the container unchanged",
    "nonint_tag": "non-integer tags are refused",
    "group_order": "group accessors return items in insertion/index order",
    "group_errors": "group accessors distinguish missing, plain and group tags by the documented errors",
    "eq_container": "equality with another container holds exactly when the tag/value content is the same",
    "eq_dict": "equality with a plain dict holds exactly when the tag/value content is the same "
               "(ignoring the four framing tags for dicts)",
    "nested": "a message container behaves like an insertion-ordered map from integer tags to strings or lists of "
              "nested containers (a nested container reached through a group accessor is itself such a container)",
    "pure": "for any sequence of operations (set / ... / group lookups / query / equality / pickle round trip) the "
            "container behaves like the reference map: lookups, comparisons and pickling do not change what later "
            "operations and observations yield",
    "ownership": "a message container behaves like an insertion-ordered map from integer tags to strings or lists of "
                 "nested containers: it owns its lists - its content changes only through its own operations, not "
                 "through another tag, another container or the list object the caller passed to set_group",
    "pickle": "pickle round trip preserves the container (quantifier: pickle round trip compared with the model)",
}

FRAMING = (8, 9, 10, 35)


class Item:
    def __init__(self, pairs, model, label):
        self.pairs, self.model, self.label = pairs, model, label


class Menu:
    """All concrete inputs. The seed rotates concrete names only."""

    def __init__(self, seed):
        self.seed = seed
        k = seed % 4
        A = ["a", "acc", "zz", "Q7"][k]
        B = ["b", "bob", "yy", "W8"][k]
        CUSTOM = [5001, 6001, 7001, 9001][k]
        self.A, self.B, self.CUSTOM = A, B, CUSTOM
        # (spelling, canonical tag or None when the spelling must be refused, spelling kind)
        self.TAGS = [
            (1, "1", "int"),
            (55, "55", "int"),
            (78, "78", "int"),
            (CUSTOM, str(CUSTOM), "int"),
            ("1", "1", "str"),
            (FTag.Account, "1", "enum"),
            ("abc", None, "abc"),
            ("1.5", None, "1.5"),
            ("", None, "empty"),
            # objects that are neither int, nor str, nor a tag enum: refused as well (never stored under "1.0" / "True")
            (1.0, None, "float_int"),
            (55.7, None, "float_frac"),
            (True, None, "bool"),
            (None, None, "none"),
            # another decimal spelling of tag 1: either refused or treated exactly as tag 1, never a second key
            ("01", "1", "zero_padded"),
            # strings int() parses but that are not decimal strings (ASCII digits only): refused
            (" 1", None, "lax_space_before"),
            ("+1", None, "lax_plus"),
            ("1 ", None, "lax_space_after"),
            ("1_0", None, "lax_underscore"),
            ("\u0661", None, "lax_unicode_digit"),
        ]
        self.NONSTR = (9, 10, 11, 12)
        self.EITHER = (13,)
        self.LAX = (14, 15, 16, 17, 18)
        self.CANON = ["1", "55", "78", str(CUSTOM)]
        self.BASE_TAG = {}  # tag index -> index of the simplest spelling of the same class
        for i, (_s, c, _k) in enumerate(self.TAGS):
            self.BASE_TAG[i] = self.CANON.index(c) if c is not None else (9 if i in self.NONSTR else (14 if i in self.LAX else 6))
        SEP = f"{A}|55={A}"  # a value that contains the printed-form separators
        self.SEP = SEP
        # (raw value, expected string form, kind)
        self.VALUES = [
            (A, A, "str"),
            (1, "1", "int"),
            (1.5, "1.5", "float"),
            (FOrdSide.BUY, "1", "enum"),
            (SEP, SEP, "sep"),
            ("", "", "emptystr"),  # a legal value whose string form is falsy
        ]
        # operations on a group item reached through an accessor: (label, inner tag spelling, canonical, ...)
        self.INNER = [
            ("set_new", 78, "78"),          # item.set(78, A)        (78 is in no menu item)
            ("set_replace", 55, "55"),      # item.set(55, B, replace=True)
            ("del", "1", "1"),              # del item["1"]
            ("set_dup", FTag.Account, "1"),  # item.set(FTag.Account, A) -> refused when the item holds tag 1
        ]
        self.ACCESSORS = ["get_group_by_index", "get_group_list", "get_group_by_tag"]
        # group items (one nesting level); model None => the item must be refused
        self.ITEMS = [
            Item([(1, A)], (("1", A),), "item_0"),
            Item([("1", B), (55, A)], (("1", B), ("55", A)), "item_1"),
            Item([(55, 1.5), (FTag.Account, A)], (("55", "1.5"), ("1", A)), "item_2"),
            Item([("abc", A)], None, "item_nonint_tag"),
            Item(None, None, "item_not_a_container"),
        ]
        self.N_VALID_ITEMS = 3
        # set_group lists: list of (item index, form) or the int 2123 (invalid member)
        self.LISTS = [
            ([], (), "list_empty"),
            ([(0, 0)], (self.ITEMS[0].model,), "list_1"),
            ([(2, 1), (1, 0)], (self.ITEMS[2].model, self.ITEMS[1].model), "list_2"),
            ([(0, 0), 2123], None, "list_with_int_member"),
            ([(3, 0)], None, "list_with_nonint_tag"),
        ]
        self.N_VALID_LISTS = 3
        self.OPS = self._ops()
        self.OP_INDEX = {op: i for i, op in enumerate(self.OPS)}

    def _ops(self):
        """Mutator variants applied in every expanded state, simplest first.
        Full cross product for the int spellings; the alternative spellings of tag 1 get every value / item /
        index; refused spellings get the variants that can tell them apart."""
        ops = []
        nt = len(self.TAGS)
        bad = [i for i in range(nt) if self.TAGS[i][1] is None and i not in self.NONSTR and i not in self.LAX]
        good = [i for i in range(nt) if self.TAGS[i][1] is not None and i not in self.EITHER]
        for rep in (0, 1):
            for ti in good:
                for vi in range(len(self.VALUES)):
                    ops.append(("set", ti, vi, rep))
            for ti in bad:
                ops.append(("set", ti, 0, rep))
        for ti in bad:
            ops.append(("set", ti, 4, 0))
        for ti in good:
            for vi in (0, 1):
                ops.append(("setitem", ti, vi))
        for ti in bad:
            ops.append(("setitem", ti, 0))
        for ti in good + bad + [self.NONSTR[0]]:
            ops.append(("del", ti))
        for ti in good:
            alt = self.TAGS[ti][2] != "int"
            for ii in range(self.N_VALID_ITEMS):
                for idx in (-1, 0, 1):
                    for form in (0, 1):
                        if alt and form != (ii + idx) % 2:
                            continue
                        ops.append(("add_group", ti, ii, form, idx))
        for ti in bad:
            for idx in (-1, 0):
                ops.append(("add_group", ti, 0, 0, idx))
        for ti in (2, 0, 6):
            for ii in range(self.N_VALID_ITEMS, len(self.ITEMS)):
                ops.append(("add_group", ti, ii, 0, -1))
        for li in (1, 0, 2):
            for ti in good:
                ops.append(("set_group", ti, li))
        for ti in bad:
            for li in (1, 0):
                ops.append(("set_group", ti, li))
        for ti in (2, 0, 6):
            for li in range(self.N_VALID_LISTS, len(self.LISTS)):
                ops.append(("set_group", ti, li))
        # non-str / non-int tag objects: one variant per mutator
        for ti in self.NONSTR:
            ops.append(("set", ti, 0, 0))
            ops.append(("add_group", ti, 0, 0, -1))
            ops.append(("set_group", ti, 1))
        # other decimal / lax spellings of tag 1
        for ti in self.EITHER + self.LAX:
            ops.append(("set", ti, 0, 0))
        # negative indexes below -1 (list.insert semantics; only -1 means append)
        for ti in good:
            if self.TAGS[ti][2] == "int":
                for ii in range(self.N_VALID_ITEMS):
                    ops.append(("add_group", ti, ii, ii % 2, -2))
                ops.append(("add_group", ti, 1, 0, -3))
                ops.append(("add_group", ti, 2, 1, -3))
            else:
                ops.append(("add_group", ti, 1, 0, -2))
        # group item reached through an accessor, then modified: ("item", tag, position, accessor, inner op)
        for ti in (0, 1, 2, 3, 5):
            for pos in (0, 1):
                for io in range(len(self.INNER)):
                    accs = (0, 1, 2) if ti == 2 else ((ti + pos + io) % 3,)
                    for ac in accs:
                        ops.append(("item", ti, pos, ac, io))
        return ops

    # ---- presentation ------------------------------------------------------
    def describe(self, op):
        kind = op[0]
        t = repr(self.TAGS[op[1]][0]) if self.TAGS[op[1]][2] != "enum" else "FTag.Account"
        if kind == "set":
            v = self.VALUES[op[2]]
            vv = "FOrdSide.BUY" if v[2] == "enum" else repr(v[0])
            return f"c.set({t}, {vv}{', replace=True' if op[3] else ''})"
        if kind == "setitem":
            v = self.VALUES[op[2]]
            return f"c[{t}] = {v[0]!r}"
        if kind == "del":
            return f"del c[{t}]"
        if kind == "add_group":
            g = self.item_src(op[2], op[3])
            return f"c.add_group({t}, {g}{'' if (op[4] == -1 and not op[3]) else ', ' + str(op[4])})"
        if kind == "item":
            acc = self.ACCESSORS[op[3]]
            if acc == "get_group_by_index":
                g = f"c.get_group_by_index({t}, {op[2]})"
            elif acc == "get_group_list":
                g = f"c.get_group_list({t})[{op[2]}]"
            else:
                g = f"c.get_group_by_tag({t}, <a tag/value only item {op[2]} has>)"
            label, it, _c = self.INNER[op[4]]
            its = "FTag.Account" if it is FTag.Account else repr(it)
            inner = {"set_new": f".set({its}, {self.A!r})", "set_replace": f".set({its}, {self.B!r}, replace=True)",
                     "set_dup": f".set({its}, {self.A!r})"}.get(label)
            return f"del {g}[{its}]" if label == "del" else g + inner
        if kind == "set_group":
            parts = []
            for m in self.LISTS[op[2]][0]:
                parts.append(str(m) if isinstance(m, int) else self.item_src(m[0], m[1]))
            return f"c.set_group({t}, [{', '.join(parts)}])"
        return repr(op)

    def item_src(self, ii, form):
        it = self.ITEMS[ii]
        if it.pairs is None:
            return "None"
        d = "{" + ", ".join(
            f"{('FTag.Account' if k is FTag.Account else repr(k))}: {v!r}" for k, v in it.pairs
        ) + "}"
        return f"FIXContainer({d})" if form else d


# ---------------------------------------------------------------------------
# reference model (R6)
# ---------------------------------------------------------------------------
def kind_of(st, canon):
    if canon is None:
        return "nonint"
    for k, v in st:
        if k == canon:
            return "plain" if isinstance(v, str) else "group"
    return "absent"


def model_apply(M, st, op):
    """-> (expectation code, next model state)."""
    kind = op[0]
    canon = M.TAGS[op[1]][1]
    tk = kind_of(st, canon)
    if kind in ("set", "setitem"):
        sval = M.VALUES[op[2]][1]
        rep = op[3] if kind == "set" else 0
        if tk == "nonint":
            return "refuse_set", st
        if tk == "absent":
            return "ok", st + ((canon, sval),)
        if not rep:
            return "dup", st
        return "ok", tuple((k, sval if k == canon else v) for k, v in st)
    if kind == "del":
        if tk in ("nonint", "absent"):
            return "free", st
        return "ok", tuple(kv for kv in st if kv[0] != canon)
    if kind == "add_group":
        item = M.ITEMS[op[2]].model
        idx = op[4]
        if item is None:
            return "msgerr", st
        if tk == "nonint":
            return "refuse", st
        if tk == "absent":
            return "ok", st + ((canon, (item,)),)
        if tk == "plain":
            return "plain_msgerr", st
        cur = dict(st)[canon]
        if idx < -1:
            idx = max(0, len(cur) + idx)  # list.insert semantics for every index but -1
        if idx == -1 or idx >= len(cur):
            new = cur + (item,)
        else:
            new = cur[:idx] + (item,) + cur[idx:]
        return "ok", tuple((k, new if k == canon else v) for k, v in st)
    if kind == "item":
        if tk != "group":
            return "skip", st
        cur = dict(st)[canon]
        pos = op[2]
        if pos >= len(cur):
            return "skip", st
        if M.ACCESSORS[op[3]] == "get_group_by_tag" and unique_key(cur, pos) is None:
            return "skip", st
        item = cur[pos]
        label, _sp, ic = M.INNER[op[4]]
        has = any(k == ic for k, _v in item)
        if label == "set_new" or label == "set_dup":
            if has:
                return "dup", st
            new = item + ((ic, M.A),)
        elif label == "set_replace":
            new = tuple((k, M.B if k == ic else v) for k, v in item) if has else item + ((ic, M.B),)
        else:  # del
            if not has:
                return "skip", st
            new = tuple(kv for kv in item if kv[0] != ic)
        nl = cur[:pos] + (new,) + cur[pos + 1:]
        return "ok", tuple((k, nl if k == canon else v) for k, v in st)
    if kind == "set_group":
        lm = M.LISTS[op[2]][1]
        if lm is None:
            return "msgerr", st
        if tk == "nonint":
            return "refuse", st
        if tk != "absent":
            return "dup", st
        return "ok", st + ((canon, lm),)
    raise AssertionError(op)


def unique_key(items, pos):
    """A (tag, value) pair that only item pos of the list holds, or None."""
    for kv in items[pos]:
        if sum(1 for it in items if kv in it) == 1:
            return kv
    return None


MUT_CLAUSE = {
    # (op kind, expectation) -> clause id
    ("item", "ok"): "nested", ("item", "dup"): "dup_refused",
    ("set", "ok"): "readback", ("setitem", "ok"): "readback",
    ("set", "dup"): "dup_refused", ("setitem", "dup"): "dup_refused",
    ("set", "refuse_set"): "nonint_tag", ("setitem", "refuse_set"): "nonint_tag",
    ("del", "ok"): "ordered_map", ("del", "free"): "ordered_map",
    ("add_group", "ok"): "group_order", ("set_group", "ok"): "group_order",
    ("add_group", "refuse"): "nonint_tag", ("set_group", "refuse"): "nonint_tag",
    ("add_group", "msgerr"): "group_errors", ("set_group", "msgerr"): "group_errors",
    ("add_group", "plain_msgerr"): "group_errors",
    ("set_group", "dup"): "dup_refused",
}


# ---------------------------------------------------------------------------
# real side
# ---------------------------------------------------------------------------
def new_root(cls):
    return FIXMessage("AB") if cls == "FIXMessage" else FIXContainer()


def make_item(M, ii, form):
    it = M.ITEMS[ii]
    if it.pairs is None:
        return None
    d = dict(it.pairs)
    return FIXContainer(d) if form else d


def real_apply(M, obj, op, st=None):
    """Execute one mutator on the real object (st = model state before; needed by the nested-item ops only)."""
    kind = op[0]
    tag = M.TAGS[op[1]][0]
    try:
        if kind == "item":
            acc = M.ACCESSORS[op[3]]
            if acc == "get_group_by_index":
                g = obj.get_group_by_index(tag, op[2])
            elif acc == "get_group_list":
                g = obj.get_group_list(tag)[op[2]]
            else:
                gk, gv = unique_key(dict(st)[M.TAGS[op[1]][1]], op[2])
                g = obj.get_group_by_tag(tag, int(gk) if op[2] else gk, gv)
            label, it, _c = M.INNER[op[4]]
            if label == "del":
                del g[it]
            elif label == "set_replace":
                g.set(it, M.B, replace=True)
            else:
                g.set(it, M.A)
            return None
        if kind == "set":
            raw = M.VALUES[op[2]][0]
            if op[3]:
                obj.set(tag, raw, replace=True)
            else:
                obj.set(tag, raw)
        elif kind == "setitem":
            obj[tag] = M.VALUES[op[2]][0]
        elif kind == "del":
            del obj[tag]
        elif kind == "add_group":
            g = make_item(M, op[2], op[3])
            if op[4] == -1 and not op[3]:
                obj.add_group(tag, g)  # default index
            else:
                obj.add_group(tag, g, op[4])
        elif kind == "set_group":
            lst = []
            for m in M.LISTS[op[2]][0]:
                lst.append(m if isinstance(m, int) else make_item(M, m[0], m[1]))
            obj.set_group(tag, lst)
        return None
    except Exception as e:  # noqa: the outcome is judged by the caller
        return e


def op_of(M, x):
    """Paths hold indexes into M.OPS during exploration and the op tuples themselves in replay files."""
    return M.OPS[x] if isinstance(x, int) else x


def rebuild(M, cls, path):
    obj = new_root(cls)
    ops = [op_of(M, oi) for oi in path]
    if not any(op[0] == "item" for op in ops):
        for op in ops:
            real_apply(M, obj, op)
        return obj
    st = ()
    for op in ops:
        real_apply(M, obj, op, st)
        st = model_apply(M, st, op)[1]
    return obj


def snap_item(g):
    if not isinstance(g, FIXContainer):
        return ("!not_a_container", type(g).__name__)
    out = []
    for k, v in g.items():
        out.append((str(k), v if type(v) is str else ("!", type(v).__name__, repr(v)[:40])))
    return tuple(out)


def snapshot(c):
    """State of the real object read through the public API, in model form."""
    out = []
    for k, v in c.items():
        if type(v) is str:
            out.append((str(k), v))
        else:
            try:
                gl = c.get_group_list(k)
                out.append((str(k), tuple(snap_item(g) for g in gl)))
            except Exception as e:
                out.append((str(k), ("!", type(v).__name__, repr(v)[:40], type(e).__name__)))
    return tuple(out)


def ename(e):
    return type(e).__name__


def judge(expect, exc):
    if expect == "ok":
        return None if exc is None else "raised_" + ename(exc)
    if expect == "free":
        return None
    if exc is None:
        return "accepted"
    if expect == "dup":
        return None if isinstance(exc, DuplicatedTagError) else "wrong_error_" + ename(exc)
    if expect in ("msgerr", "refuse_set", "plain_msgerr"):
        return None if isinstance(exc, FIXMessageError) else "wrong_error_" + ename(exc)
    if expect == "refuse":
        return None
    raise AssertionError(expect)


def check_mut(M, cls, path, st, op, shared=None):
    """Run one mutator on a real object in state st. -> (failure|None, expect, next state, info, reusable).

    shared: a real object already in state st that may be used when the model expects a refusal
    (the op must leave it unchanged); `reusable` tells whether it still is in state st afterwards."""
    expect, nst = model_apply(M, st, op)
    if expect == "skip":  # not applicable in this state (nested-item op without such an item)
        return None, expect, st, {}, True
    if shared is not None and expect != "ok":
        obj = shared
    else:
        obj = rebuild(M, cls, path)
        shared = None
    exc = real_apply(M, obj, op, st)
    fail = judge(expect, exc)
    got = None
    if shared is not None or fail is None or fail == "accepted" or fail.startswith("wrong_error"):
        got = snapshot(obj)
        if got != nst and fail is None:
            fail = "wrong_state" if expect == "ok" else "state_changed"
    if fail is not None and op[1] in M.EITHER and isinstance(exc, FIXMessageError):
        # "01": refusing it (message error, nothing changed) is as good as treating it as tag 1
        if got is None:
            got = snapshot(obj)
        if got == st:
            fail, expect, nst = None, "refused_alt", st
    info = {"raised": None if exc is None else f"{ename(exc)}: {exc}"[:160], "state_after": got}
    return fail, expect, nst, info, (shared is not None and got == st)


# attribute positions that may be simplified, per op kind: (position, base candidates or None, label)
def _deltas(M, op):
    kind = op[0]
    out = []
    bt = M.BASE_TAG[op[1]]
    if bt != op[1]:
        out.append((1, (bt,), "tag_" + M.TAGS[op[1]][2]))
    if kind in ("set", "setitem") and op[2] != 0:
        # two plain-string candidates: a refused set of the value already stored cannot show a change
        out.append((2, (0, 4) if op[2] != 4 else (0, 2), "value_" + M.VALUES[op[2]][2]))
    if kind == "add_group":
        if op[2] < M.N_VALID_ITEMS:
            if op[4] != -1:
                out.append((4, (-1,), f"idx_{op[4]}"))
            if op[2] != 0:
                # two candidates: inserting an item equal to its neighbours cannot show a wrong position
                out.append((2, (0, 1) if op[2] != 1 else (0, 2), M.ITEMS[op[2]].label))
            if op[3] != 0:
                # form 1 with index -1 also means "index passed explicitly"
                out.append((3, (0,), "as_container"))
        else:
            out.append((2, None, M.ITEMS[op[2]].label))
    if kind == "item" and op[3] != 0:
        out.append((3, (0,), "via_" + M.ACCESSORS[op[3]]))
    if kind == "set_group":
        if op[2] >= M.N_VALID_LISTS:
            out.append((2, None, M.LISTS[op[2]][2]))
        elif op[2] != 1:
            out.append((2, (1,), M.LISTS[op[2]][2]))
    return out


def classify_mut(M, cls, path, st, op, fail):
    """Greedy simplification of the op parameters: the cause class names what is needed to fail."""
    cur, curfail = op, fail
    needed = []
    for pos, bases, label in _deltas(M, op):
        if bases is None:
            needed.append(label)
            continue
        for base in bases:
            cand = cur[:pos] + (base,) + cur[pos + 1:]
            f2 = check_mut(M, cls, path, st, cand)[0]
            if f2 is not None:
                cur, curfail = cand, f2
                break
        else:
            if label == "as_container" and cur[4] == -1:
                label = "as_container_explicit_index"
            needed.append(label)
    return cur, curfail, "+".join(needed) or "base"


def opname(op):
    if op[0] == "item":
        return "item_" + ("set_new", "set_replace", "del", "set_dup")[op[4]]
    return "set_replace" if (op[0] == "set" and op[3]) else op[0]


# ---------------------------------------------------------------------------
# observers
# ---------------------------------------------------------------------------
def call(fn, *a):
    try:
        return True, fn(*a)
    except Exception as e:
        return False, e


def _plain_ok(r, v):
    return r[0] and type(r[1]) is str and r[1] == v


def _raises(r, cls, notcls=None):
    return (not r[0]) and isinstance(r[1], cls) and (notcls is None or not isinstance(r[1], notcls))


def _show(r):
    return (repr(r[1])[:120]) if r[0] else f"raised {ename(r[1])}: {r[1]}"[:160]


def _fk(r):
    return "returned" if r[0] else "raised_" + ename(r[1])


class Obs:
    """Collects failures of the observers in one state."""

    def __init__(self):
        self.fails = []  # (clause, observer, target, spell kind, canon, failure, detail)
        self.n = 0
        self.outcomes = set()

    def add(self, clause, observer, target, sk, canon, r, expected, call_src):
        self.fails.append((clause, observer, target, sk, canon, _fk(r) if not isinstance(r, str) else r,
                           {"call": call_src, "observed": _show(r) if not isinstance(r, str) else r,
                            "expected": expected}))


def tagsrc(M, ti):
    return "FTag.Account" if M.TAGS[ti][2] == "enum" else repr(M.TAGS[ti][0])


def observe_tags(M, c, st, o, full=True):
    d = dict(st)
    DFLT = ("D",)
    gtags = [(1, "1"), ("1", "1"), (FTag.Account, "1"), (55, "55")]
    gvals = [M.A, M.B, "1.5"]
    for ti, (tag, canon, sk) in enumerate(M.TAGS):
        ts = tagsrc(M, ti)
        if ti in M.EITHER or (not full and (ti in M.NONSTR or ti in M.LAX)):
            continue
        if canon is None:
            # refused spellings: a map from integer tags cannot hold them
            if full:
                # query: refused with the message error, or answered as "missing" - never another tag's value
                r = call(c.query, tag)
                o.n += 1
                if not (_raises(r, FIXMessageError)
                        or (r[0] and isinstance(r[1], dict) and all(x is None for x in r[1].values()))):
                    tgt = "nonstr_tag" if ti in M.NONSTR else ("laxdecimal_tag" if ti in M.LAX else "nonint_str")
                    o.add("nonint_tag", "query", tgt, "int", None, r, "FIXMessageError (or no value)",
                          f"c.query({ts})")
            r = call(c.get, tag)
            o.n += 5
            if r[0]:
                o.add("nonint_tag", "get", "nonint", sk, None, r, "an error", f"c.get({ts})")
            r = call(c.get, tag, DFLT)
            if r[0] and r[1] is not DFLT:
                o.add("nonint_tag", "get_default", "nonint", sk, None, r, "the default or an error", f"c.get({ts}, D)")
            r = call(c.__contains__, tag)
            if r[0] and r[1]:
                o.add("nonint_tag", "contains", "nonint", sk, None, r, "False", f"{ts} in c")
            r = call(c.is_group, tag)
            if r[0] and r[1] is not None:
                o.add("nonint_tag", "is_group", "nonint", sk, None, r, "None", f"c.is_group({ts})")
            r = call(c.get_group_list, tag)
            if r[0]:
                o.add("nonint_tag", "get_group_list", "nonint", sk, None, r, "an error", f"c.get_group_list({ts})")
            continue
        v = d.get(canon)
        tk = "absent" if v is None else ("plain" if isinstance(v, str) else "group")
        tkl = "plain_empty" if v == "" else tk  # cause class: a plain tag whose value is the empty string
        o.outcomes.add(("observe", tkl, sk))
        # ---- get / [] ------------------------------------------------------
        for name, fn, src in (("get", c.get, f"c.get({ts})"), ("getitem", c.__getitem__, f"c[{ts}]")):
            r = call(fn, tag)
            o.n += 1
            if tk == "plain":
                if not _plain_ok(r, v):
                    o.add("readback", name, tkl, sk, canon, r, repr(v), src)
            elif tk == "absent":
                if not _raises(r, TagNotFoundError):
                    o.add("group_errors", name, tkl, sk, canon, r, "TagNotFoundError", src)
            else:
                if not _raises(r, FIXMessageError, TagNotFoundError):
                    o.add("group_errors", name, tkl, sk, canon, r, "FIXMessageError (not TagNotFoundError)", src)
        for dflt, dsrc in ((None, "None"), (DFLT, "D")):
            r = call(c.get, tag, dflt)
            o.n += 1
            src = f"c.get({ts}, {dsrc})"
            if tk == "plain":
                if not _plain_ok(r, v):
                    o.add("readback", "get_default", tkl, sk, canon, r, repr(v), src)
            elif tk == "absent":
                if not (r[0] and r[1] is dflt):
                    o.add("ordered_map", "get_default", tkl, sk, canon, r, "the default", src)
            else:
                if not (_raises(r, FIXMessageError, TagNotFoundError) or (r[0] and r[1] is dflt)):
                    o.add("group_errors", "get_default", tkl, sk, canon, r, "FIXMessageError or the default", src)
        # ---- contains / is_group -------------------------------------------
        r = call(c.__contains__, tag)
        o.n += 1
        if not (r[0] and bool(r[1]) == (tk != "absent")):
            o.add("ordered_map", "contains", tkl, sk, canon, r, repr(tk != "absent"), f"{ts} in c")
        r = call(c.is_group, tag)
        o.n += 1
        want = {"absent": None, "plain": False, "group": True}[tk]
        if not (r[0] and r[1] is want):
            o.add("group_errors", "is_group", tkl, sk, canon, r, repr(want), f"c.is_group({ts})")
        # ---- get_group_list --------------------------------------------------
        r = call(c.get_group_list, tag)
        o.n += 1
        src = f"c.get_group_list({ts})"
        if tk == "absent":
            if not _raises(r, TagNotFoundError):
                o.add("group_errors", "get_group_list", tkl, sk, canon, r, "TagNotFoundError", src)
        elif tk == "plain":
            if not _raises(r, UnmappedRepeatedGrpError):
                o.add("group_errors", "get_group_list", tkl, sk, canon, r, "UnmappedRepeatedGrpError", src)
        else:
            good = r[0]
            if good:
                try:
                    got = tuple(snap_item(g) for g in r[1])
                except Exception as e:
                    got = ("!", ename(e))
                good = got == v
            if not good:
                o.add("group_order", "get_group_list", tkl, sk, canon, r, repr(v), src)
        # ---- get_group_by_index ----------------------------------------------
        n = len(v) if tk == "group" else 0
        for i in range(n + 1):
            r = call(c.get_group_by_index, tag, i)
            o.n += 1
            src = f"c.get_group_by_index({ts}, {i})"
            if tk == "absent":
                if not _raises(r, TagNotFoundError):
                    o.add("group_errors", "get_group_by_index", tkl, sk, canon, r, "TagNotFoundError", src)
            elif tk == "plain":
                if not _raises(r, FIXMessageError):
                    o.add("group_errors", "get_group_by_index", tkl, sk, canon, r, "a FIXMessageError", src)
            elif i < n:
                if not (r[0] and snap_item(r[1]) == v[i]):
                    o.add("group_order", "get_group_by_index", "group_in_range", sk, canon, r, repr(v[i]), src)
            else:
                if not _raises(r, FIXMessageError):
                    o.add("group_errors", "get_group_by_index", "group_out_of_range", sk, canon, r,
                          "a FIXMessageError (TagNotFoundError)", src)
        if tk == "group" and sk == "int":
            # an index below -len is out of range as well (negative indexes within range are unconstrained)
            r = call(c.get_group_by_index, tag, -(n + 1))
            o.n += 1
            if not _raises(r, FIXMessageError):
                o.add("group_errors", "get_group_by_index", "group_below_range", sk, canon, r,
                      "a FIXMessageError (TagNotFoundError)", f"c.get_group_by_index({ts}, {-(n + 1)})")
        if tk == "group" and n:
            # negative indexes within range: the accessor addresses the same ordered list get_group_list returns, so
            # index i in [-n, -1] yields item n+i; the only other coherent behaviour is to refuse EVERY negative
            # index with the documented error. Serving some and reporting others "out of range" is a violation.
            neg = [(i, call(c.get_group_by_index, tag, i)) for i in range(-n, 0)]
            o.n += n
            if not all(_raises(r, FIXMessageError) for _i, r in neg):
                for i, r in neg:
                    if not (r[0] and snap_item(r[1]) == v[n + i]):
                        edge = "first_from_end" if i == -n else ("last" if i == -1 else "inner")
                        o.add("group_order", "get_group_by_index", "group_negative_in_range_" + edge, sk, canon, r,
                              repr(v[n + i]) + " (item len+index; other negative indexes of this group are served)",
                              f"c.get_group_by_index({ts}, {i})")
        # ---- get_group_by_tag --------------------------------------------------
        if tk != "group":
            combos = [(gtags[0], gvals[0])]
        elif full:
            combos = [(g, gv) for g in gtags for gv in gvals]
        else:  # deepest level: the two inner tags, spellings alternating
            combos = [(gtags[(i + len(st)) % 3], gv) for i, gv in enumerate(gvals)] + [(gtags[3], gv) for gv in gvals]
        for (gt, gcanon), gv in combos:
            r = call(c.get_group_by_tag, tag, gt, gv)
            o.n += 1
            gts = "FTag.Account" if gt is FTag.Account else repr(gt)
            src = f"c.get_group_by_tag({ts}, {gts}, {gv!r})"
            gsk = "enum" if gt is FTag.Account else type(gt).__name__
            if tk == "absent":
                if not _raises(r, TagNotFoundError):
                    o.add("group_errors", "get_group_by_tag", tkl, sk, canon, r, "TagNotFoundError", src)
            elif tk == "plain":
                if not _raises(r, FIXMessageError):
                    o.add("group_errors", "get_group_by_tag", tkl, sk, canon, r, "a FIXMessageError", src)
            else:
                matches = [it for it in v if dict(it).get(gcanon) == gv]
                if not matches:
                    if not _raises(r, TagNotFoundError):
                        o.add("group_errors", "get_group_by_tag", "group_no_match", sk if gsk == "int" else "g" + gsk,
                              canon, r, "TagNotFoundError", src)
                else:
                    if not (r[0] and snap_item(r[1]) in matches):
                        o.add("group_order", "get_group_by_tag", "group_match", sk if gsk == "int" else "g" + gsk,
                              canon, r, "one of " + repr(matches), src)
        # ---- query(tag) --------------------------------------------------------
        if tk != "group":
            r = call(c.query, tag)
            o.n += 1
            good = r[0] and isinstance(r[1], dict)
            if good:
                try:
                    norm = {str(k): x for k, x in r[1].items()}
                except Exception:
                    norm = None
                if tk == "plain":
                    good = norm is not None and list(norm) == [canon] and type(norm[canon]) is str and norm[canon] == v
                else:
                    good = norm is not None and all(k == canon and x is None for k, x in norm.items())
            if not good:
                o.add("readback" if tk == "plain" else "ordered_map", "query", tkl, sk, canon, r,
                      repr({canon: v}), f"c.query({ts})")
        else:
            # a group tag reached through the plain-value lookup: the documented FIXMessageError (as get does) or
            # "no value" - never a non-string object handed out as the value read back
            r = call(c.query, tag)
            o.n += 1
            if not (_raises(r, FIXMessageError, TagNotFoundError) or query_ok(r, st, [canon])):
                o.add("group_errors", "query", tkl, sk, canon, r, "FIXMessageError (or None for the group tag)",
                      f"c.query({ts})")


def query_ok(r, st, canons):
    """query answered for a container holding groups: a dict over exactly the asked tags (asked order), plain tags
    with their string value, group and missing tags None."""
    if not (r[0] and isinstance(r[1], dict)):
        return False
    try:
        norm = [(str(k), x) for k, x in r[1].items()]
    except Exception:
        return False
    d = dict(st)
    want = []
    for cn in canons:
        if cn not in [k for k, _x in want]:
            want.append((cn, d[cn] if isinstance(d.get(cn), str) else None))
    return len(norm) == len(want) and all(
        k == wk and (x is None if wv is None else (type(x) is str and x == wv)) for (k, x), (wk, wv) in zip(norm, want))


def typed(v, alt):
    if alt:
        if v == "1":
            return 1
        if v == "1.5":
            return 1.5
    return v


_SPELL = {}


def spell(k, n):
    opts = _SPELL.get(k)
    if opts is None:
        opts = [int(k), k]
        if k == "1":
            opts.append(FTag.Account)
        _SPELL[k] = opts
    return opts[n % len(opts)]


def as_dict(st, alt=0, containers=False):
    """A plain dict with the content of a model state (groups as lists of dicts / containers)."""
    d = {}
    i = 0
    for k, v in st:
        i += 1
        key = spell(k, alt * i)
        if type(v) is str:
            d[key] = typed(v, alt) if alt else v
        else:
            lst = []
            for j, it in enumerate(v):
                dd = {spell(kk, alt * (j + 1)): typed(vv, alt) for kk, vv in it}
                lst.append(FIXContainer(dd) if (containers and (j + alt) % 2 == 0) else dd)
            d[key] = lst
    return d


def construct(cls, st, alt=0):
    d = as_dict(st, alt, containers=True)
    return FIXMessage("D", d) if cls == "FIXMessage" else FIXContainer(d)


def has_group(st):
    return any(not isinstance(v, str) for _k, v in st)


def content_set(st):
    return frozenset(st)


def container_variants(M, st, full=True):
    """(variant name, model state of the other container, expected equality or None).
    full=False (deepest level only): one operand per kind, derived from the last tag."""
    if full:
        out = [("same_content", st, True), ("same_content_other_spelling", st, True)]
    else:
        out = [("same_content_other_spelling" if len(st) % 2 else "same_content", st, True)]
    present = {k for k, _ in st}
    last = len(st) - 1
    for i, (k, v) in enumerate(st):
        if isinstance(v, str):
            if full or i == last:
                nv = M.B if v != M.B else M.A
                out.append(("value_changed", st[:i] + ((k, nv),) + st[i + 1:], False))
            if "|" in v:
                # the printed-form twin: head value followed by the embedded "tag=value" as a real tag
                head, rest = v.split("|", 1)
                k2, v2 = rest.split("=", 1)
                if k2 not in present:
                    out.append(("printed_form_split", st[:i] + ((k, head), (k2, v2)) + st[i + 1:], False))
        elif full or i == last:
            if v:
                it = v[0]
                it2 = (((it[0][0], it[0][1] + "z"),) + it[1:]) if it else (("1", "z"),)
                out.append(("group_item_value_changed", st[:i] + ((k, (it2,) + v[1:]),) + st[i + 1:], False))
                if full:
                    out.append(("group_item_removed", st[:i] + ((k, v[:-1]),) + st[i + 1:], False))
            if full or not v:
                out.append(("group_vs_plain", st[:i] + ((k, M.A),) + st[i + 1:], False))
        if full or i == 0:
            out.append(("tag_removed", st[:i] + st[i + 1:], False))
    if full or not st:
        for cn in M.CANON:
            if cn not in present:
                out.append(("tag_added", st + ((cn, M.A),), False))
                break
    if full and len(st) >= 2:
        out.append(("reordered", tuple(reversed(st)), None))
    return out


def eq_call(a, b):
    try:
        return True, (a == b)
    except Exception as e:
        return False, e


def eq_fail(r, expected, groupish=False):
    """failure kind or None. groupish: documented FIXMessageError is acceptable (dict comparison with groups)."""
    if expected is None:
        return None
    if not r[0]:
        if groupish and isinstance(r[1], FIXMessageError):
            return None
        return "raised_" + ename(r[1])
    if r[1] is True or r[1] is False:
        return None if r[1] is expected else ("true" if r[1] else "false")
    return "returned_" + type(r[1]).__name__


def observe_whole(M, cls, path, c, st, o, full=True, fresh=True):
    # ---- items(): insertion order + string values ---------------------------
    r = call(snapshot, c)
    o.n += 1
    if not (r[0] and r[1] == st):
        o.add("ordered_map", "items", "whole", "int", None, r, repr(st), "list(c.items())")
        return  # the state itself is off: the remaining whole-object observers would only echo it
    # ---- constructor with refused tag spellings (once, at the root) ----------------
    if not st and full:
        for ti, (tag, canon, sk) in enumerate(M.TAGS):
            if canon is not None or tag is None:
                continue
            tgt = "nonstr_tag" if ti in M.NONSTR else ("laxdecimal_tag" if ti in M.LAX else "nonint")
            for d in ({tag: M.A}, {tag: [{1: M.A}]}):
                r = call(FIXContainer, d)
                o.n += 1
                if not _raises(r, FIXMessageError):
                    o.add("nonint_tag", "constructor", tgt, "int" if tgt != "nonint" else sk, None, r,
                          "FIXMessageError", f"FIXContainer({d!r})")
    # ---- query() ---------------------------------------------------------------
    r = call(c.query)
    o.n += 1
    if not has_group(st):
        good = r[0] and isinstance(r[1], dict)
        if good:
            norm = [(str(k), x) for k, x in r[1].items()]
            good = dict(norm) == dict(st) and len(norm) == len(st) and all(type(x) is str for _k, x in norm)
        if not good:
            o.add("readback", "query_all", "whole", "int", None, r, repr(dict(st)), "c.query()")
    else:
        # container holding a group: query() / query(every tag, one missing tag) either refuse with the documented
        # FIXMessageError (a group met by the plain lookup) or answer strings for plain tags and None for the rest
        if not (_raises(r, FIXMessageError, TagNotFoundError) or query_ok(r, st, [k for k, _v in st])):
            o.add("group_errors", "query_all", "whole_with_group", "int", None, r,
                  "FIXMessageError, or str values for plain tags and None for group tags", "c.query()")
        absent = [cn for cn in M.CANON if cn not in {k for k, _v in st}][:1]
        for order, asked in (("plain_first", sorted((k for k, _v in st), key=lambda k: not isinstance(dict(st)[k], str))),
                             ("group_first", sorted((k for k, _v in st), key=lambda k: isinstance(dict(st)[k], str)))):
            asked = asked + absent
            if order == "group_first" and (not full or all(not isinstance(x, str) for _k, x in st)):
                continue
            r = call(c.query, *[spell(k, j) for j, k in enumerate(asked)])
            o.n += 1
            if not (_raises(r, FIXMessageError, TagNotFoundError) or query_ok(r, st, asked)):
                o.add("group_errors", "query_tags", "with_group_" + order, "int", None, r,
                      "FIXMessageError, or str values for plain tags and None for group / missing tags",
                      f"c.query({', '.join(repr(spell(k, j)) for j, k in enumerate(asked))})")
    # ---- pickle ------------------------------------------------------------------
    r = call(lambda x: pickle.loads(pickle.dumps(x)), c)
    o.n += 1
    if not (r[0] and type(r[1]) is type(c) and snapshot(r[1]) == st):
        o.add("pickle", "pickle_roundtrip", "whole", "int", None, r, repr(st), "pickle.loads(pickle.dumps(c))")
    else:
        e = eq_call(c, r[1])
        f = eq_fail(e, True)
        o.n += 1
        if f:
            o.add("eq_container", "eq", "pickle_copy", "int", None, f, "True", "c == pickle.loads(pickle.dumps(c))")
    # ---- equality with containers and with dicts of the same derived content ---------
    g = has_group(st)
    base = as_dict(st)
    dvars = []
    for vi, (name, ost, exp) in enumerate(container_variants(M, st, full)):
        ocls = "FIXContainer" if (vi % 2 == 0) else "FIXMessage"
        alt = 1 if name == "same_content_other_spelling" else 0
        d = as_dict(ost, alt, containers=bool(alt))
        if name != "printed_form_split":
            dvars.append((name, d, True if name == "reordered" else exp))
        r = call(FIXMessage, "D", d) if ocls == "FIXMessage" else call(FIXContainer, d)
        o.n += 1
        if not (r[0] and snapshot(r[1]) == ost):
            o.add("ordered_map", "constructor", "whole", "int", None, r, repr(ost), f"{ocls}({d!r})")
            continue
        other = r[1]
        both = ((c, other, "c == other"), (other, c, "other == c"))
        if exp is not True:
            both = both[vi % 2:vi % 2 + 1]  # one direction, alternating (same_content: both)
        for a, b, src in both:
            e = eq_call(a, b)
            o.n += 1
            o.outcomes.add(("eq_container", name, repr(e[1]) if e[0] else _fk(e)))
            f = eq_fail(e, exp)
            if f:
                o.add("eq_container", "eq", name, "int", None, f, repr(exp),
                      f"{src}  with other = {ocls}({d!r})")
    # framing tags only on the dict side (container lacks them)
    frs = FRAMING if full else FRAMING[len(st) % 4:len(st) % 4 + 1]
    for F in frs:
        d = dict(base)
        d[F] = "X"
        dvars.append(("framing_only_in_dict", d, True))
    if full:
        d = dict(base)
        d[FTag.MsgType] = "X"
        dvars.append(("framing_only_in_dict", d, True))
    for vi, (name, d, exp) in enumerate(dvars):
        for src, e in ((("c == d", eq_call(c, d)),) if vi % 2 else (("d == c", eq_call(d, c)),)):
            o.n += 1
            o.outcomes.add(("eq_dict", name, _fk(e) if not e[0] else repr(e[1])))
            f = eq_fail(e, exp, groupish=g or has_list(d))
            if f:
                o.add("eq_dict", "eq", name, "int", None, f, repr(exp), f"{src}  with d = {d!r}")
    # ---- the container owns its group lists (set_group from ONE caller list of FIXContainer items) ------
    if full and fresh:
        absent = [cn for cn in M.CANON if cn not in {k for k, _v in st}]
        if absent:
            t1 = int(absent[0])
            t2 = int(absent[1]) if len(absent) > 1 else None
            items = (M.ITEMS[0].model, M.ITEMS[1].model)
            lst = [FIXContainer(dict(M.ITEMS[0].pairs)), FIXContainer(dict(M.ITEMS[1].pairs))]
            p, q = rebuild(M, cls, path), rebuild(M, "FIXContainer" if cls == "FIXMessage" else "FIXMessage", path)
            ok = call(p.set_group, t1, lst)[0] and call(q.set_group, t1, lst)[0]
            if ok and t2 is not None:
                ok = call(p.set_group, t2, lst)[0]
            o.n += 3
            if ok:
                src = (f"L = [FIXContainer({dict(M.ITEMS[0].pairs)!r}), FIXContainer(...)]; p.set_group({t1}, L); "
                       f"q.set_group({t1}, L)" + (f"; p.set_group({t2}, L)" if t2 is not None else ""))
                tail = ((str(t2), items),) if t2 is not None else ()
                exp_q = st + ((str(t1), items),)
                # (a) a change through one tag of one container
                call(p.add_group, t1, {1: M.A})
                exp_p = st + ((str(t1), items + (M.ITEMS[0].model,)),) + tail
                o.n += 3
                gp, gq = snapshot(p), snapshot(q)
                if gp != exp_p or gq != exp_q:
                    what = "other_container_changed" if gq != exp_q else "other_tag_changed"
                    o.add("ownership", "set_group_shared_list", "add_group_on_one_of_them", "int", None,
                          what, repr((exp_p, exp_q)), src + f"; p.add_group({t1}, {{1: {M.A!r}}})  ->  p={gp!r} q={gq!r}")
                else:
                    # (b) the caller keeps using its list
                    for step, fn in (("append", lambda: lst.append(FIXContainer({55: M.A}))),
                                     ("replace_item", lambda: lst.__setitem__(0, FIXContainer({55: M.B}))),
                                     ("clear", lst.clear)):
                        fn()
                        o.n += 2
                        gp, gq = snapshot(p), snapshot(q)
                        if gp != exp_p or gq != exp_q:
                            o.add("ownership", "set_group_shared_list", "caller_list_mutated_afterwards", "int", None,
                                  "container_changed_by_list_" + step, repr((exp_p, exp_q)),
                                  src + f"; p.add_group({t1}, {{1: {M.A!r}}}); L.{step}(...)  ->  p={gp!r} q={gq!r}")
                            break
            # empty caller list, appended to afterwards
            r0 = rebuild(M, cls, path)
            l0 = []
            if call(r0.set_group, t1, l0)[0]:
                l0.append(FIXContainer({1: M.A}))
                o.n += 2
                g0 = snapshot(r0)
                if g0 != st + ((str(t1), ()),):
                    o.add("ownership", "set_group_shared_list", "caller_list_mutated_afterwards", "int", None,
                          "container_changed_by_list_append_to_empty", repr(st + ((str(t1), ()),)),
                          f"L = []; r.set_group({t1}, L); L.append(FIXContainer(...))  ->  r={g0!r}")
    # ---- get_group_by_tag when an EARLIER item holds the inner tag as a nested group -------------
    if full:
        for k, v in st:
            if isinstance(v, str):
                continue
            p = rebuild(M, cls, path)
            nested = {55: [{1: M.A}]}
            if call(p.add_group, int(k), nested, 0)[0]:
                o.n += 1
                later = [it for it in v if isinstance(dict(it).get("55"), str)]
                src0 = f"p.add_group({k}, {nested!r}, 0); "
                if later:
                    gv = dict(later[0])["55"]
                    r = call(p.get_group_by_tag, int(k), 55, gv)
                    o.n += 1
                    if not (r[0] and snap_item(r[1]) in later):
                        o.add("group_order", "get_group_by_tag", "earlier_item_holds_gtag_as_group", "int", k, r,
                              repr(later[0]), src0 + f"p.get_group_by_tag({k}, 55, {gv!r})")
                r = call(p.get_group_by_tag, int(k), 55, "no-such-value")
                o.n += 1
                if not _raises(r, TagNotFoundError):
                    o.add("group_errors", "get_group_by_tag", "no_match_and_gtag_is_group_in_an_item", "int", k, r,
                          "TagNotFoundError", src0 + f"p.get_group_by_tag({k}, 55, 'no-such-value')")
            break  # first group tag only
    # container that carries all four framing tags
    c2 = rebuild(M, cls, path)
    ok = True
    for F in FRAMING:
        if call(c2.set, F, "X" + str(F))[0] is False:
            ok = False
    o.n += 4
    if ok:
        fv = []
        fv.append(("framing_only_in_container", dict(base), True))
        d = dict(base)
        for F in FRAMING:
            d[F] = "X" + str(F)
        fv.append(("framing_both_same", d, True))
        for F in frs:
            d = dict(base)
            d[F] = "other"
            fv.append(("framing_both_value_differs", d, True))
        if full and st and not g:
            k, v = st[0]
            d = dict(base)
            d[int(k)] = v + "z"
            fv.append(("framing_in_container_core_value_changed", d, False))
            d = dict(base)
            del d[int(k)]
            fv.append(("framing_in_container_core_tag_removed", d, False))
        for name, d, exp in fv:
            e = eq_call(c2, d)
            o.n += 1
            o.outcomes.add(("eq_dict", name, _fk(e) if not e[0] else repr(e[1])))
            f = eq_fail(e, exp, groupish=g)
            if f:
                o.add("eq_dict", "eq", name, "int", None, f, repr(exp),
                      f"c2 == d  with c2 = c + framing tags {{8:'X8',9:'X9',10:'X10',35:'X35'}}, d = {d!r}")


def has_list(d):
    return any(isinstance(v, list) for v in d.values())


def observe(M, cls, path, st, acc, full=True, obj=None, check="observe"):
    """All observers in one state; failures are recorded in acc -> (number of real calls, outcomes).
    full=False: fewer second operands for the equality observers (used on the deepest level only).
    obj: observe this object (claimed to be in state st) instead of a freshly built one."""
    c = rebuild(M, cls, path) if obj is None else obj
    o = Obs()
    observe_tags(M, c, st, o, full)
    observe_whole(M, cls, path, c, st, o, full, obj is None)
    if o.fails:
        failed_int = {(f[1], f[2], f[4]) for f in o.fails if f[3] == "int"}
        for clause, observer, target, sk, canon, failure, detail in o.fails:
            if sk == "int" or (observer, target, canon) in failed_int:
                delta = "any_spelling"
            else:
                delta = "tag_" + sk
            if observer == "eq":
                sig = f"{clause}|{target}:{failure}"
            else:
                sig = f"{clause}|{observer}:{target}:{delta}:{failure}"
            x = acc.get(sig)
            if x is not None:
                x["count"] += 1
                continue
            detail = dict(detail)
            detail.update({"root": cls, "history": [M.describe(op_of(M, i)) for i in path], "model_state": st})
            acc[sig] = {"signature": sig, "clause": CLAUSES[clause], "detail": detail, "count": 1,
                        "family": f"{clause}" if observer == "eq" else f"{clause}:{observer}",
                        "replay": {"cls": cls, "path": [list(op_of(M, i)) for i in path], "check": check,
                                   "seed": M.seed, "signature": sig}}
    return o.n, o.outcomes


def purity(M, cls, path, st, acc, outcomes, only_items=False):
    """Observers are pure: on ONE object run all observers (lookups, query, pickle, every comparison), apply a
    mutator to that same object (and to a pickled copy of it), then observe again, judged by the model state after
    the mutator. Anything that fails there but not on a freshly built object for path+mutator is a violation.
    -> number of real calls."""
    n = 0
    for op in M.OPS:
        if only_items == "items" and op[0] != "item":
            continue
        if only_items == "base" and op[0] != "item" and base_of(M, op) != op:
            continue  # simplest spelling / value / item form of each mutator only
        expect, nst = model_apply(M, st, op)
        if expect == "skip":
            continue
        variants = ("same_object", "pickled_copy") if (op[0] == "item" or base_of(M, op) == op) else ("same_object",)
        fresh = None
        for variant in variants:
            obj = rebuild(M, cls, path)
            k, _o = observe(M, cls, path, st, {}, True, obj)
            n += k
            if variant == "pickled_copy":
                try:
                    obj = pickle.loads(pickle.dumps(obj))
                except Exception:
                    continue  # judged by the pickle observer
            real_apply(M, obj, op, st)
            after = {}
            npath = tuple(path) + (op,)
            k, _o = observe(M, cls, npath, nst, after, True, obj)
            n += k + 1
            outcomes.add(("purity", opname(op), variant, "clean" if not after else "differs"))
            if not after:
                continue
            if fresh is None:
                fresh = {}
                observe(M, cls, npath, nst, fresh, True)
            for sig0, v in after.items():
                if sig0 in fresh:
                    continue  # the fresh object fails in the same way: not an effect of the earlier observers
                fam = "nested_item_change" if op[0] == "item" else opname(op)
                sig = f"pure|{fam}_after_observers:{variant}:{v['family']}"
                x = acc.get(sig)
                if x is not None:
                    x["count"] += 1
                    continue
                d = dict(v["detail"])
                d["history"] = [M.describe(op_of(M, i)) for i in path]
                d["then"] = ["<all observers on c: get/[]/in/is_group/get_group_*/query/items/pickle/== ...>"] + (
                    ["c = pickle.loads(pickle.dumps(c))"] if variant == "pickled_copy" else []) + [M.describe(op)]
                d["model_state"] = nst
                d["fails_as"] = sig0
                d["fresh_object_for_same_history"] = "passes"
                acc[sig] = {"signature": sig, "clause": CLAUSES["pure"], "detail": d, "count": 1,
                            "replay": {"cls": cls, "path": [list(op_of(M, i)) for i in path], "check": "purity",
                                       "op": list(op), "variant": variant, "seed": M.seed, "signature": sig}}
    return n


# ---------------------------------------------------------------------------
# exploration
# ---------------------------------------------------------------------------
G = {}


def key8(st):
    return hashlib.blake2b(repr(st).encode(), digest_size=8).digest()


def model_state(M, path):
    st = ()
    for oi in path:
        st = model_apply(M, st, op_of(M, oi))[1]
    return st


def add_v(acc, v):
    x = acc.get(v["signature"])
    if x is None:
        v = dict(v)
        v["count"] = 1
        acc[v["signature"]] = v
    else:
        x["count"] += 1


def mut_violation(M, cls, path, st, op, fail, expect, info, acc):
    """Classify one failing mutator case and record it in acc. -> signature."""
    mop, mfail, delta = classify_mut(M, cls, path, st, op, fail)
    clause = MUT_CLAUSE[(op[0], expect)]
    tk = kind_of(st, M.TAGS[op[1]][1])
    if op[1] in M.NONSTR:
        tk = "nonstr_tag"
    elif op[1] in M.LAX:
        tk = "laxdecimal_tag"
    elif op[1] in M.EITHER:
        tk = "alt_decimal_of_" + ("absent" if tk == "absent" else "present")
    sig = f"{clause}|{opname(op)}:{tk}:{delta}:{mfail}"
    x = acc.get(sig)
    if x is not None:
        x["count"] += 1
        return sig
    if mop != op:
        fail2, expect2, nst2, info2, _r = check_mut(M, cls, path, st, mop)
        if fail2 is not None:
            op, fail, expect, info = mop, fail2, expect2, info2
    nst = model_apply(M, st, op)[1]
    acc[sig] = {
        "signature": sig, "clause": CLAUSES[clause], "count": 1,
        "detail": {"root": cls, "history": [M.describe(op_of(M, i)) for i in path], "model_state_before": st,
                   "operation": M.describe(op), "expectation": expect, "expected_state_after": nst,
                   "failure": fail, "observed": info},
        "replay": {"cls": cls, "path": [list(op_of(M, i)) for i in path], "check": "mutate", "op": list(op),
                   "seed": M.seed, "signature": sig},
    }
    return sig


def base_of(M, op):
    """The simplest variant of an op (int spelling, first value, first item as dict, default index)."""
    b = op
    for pos, bases, _label in _deltas(M, op):
        if bases is not None:
            b = b[:pos] + (bases[0],) + b[pos + 1:]
    return b


def expand_state(M, cls, path, st, acc, outcomes):
    """Every mutator variant in one state. -> (children bytes, number of mutator executions)."""
    kids = []
    seen = {st}
    failed = {}
    nmut = 0
    shared = rebuild(M, cls, path)
    for oi, op in enumerate(M.OPS):
        fail, expect, nst, info, reusable = check_mut(M, cls, path, st, op, shared)
        if expect == "skip":
            continue
        nmut += 1
        if expect != "ok" and not reusable:
            shared = rebuild(M, cls, path)
        if fail is None:
            outcomes.add((opname(op), expect, kind_of(st, M.TAGS[op[1]][1])))
            if nst not in seen:
                seen.add(nst)
                kids.append(key8(nst) + bytes((oi & 255, oi >> 8)))
        else:
            outcomes.add((opname(op), expect, "FAIL:" + fail))
            failed[op] = (fail, expect, info)
    if failed:
        # attribute each failing variant to its simplest relative when that one fails in the same way (cheap);
        # otherwise simplify it parameter by parameter to name what is needed to fail
        sig_of_base = {}
        rest = []
        for op, (fail, expect, info) in failed.items():
            if base_of(M, op) == op:
                sig_of_base[op] = mut_violation(M, cls, path, st, op, fail, expect, info, acc)
            else:
                rest.append(op)
        for op in rest:
            fail, expect, info = failed[op]
            b = base_of(M, op)
            if b in failed and failed[b][:2] == (fail, expect):
                acc[sig_of_base[b]]["count"] += 1
            else:
                mut_violation(M, cls, path, st, op, fail, expect, info, acc)
    return b"".join(kids), nmut


def work(item):
    """Observe (and optionally expand) a chunk of states.
    -> (violations, [children bytes per state], counters, outcomes)."""
    if item[0] == "P":
        return pair_rows(item[1])
    if item[0] == "U":
        _tag, cls, paths, only_items = item
        M = G["M"]
        acc = {}
        outcomes = set()
        n = 0
        for path in paths:
            n += purity(M, cls, path, model_state(M, path), acc, outcomes, only_items)
        return list(acc.values()), None, (n, 0, 0), outcomes
    _tag, cls, paths, expand = item
    M = G["M"]
    acc = {}
    outcomes = set()
    ncalls = nmut = nontrivial = 0
    kids = []
    for path in paths:
        st = model_state(M, path)
        n, outs = observe(M, cls, path, st, acc, full=expand)
        ncalls += n
        outcomes |= outs
        if expand:
            k, m = expand_state(M, cls, path, st, acc, outcomes)
            kids.append(k)
            nmut += m
        if any(not isinstance(v, str) and len(v) >= 2 for _k, v in st):
            nontrivial += 1
    return list(acc.values()), kids, (ncalls, nmut, nontrivial), outcomes


def pair_work(i):
    """Row i of the all-pairs equality matrix over the shallow states."""
    M = G["M"]
    states = G["pair_states"]
    objs = G["pair_objs"]
    dicts = G["pair_dicts"]
    si = states[i]
    ci = objs[i]
    acc = {}
    n = 0
    outs = set()
    for j, sj in enumerate(states):
        if si == sj:
            exp, rel = True, "same"
        elif content_set(si) != content_set(sj):
            exp = False
            rel = "tagset_differs" if {k for k, _ in si} != {k for k, _ in sj} else "value_differs"
        else:
            exp, rel = None, "order_differs"
        sep = any(isinstance(v, str) and "|" in v for _k, v in si + sj)
        if sep and exp is False:
            rel += "_sepvalue"
        e = eq_call(ci, objs[j])
        n += 1
        outs.add(("pair_container", rel, _fk(e) if not e[0] else repr(e[1])))
        f = eq_fail(e, exp)
        if f:
            add_v(acc, pair_violation(M, "eq_container", rel, f, i, j, si, sj, exp, "container"))
        if has_group(si) or has_group(sj):
            continue  # dict comparison with groups: documented FIXMessageError, covered per state
        g = False
        e = eq_call(ci, dicts[j])
        n += 1
        outs.add(("pair_dict", rel, _fk(e) if not e[0] else repr(e[1])))
        f = eq_fail(e, True if rel == "order_differs" else exp, groupish=g)
        if f:
            add_v(acc, pair_violation(M, "eq_dict", rel, f, i, j, si, sj, exp, "dict"))
    return list(acc.values()), n, outs


def pair_violation(M, clause, rel, f, i, j, si, sj, exp, what):
    sig = f"{clause}|pair_{rel}:{f}"
    return {"signature": sig, "clause": CLAUSES[clause],
            "detail": {"left_container_content": si, "right_" + what + "_content": sj, "expected": exp, "observed": f},
            "replay": {"check": "pair", "what": what, "left": jsonable(si), "right": jsonable(sj),
                       "rel": rel, "seed": M.seed, "signature": sig}}


def jsonable(st):
    return [[k, v if isinstance(v, str) else [[list(p) for p in it] for it in v]] for k, v in st]


def unjson(js):
    return tuple((k, v if isinstance(v, str) else tuple(tuple(tuple(p) for p in it) for it in v)) for k, v in js)


def pair_expect(si, sj):
    if si == sj:
        return True, "same"
    if content_set(si) != content_set(sj):
        return False, None
    return None, "order_differs"


def pair_rows(rows):
    acc = {}
    n = 0
    outs = set()
    for i in rows:
        vio, k, o = pair_work(i)
        for v in vio:
            x = acc.get(v["signature"])
            if x is None:
                acc[v["signature"]] = v
            else:
                x["count"] += v["count"]
        n += k
        outs |= o
    return list(acc.values()), None, (n, 0, 0), outs


def terminal_op(M, op):
    """Children reached by writing an int / float / enum value or the separator-laden string are observed (all
    observers, all equality operands) but not expanded further: the conversion happens at write time and the stored
    "1" / "1.5" / "a|55=a" are plain strings to every later mutator. Expanded values: "a" and the empty string."""
    return op[0] in ("set", "setitem") and M.VALUES[op[2]][2] in ("int", "float", "enum", "sep")


def explore(ctx, M, plans, pair_depth, purity_all_depth, purity_item_depth):
    """Level-synchronous BFS for several root classes at once (one process pool per level: forking is the
    expensive part on small levels, so tiny levels run in-process).
    plans: list of (root class, depth). The all-pairs equality matrix over the states of depth <= pair_depth of
    the first plan is evaluated together with level pair_depth+1. The purity pass runs for the states of the
    first plan: every mutator up to purity_all_depth, the nested-item mutators up to purity_item_depth."""
    G["M"] = M
    exps = [{"cls": cls, "depth": depth, "seen": {key8(())}, "level": [()], "term": [], "per_level": []}
            for cls, depth in plans]
    shallow = []
    tot_states = tot_obs = tot_mut = tot_nontriv = tot_pair = tot_pure = n_pure_states = 0
    for d in range(max(depth for _c, depth in plans) + 1):
        items = []
        owners = []
        n_expand = n_leaf = 0
        for e in exps:
            if d > e["depth"]:
                continue
            expand = d < e["depth"]
            for level, ex in ((e["level"], expand), (e["term"], False)):
                size = 8 if ex else 96
                size = max(1, min(size, len(level) // (ctx.workers * 4) or 1))
                for i in range(0, len(level), size):
                    items.append(("S", e["cls"], level[i:i + size], ex))
                    owners.append(e)
                if ex:
                    n_expand += len(level)
                else:
                    n_leaf += len(level)
            e["next"] = []
            e["next_term"] = []
        e0 = exps[0]
        if d <= max(purity_all_depth, purity_item_depth) and d < e0["depth"]:
            lv = e0["level"]
            only_items = False if d <= 1 else ("base" if d <= purity_all_depth else "items")
            size = 1 if not only_items else (4 if only_items == "base" else 16)
            for i in range(0, len(lv), size):
                items.append(("U", e0["cls"], lv[i:i + size], only_items))
                owners.append("pure")
            n_pure_states += len(lv)
        if d == pair_depth + 1:
            states = [model_state(M, p) for p in shallow]
            G["pair_states"] = states
            G["pair_objs"] = [rebuild(M, "FIXContainer" if i % 2 else "FIXMessage", p)
                              for i, p in enumerate(shallow)]
            G["pair_dicts"] = [as_dict(st) for st in states]
            for i in range(0, len(states), 8):
                items.append(("P", list(range(i, min(i + 8, len(states))))))
                owners.append(None)
        if n_expand <= 1 and n_leaf <= 200 and d != pair_depth + 1:
            res = [work(x) for x in items]
        else:
            res = ctx.pmap(work, items, chunk=1)
        for item, e, (vio, kidlist, (nc, nm, nt), outs) in zip(items, owners, res):
            if vio:
                ctx.merge_violations(vio)
            ctx.outcomes.update(outs)
            if e is None:
                tot_pair += nc
                continue
            if e == "pure":
                tot_pure += nc
                continue
            tot_obs += nc
            tot_mut += nm
            tot_nontriv += nt
            if not item[3]:
                continue
            seen, nxt, nxt_term = e["seen"], e["next"], e["next_term"]
            for p, kids in zip(item[2], kidlist):
                for o in range(0, len(kids), 10):
                    h = kids[o:o + 8]
                    if h not in seen:
                        seen.add(h)
                        oi = kids[o + 8] | (kids[o + 9] << 8)
                        (nxt_term if terminal_op(M, M.OPS[oi]) else nxt).append(p + (oi,))
        for e in exps:
            if d > e["depth"]:
                continue
            n = len(e["level"]) + len(e["term"])
            tot_states += n
            e["per_level"].append(n)
            if e is exps[0] and d <= pair_depth:
                shallow.extend(e["level"])
                shallow.extend(e["term"])
            e["level"] = e.pop("next")
            e["term"] = e.pop("next_term")
    ctx.count(states=tot_states, transitions=tot_mut, evaluations=tot_obs + tot_mut + tot_pair + tot_pure,
              traces=tot_states + tot_mut, nontrivial=tot_nontriv, observer_calls=tot_obs,
              pair_comparisons=tot_pair, purity_calls=tot_pure, purity_states=n_pure_states)
    return [e["per_level"] for e in exps], shallow


def run(ctx):
    M = Menu(ctx.seed)
    depth = 4 if ctx.quick else 5
    ctx.rule = (
        "level-synchronous BFS over sequences of mutators (set / set replace=True / c[t]=v / del / add_group at "
        "default,-1,0,1,-2,-3 with dict and FIXContainer items / set_group; every tag spelling incl. refused ones, every "
        "value type) on the real FIXMessage (depth D) and FIXContainer (depth 3); states deduplicated by the "
        "reference model state; in EVERY distinct state all observers (get, [], get default, in, is_group, "
        "get_group_list, get_group_by_index at every index in [-len-1, len], get_group_by_tag, query of one tag / all tags / every tag plus a missing one (plain-first and group-first), items, pickle, == with derived containers and "
        "dicts with/without framing tags) are applied under every spelling; every mutator variant is executed on a "
        "fresh real object and the real state is read back and compared; plus the full equality matrix over all "
        "states of depth <= 2; plus the purity pass: on one object all observers, then a mutator (also on a pickled "
        "copy), then all observers again, compared with a fresh object (every mutator variant on states of depth <= 1, "
        "thorough: also the simplest variant of every mutator on depth 2; nested-item mutators on depth <= 2). Mutators include set/replace/del on a group item "
        "reached through get_group_by_index / get_group_list / get_group_by_tag. States reached by writing an "
        "int/float/enum value or the separator string are observed but not expanded. On the deepest level the equality observers use one derived second operand per kind "
        "instead of one per tag. non-trivial = state holding a repeating group with at least two items"
    )
    ctx.bounds = {
        "depth_FIXMessage": depth, "depth_FIXContainer": 3, "mutator_variants_per_state": len(M.OPS),
        "tag_spellings": [repr(t[0]) for t in M.TAGS], "values": [repr(v[0]) for v in M.VALUES],
        "group_items": [M.item_src(i, 0) for i in range(len(M.ITEMS))], "nesting": "1 (2 in the get_group_by_tag probe)",
        "pair_matrix_depth": 2,
    }
    (lv1, lv2), shallow = explore(ctx, M, [("FIXMessage", depth), ("FIXContainer", 3)], 2,
                                  1 if ctx.quick else 2, 2)
    ctx.bounds["states_per_level_FIXMessage"] = lv1
    ctx.bounds["states_per_level_FIXContainer"] = lv2
    ctx.bounds["pair_matrix_states"] = len(shallow)
    for p in (shallow[1:2] + shallow[40:41] + shallow[300:301] + shallow[-1:]):
        ctx.sample({"history": [M.describe(M.OPS[i]) for i in p], "model_state": model_state(M, p)})
    ctx.assumptions += [
        "values are restricted to str/int/float/enum instances (no classes: setting an exception class as a value "
        "is a separate, test-pinned feature outside the property)",
        "a dict / FIXContainer passed to add_group / set_group is not modified by the caller afterwards (aliasing of "
        "the argument is not part of the property); items are modified only through the group accessors",
        "histories continue only after the str values \"a\" and \"\": an int/float/enum value or the string with "
        "separators \"a|55=a\" is the last operation of its history",
        "deleting a missing tag, order-only differences in equality and which of several matching items "
        "get_group_by_tag returns are unconstrained; query() / query(tags) on a container holding groups may refuse "
        "with FIXMessageError or answer str for plain and None for group / missing tags (never another object); "
        "get_group_by_index with a negative in-range index returns item len+index unless EVERY negative index of "
        "that group is refused",
    ]


def replay(ctx, rep):
    M = Menu(rep.get("seed", ctx.seed))
    want = rep.get("signature")
    out = []
    if rep["check"] == "pair":
        si, sj = unjson(rep["left"]), unjson(rep["right"])
        ci = construct("FIXMessage", si)
        other = construct("FIXContainer", sj) if rep["what"] == "container" else as_dict(sj)
        exp, _ = pair_expect(si, sj)
        g = rep["what"] == "dict" and (has_group(si) or has_group(sj))
        if rep["what"] == "dict" and exp is None:
            exp = True
        f = eq_fail(eq_call(ci, other), exp, groupish=g)
        if f:
            clause = "eq_container" if rep["what"] == "container" else "eq_dict"
            out.append(pair_violation(M, clause, rep["rel"], f, 0, 1, si, sj, exp, rep["what"]))
    else:
        cls, path = rep["cls"], tuple(tuple(o) for o in rep["path"])
        st = model_state(M, path)
        acc = {}
        if rep["check"] == "observe":
            observe(M, cls, path, st, acc)
        elif rep["check"] == "purity":
            sub = Menu(M.seed)
            sub.OPS = [tuple(rep["op"])]
            purity(sub, cls, path, st, acc, set())
        else:
            op = tuple(rep["op"])
            fail, expect, nst, info, _r = check_mut(M, cls, path, st, op)
            if fail is not None:
                mut_violation(M, cls, path, st, op, fail, expect, info, acc)
        out = list(acc.values())
    if want:
        same = [v for v in out if v["signature"] == want]
        if same:
            return same[:1]
    return out[:3]
